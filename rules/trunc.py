"""G23: silently truncating slices of an index range.

For `A = torch.arange(E)` (1-D index range of extent E), a slice `A[:k]` - or a slice `M[:, :k]`
of a mask built by broadcasting against A - yields min(E, k) entries. When the result is then
expanded / used against an axis of size k, k <= E must be guaranteed: by construction (E is a
`max(...)` that includes k) or by a dominating guard that bounds k's source by the sequence
lengths (`if (P >= lens).any(): raise` with k = P.max()). Otherwise large k fails at run time.
"""
from __future__ import annotations

import ast
from typing import Dict, List, Optional, Set, Tuple

from sa.astutil import call_name, guards_of, parent_map, u
from sa.defuse import ReachingDefs
from sa.model import FuncInfo, own_nodes


def _arange_extent(d) -> Optional[ast.AST]:
    v = d.value
    if d.kind == "assign" and isinstance(v, ast.Call) and call_name(v) == "torch.arange" and v.args:
        return v.args[0] if len(v.args) == 1 else (v.args[1] if len(v.args) >= 2 else None)
    return None


def _names(e: ast.AST) -> Set[str]:
    return {n.id for n in ast.walk(e) if isinstance(n, ast.Name)}


class TruncAnalysis:
    def __init__(self, f: FuncInfo):
        self.f = f
        self.rd = ReachingDefs(f.node)
        self.pm = parent_map(f.node)
        self.sites: List[dict] = []
        self._run()

    def _extent_of(self, base: ast.Name) -> List[ast.AST]:
        """Extents E of the arange(s) that `base` is, or is a broadcast-derived mask of (time axis)."""
        out = []
        for d in self.rd.defs_of(base):
            e = _arange_extent(d)
            if e is not None:
                out.append(e)
                continue
            v = d.value
            if d.kind == "assign" and v is not None:
                # mask derived by comparing against an un-sliced arange and expanding to x's extent
                for n in ast.walk(v):
                    if isinstance(n, ast.Name) and isinstance(n.ctx, ast.Load) and n.id != base.id:
                        # un-sliced use of an arange name
                        par = self.pm.get(n)
                        if isinstance(par, ast.Subscript) and par.value is n:
                            continue
                        for d2 in self.rd.defs_of(n):
                            e2 = _arange_extent(d2)
                            if e2 is not None:
                                out.append(e2)
        return out

    def _covered_by_construction(self, k: ast.AST, extent: ast.AST) -> bool:
        kn = _names(k)
        for n in ast.walk(extent):
            if isinstance(n, ast.Call) and call_name(n) in ("max", "torch.max"):
                if kn and kn <= _names(n):
                    return True
        if u(k) == u(extent):
            return True
        # extent - k is a non-negative constant (e.g. arange(V + 1)[:V])
        from sa.norm import Normalizer, padd, const_of
        nz = Normalizer()
        c = const_of(padd(nz.poly(extent), nz.poly(k), -1))
        if c is not None and c >= 0:
            return True
        # k literally one of the max() arguments via derivation: k = int(X.max().item()), extent = max(T, k)
        return False

    def _guarded(self, k: ast.AST, node: ast.AST) -> bool:
        """k derives from P.max() and a preceding `if (P >= lens).any(): raise` exists in an enclosing block."""
        der = self.rd.derives(k)
        srcs = set()
        for c in der.calls():
            if isinstance(c.func, ast.Attribute) and c.func.attr == "max" and isinstance(c.func.value, ast.Name):
                srcs.add(c.func.value.id)
        if not srcs:
            return False
        # the slice is only reached when a test `(P >= L).any()` / `(P > L).any()` is false: as the complement of a guard clause
        # (`if ...: raise`) or in the else arm of that test
        from sa.astutil import guards_of, oriented
        for t, pol in guards_of(self.pm, node):
            while isinstance(t, ast.UnaryOp) and isinstance(t.op, ast.Not):
                t, pol = t.operand, not pol
            if pol or (isinstance(t, ast.BoolOp) and isinstance(t.op, ast.And)):
                continue  # (the negation of a conjunction bounds nothing)
            bounded = set()
            for c in ast.walk(t):
                if isinstance(c, ast.Call) and isinstance(c.func, ast.Attribute) and c.func.attr == "any":
                    for p in srcs:
                        o = oriented(c.func.value, lambda e, p=p: isinstance(e, ast.Name) and e.id == p)
                        if o and o[0] in ("ge", "gt"):
                            bounded.add(p)
            if srcs <= bounded:
                return True
        return False

    def _run(self):
        for n in own_nodes(self.f.node):
            if not isinstance(n, ast.Subscript) or not isinstance(n.value, ast.Name) or not isinstance(n.ctx, ast.Load):
                continue
            sl = n.slice
            items = list(sl.elts) if isinstance(sl, ast.Tuple) else [sl]
            last = items[-1]
            if not (isinstance(last, ast.Slice) and last.lower is None and last.upper is not None and last.step is None):
                continue
            if any(not (isinstance(i, ast.Slice) and i.lower is None and i.upper is None) for i in items[:-1]):
                continue
            k = last.upper
            if isinstance(k, ast.Constant) or (isinstance(k, ast.UnaryOp) and isinstance(k.operand, ast.Constant)):
                continue
            exts = self._extent_of(n.value)
            if not exts:
                continue
            ok = all(self._covered_by_construction(k, e) for e in exts) or self._guarded(k, n)
            gs = guards_of(self.pm, n)
            branch = None
            for t, pol in gs:
                if isinstance(t, ast.Compare) and isinstance(t.comparators[0], ast.Constant) and pol:
                    branch = f"{u(t.left)}=={t.comparators[0].value!r}"
            self.sites.append(dict(node=n, k=u(k), extents=[u(e) for e in exts], ok=ok, branch=branch))
