"""G22: constructor definite assignment - self.a read before it is set / before super().__init__."""
from __future__ import annotations

import ast
from typing import List, Optional, Set, Tuple

from sa.astutil import call_name, u
from sa.model import ClassInfo, FuncInfo, own_nodes
from sa.paths import PathEnumerator
from sa.resolve import Resolver


def class_level_names(res: Resolver, ci: ClassInfo) -> Set[str]:
    out = set()
    for c in res.mro(ci):
        out |= set(c.attrs)  # class attributes with a value (annotation-only names are not attributes)
        out |= set(c.methods)
    return out


def init_reads_before_set(res: Resolver, init: FuncInfo) -> List[Tuple[str, ast.AST, str]]:
    """(attr, node, path description) for reads of self.<attr> in __init__ that some path reaches
    before any assignment to it and before super().__init__()."""
    ci = init.cls
    known = class_level_names(res, ci)
    ext_bases = res.ext_bases(ci)

    def ev(n):
        if isinstance(n, ast.Call):
            f = n.func
            if isinstance(f, ast.Attribute) and f.attr == "__init__":
                v = f.value
                if isinstance(v, ast.Call) and call_name(v) == "super":
                    return "SUPER"
                if isinstance(v, (ast.Name, ast.Attribute)):
                    return "SUPER"
            if isinstance(f, ast.Attribute) and f.attr in ("register_buffer", "add_module", "register_parameter") \
                    and u(f.value) == "self" and n.args and isinstance(n.args[0], ast.Constant):
                return "SET:" + str(n.args[0].value)
        if isinstance(n, ast.Attribute) and isinstance(n.value, ast.Name) and n.value.id == "self":
            if isinstance(n.ctx, ast.Store):
                return "SET:" + n.attr
            if isinstance(n.ctx, ast.Load):
                return "READ:" + n.attr
        return None

    pe = PathEnumerator(ev, loop_iters=(0, 1), exc_edges=False, max_paths=50000)
    out = []
    seen = set()
    for p in pe.paths(init.node.body):
        have: Set[str] = set()
        sup = False
        for e in p.events:
            if e.label == "SUPER":
                sup = True
            elif e.label.startswith("SET:"):
                have.add(e.label[4:])
            elif e.label.startswith("READ:"):
                a = e.label[5:]
                if sup or a in have or a in known or a.startswith("__"):
                    continue
                if (a, id(e.node)) in seen:
                    continue
                seen.add((a, id(e.node)))
                out.append((a, e.node, p.describe()[:200]))
    return out
