"""Positive and negative controls for the generic rules whose expected count on the tree is zero (or tiny). A rule that matches
nothing passes vacuously for ever, so on every run each such rule is applied to a small violating snippet (must fire) and to its
repaired twin (must be silent). The snippets are source text kept here - nothing of the repository is involved."""
from __future__ import annotations

import ast
from typing import Callable, List, Tuple

from sa.model import AnalysisError, ClassInfo, FuncInfo, ModuleInfo


def _func(src: str, name: str) -> FuncInfo:
    tree = ast.parse(src)
    mi = ModuleInfo("control", "control.py", "<control>", src, tree)
    for st in tree.body:
        if isinstance(st, ast.FunctionDef) and st.name == name:
            return FuncInfo(mi, None, st.name, st)
        if isinstance(st, ast.ClassDef):
            ci = ClassInfo(mi, st.name, st)
            for c in st.body:
                if isinstance(c, ast.FunctionDef) and c.name == name:
                    return FuncInfo(mi, ci, c.name, c)
    raise AnalysisError(f"control snippet lacks {name}")


def _cases():
    from .cursor import cursor_skips
    from .deadformal import dead_formals
    from .flatindex import flat_index_sites
    from .iterstate import leaking_accumulators
    from .negdim import raw_negative_dim_uses
    from .vacuous import vacuous_rank_tests
    from .viewparam import merging_views_of_parameters
    fires = lambda rs: any((not r.get("ok", False)) if isinstance(r, dict) else True for r in rs)
    from .dropped import discarded_results, inplace_on_parameter_views, vacuous_any_of_self_comparison
    from .args import init_copies_of_other_formals
    return [
        ("G44 constructor keeps a sibling's formal under this name", lambda f: any(src and t.attr not in src for t, _, src in init_copies_of_other_formals(f)), "__init__",
         "class M:\n    def __init__(self, max_time_mask, max_freq_mask):\n        self.max_time_mask = max_time_mask\n        self.max_freq_mask = max_time_mask\n",
         "class M:\n    def __init__(self, max_time_mask, max_freq_mask, params):\n        self.max_time_mask = max_time_mask\n        self.max_freq_mask = argcheck.is_int(max_freq_mask)\n        self.params = params.sub\n"),
        ("G43 in-place operation on a view of a caller's tensor", lambda f: bool(inplace_on_parameter_views(f)), "f",
         "def f(x, slices):\n    start = slices[..., 0].contiguous()\n    s = start.clamp_min_(0)\n    return x[s]\n",
         "def f(x, slices):\n    start = slices[..., 0].contiguous()\n    s = start.clamp_min(0)\n    lo = (-start).clamp_min_(0)\n    return x[s], lo\n"),
        ("G43 augmented assignment on a view of a caller's tensor", lambda f: bool(inplace_on_parameter_views(f)), "f",
         "def f(refs: torch.Tensor, lobe: int):\n    starts = refs[..., 1]\n    starts -= lobe\n    return starts\n",
         "def f(refs: torch.Tensor, lobe: int):\n    starts = refs[..., 1]\n    starts = starts - lobe\n    lobe += 1\n    return starts\n"),
        ("G42 vacuous any() of a comparison with the first entry", lambda f: bool(vacuous_any_of_self_comparison(f)), "f",
         "def f(x):\n    return (x == x.flatten()[0]).any()\n",
         "def f(x):\n    return (x == x.flatten()[0]).all()\n"),
        ("G39 discarded out-of-place result", lambda f: bool(discarded_results(f)), "f",
         "def f(x):\n    x.log_softmax(-1)\n    return x\n",
         "def f(x):\n    x = x.log_softmax(-1)\n    return x\n"),
        ("G33 dead formal", lambda f: bool(dead_formals(f)), "f",
         "def f(x, pad_mode, value):\n    y = pad(x, (1, 1), pad_mode)\n    return y\n",
         "def f(x, pad_mode, value):\n    y = pad(x, (1, 1), pad_mode, value)\n    return y\n"),
        ("G37 iterator accumulator", lambda f: fires(leaking_accumulators(f)), "__iter__",
         "class S:\n    def __iter__(self):\n        b = self._b\n        for i in self.s:\n            b.setdefault(i % 2, []).append(i)\n            yield i\n",
         "class S:\n    def __iter__(self):\n        b = dict()\n        for i in self.s:\n            b.setdefault(i % 2, []).append(i)\n            yield i\n"),
        ("G35 delete at cursor", lambda f: fires(cursor_skips(f)), "f",
         "def f(a, b):\n    i = 0\n    while i < len(a):\n        if a[i] < b[i]:\n            del a[i]\n        i += 1\n    return a\n",
         "def f(a, b):\n    i = 0\n    while i < len(a):\n        if a[i] < b[i]:\n            del a[i]\n        else:\n            i += 1\n    return a\n"),
        ("G34 flat index stride", lambda f: fires(flat_index_sites(f)), "f",
         "def f(n, k, N, K):\n    t = torch.empty((K + 1, N + 1))\n    return t.flatten()[n + k * (K + 1)]\n",
         "def f(n, k, N, K):\n    t = torch.empty((K + 1, N + 1))\n    return t.flatten()[n + k * (N + 1)]\n"),
        ("G32 vacuous rank test", lambda f: bool(vacuous_rank_tests(f)), "f",
         "def f(x, dim):\n    if x.dim() == -1:\n        raise ValueError('dim')\n    return x\n",
         "def f(x, dim):\n    if dim == -1:\n        raise ValueError('dim')\n    return x\n"),
        ("G31 merging view of a parameter", lambda f: bool(merging_views_of_parameters(f)), "f",
         "def f(x):\n    y = x.transpose(0, 1)\n    return y.view(-1, y.size(2))\n",
         "def f(x):\n    y = x.transpose(0, 1)\n    return y.reshape(-1, y.size(2))\n"),
        ("G30 raw negative dim", lambda f: bool(raw_negative_dim_uses(f)), "f",
         "def f(x, dim):\n    r = x.dim()\n    if dim < -r or dim > r - 1:\n        raise RuntimeError('dim')\n    return x.size(1 - dim)\n",
         "def f(x, dim):\n    r = x.dim()\n    if dim < -r or dim > r - 1:\n        raise RuntimeError('dim')\n    dim = (dim + r) % r\n    return x.size(1 - dim)\n"),
    ]


def run_controls() -> List[str]:
    """Names of the controls exercised; raises AnalysisError if a rule is blind to its violating snippet or fires on the twin."""
    done = []
    for name, rule, fn, bad, good in _cases():
        if not rule(_func(bad, fn)):
            raise AnalysisError(f"rule control failed: {name} does not fire on its violating snippet")
        if rule(_func(good, fn)):
            raise AnalysisError(f"rule control failed: {name} fires on its repaired snippet")
        done.append(name)
    return done
