"""G19: known-rank contradictions. A forward, branch-merging dataflow of tensor ranks that
are *known from the code* (rank guards, constructors, a closed set of rank transformers).
An operation naming a dimension outside the known rank is reported; unknown ranks never fire."""
from __future__ import annotations

import ast
from typing import Dict, List, Optional, Tuple

from sa.astutil import call_name, kwarg, u
from sa.model import FuncInfo

Env = Optional[Dict[str, int]]

KEEP = {"gather", "masked_fill", "masked_fill_", "clamp", "clamp_", "clamp_min", "clamp_min_", "clamp_max",
        "clamp_max_", "to", "long", "float", "double", "int", "bool", "contiguous", "clone", "detach", "cumsum",
        "scatter", "scatter_", "expand_as", "type_as", "abs", "exp", "log", "neg", "sort_values", "flip", "roll",
        "eq", "ne", "lt", "le", "gt", "ge", "softmax", "log_softmax", "tril", "triu", "fill_", "copy_", "cuda", "cpu",
        "masked_scatter", "repeat_interleave_", "index_fill", "logical_not", "floor", "ceil", "round"}
REDUCE = {"sum", "max", "min", "any", "all", "mean", "prod", "argmax", "argmin", "logsumexp", "amax", "amin", "std", "var"}
CTORS = {"torch.zeros", "torch.ones", "torch.empty", "torch.full", "torch.rand", "torch.randn"}


def _const_int(e) -> Optional[int]:
    if isinstance(e, ast.Constant) and isinstance(e.value, int) and not isinstance(e.value, bool):
        return e.value
    if isinstance(e, ast.UnaryOp) and isinstance(e.op, ast.USub) and isinstance(e.operand, ast.Constant) \
            and isinstance(e.operand.value, int):
        return -e.operand.value
    return None


class RankAnalysis:
    def __init__(self, f: FuncInfo):
        self.f = f
        self.findings: List[Tuple[ast.AST, str]] = []
        self.known_sites = 0
        env: Dict[str, int] = {}
        self._block(f.node.body, env)

    # ---------------- expressions ---------------------------------------------------------
    def rank(self, e: ast.AST, env: Dict[str, int]) -> Optional[int]:
        if isinstance(e, ast.Name):
            return env.get(e.id)
        if isinstance(e, ast.Constant):
            return 0 if isinstance(e.value, (int, float, bool)) else None
        if isinstance(e, ast.UnaryOp):
            return self.rank(e.operand, env)
        if isinstance(e, ast.BinOp):
            a, b = self.rank(e.left, env), self.rank(e.right, env)
            if a is not None and b is not None:
                return max(a, b)
            return None
        if isinstance(e, ast.Compare):
            rs = [self.rank(x, env) for x in [e.left] + list(e.comparators)]
            if all(r is not None for r in rs):
                return max(rs)
            return None
        if isinstance(e, ast.Subscript) and isinstance(e.value, ast.Attribute) and e.value.attr == "shape":
            # X.shape[k]  (canonical spelling of X.size(k)): k must lie within the rank of X
            r = self.rank(e.value.value, env)
            d = _const_int(e.slice)
            if r is not None and d is not None:
                self.known_sites += 1
                self._check_dim(e, d, r, "size")
            return 0 if not isinstance(e.slice, ast.Slice) else None
        if isinstance(e, ast.Subscript):
            r = self.rank(e.value, env)
            if r is None:
                return None
            return self._subscript_rank(e, r, env)
        if isinstance(e, ast.Attribute):
            if e.attr in ("T", "mT"):
                return self.rank(e.value, env)
            return None
        if isinstance(e, ast.Call):
            return self._call_rank(e, env)
        if isinstance(e, ast.IfExp):
            a, b = self.rank(e.body, env), self.rank(e.orelse, env)
            return a if a == b else None
        return None

    def _subscript_rank(self, e: ast.Subscript, r: int, env, report: bool = True) -> Optional[int]:
        sl = e.slice
        items = list(sl.elts) if isinstance(sl, ast.Tuple) else [sl]
        explicit = [i for i in items if not (isinstance(i, ast.Constant) and i.value is Ellipsis)
                    and not (isinstance(i, ast.Constant) and i.value is None)]
        news = sum(1 for i in items if isinstance(i, ast.Constant) and i.value is None)
        drops = 0
        for i in explicit:
            if isinstance(i, ast.Slice):
                continue
            ir = self.rank(i, env)
            if _const_int(i) is not None or (isinstance(i, ast.Name) and ir == 0):
                drops += 1
            elif ir is None:
                return None  # advanced indexing with unknown rank
            elif ir == 0:
                drops += 1
            else:
                # tensor index: boolean mask or long index -> unknown in general
                return None
        self.known_sites += 1
        if len(explicit) > r and report:
            self.findings.append((e, f"`{u(e)}` indexes {len(explicit)} dimensions of a rank-{r} value"))
            return None
        return r - drops + news

    def _call_rank(self, c: ast.Call, env) -> Optional[int]:
        cn = call_name(c)
        if cn == "torch.arange":
            return 1
        if cn in CTORS or cn.split(".")[-1] in ("new_zeros", "new_ones", "new_empty", "new_full"):
            if c.args and isinstance(c.args[0], ast.Tuple):
                return len(c.args[0].elts)
            last = cn.split(".")[-1]
            if last in ("new_zeros", "new_ones", "new_empty") or cn in ("torch.zeros", "torch.ones", "torch.empty"):
                if c.args and all(not isinstance(a, (ast.Tuple, ast.Starred)) for a in c.args) and not any(
                        isinstance(a, ast.Name) and a.id in ("shape", "size") for a in c.args):
                    return len(c.args)
            return None
        if cn in ("torch.zeros_like", "torch.ones_like", "torch.full_like", "torch.empty_like") and c.args:
            return self.rank(c.args[0], env)
        if cn in ("torch.stack",) and c.args and isinstance(c.args[0], (ast.List, ast.Tuple)):
            rs = [self.rank(x, env) for x in c.args[0].elts]
            if rs and all(r is not None for r in rs) and len(set(rs)) == 1:
                d = _const_int(c.args[1]) if len(c.args) > 1 else (_const_int(kwarg(c, "dim")) if kwarg(c, "dim") is not None else 0)
                if d is not None:
                    self._check_dim(c, d, rs[0] + 1, "stack")
                return rs[0] + 1
            return None
        if cn in ("torch.cat",) and c.args and isinstance(c.args[0], (ast.List, ast.Tuple)):
            rs = [self.rank(x, env) for x in c.args[0].elts]
            known = [r for r in rs if r is not None]
            if known and len(set(known)) == 1:
                d = _const_int(c.args[1]) if len(c.args) > 1 else None
                if d is not None and len(known) == len(rs):
                    self._check_dim(c, d, known[0], "cat")
                return known[0] if len(known) == len(rs) else None
            return None
        if cn == "torch.where" and len(c.args) == 3:
            rs = [self.rank(a, env) for a in c.args]
            return max(rs) if all(r is not None for r in rs) else None
        if isinstance(c.func, ast.Attribute) and not cn.startswith("torch."):
            m = c.func.attr
            r = self.rank(c.func.value, env)
            if r is None:
                return None
            if m in ("view", "reshape", "expand"):
                if c.args and not any(isinstance(a, ast.Starred) for a in c.args) and not (
                        len(c.args) == 1 and not isinstance(c.args[0], (ast.Constant, ast.UnaryOp, ast.Name, ast.BinOp))):
                    if len(c.args) == 1 and isinstance(c.args[0], (ast.Tuple, ast.List)):
                        return len(c.args[0].elts)
                    if len(c.args) == 1 and isinstance(c.args[0], ast.Name):
                        return None
                    if m == "expand" and len(c.args) < r:
                        self.findings.append((c, f"`{u(c)[:80]}` expands a rank-{r} value to {len(c.args)} sizes"))
                    return len(c.args)
                return None
            if m == "flatten":
                if not c.args and not c.keywords:
                    return 1
                sd = _const_int(c.args[0]) if c.args else (_const_int(kwarg(c, "start_dim")) if kwarg(c, "start_dim") is not None else 0)
                ed = _const_int(c.args[1]) if len(c.args) > 1 else (_const_int(kwarg(c, "end_dim")) if kwarg(c, "end_dim") is not None else -1)
                if sd is None or ed is None:
                    return None
                self._check_dim(c, sd, r, "flatten")
                self._check_dim(c, ed, r, "flatten")
                sd2 = sd if sd >= 0 else r + sd
                ed2 = ed if ed >= 0 else r + ed
                return r - (ed2 - sd2) if ed2 >= sd2 else None
            if m == "t":
                if r > 2:
                    self.findings.append((c, f"`{u(c)[:60]}`: .t() on a rank-{r} value"))
                return r
            if m == "unsqueeze" and c.args:
                d = _const_int(c.args[0])
                if d is not None:
                    self.known_sites += 1
                    if d > r or d < -r - 1:
                        self.findings.append((c, f"`{u(c)[:80]}`: unsqueeze({d}) on a rank-{r} value"))
                return r + 1
            if m == "squeeze":
                if c.args:
                    d = _const_int(c.args[0])
                    if d is not None:
                        self._check_dim(c, d, r, "squeeze")
                    return r - 1
                return None
            if m in ("transpose", "swapaxes") and len(c.args) == 2:
                for a in c.args:
                    d = _const_int(a)
                    if d is not None:
                        self._check_dim(c, d, r, m)
                return r
            if m == "permute":
                n = len(c.args) if not (len(c.args) == 1 and isinstance(c.args[0], (ast.Tuple, ast.List))) else len(c.args[0].elts)
                if n != r:
                    self.findings.append((c, f"`{u(c)[:60]}` permutes {n} axes of a rank-{r} value"))
                return r
            if m in ("size", "shape") :
                if c.args:
                    d = _const_int(c.args[0])
                    if d is not None:
                        self._check_dim(c, d, r, "size")
                    return 0
                return None
            if m in ("gather", "index_select", "scatter", "scatter_", "cumsum", "softmax", "log_softmax", "narrow",
                     "select", "unbind", "chunk", "split") and c.args:
                d = _const_int(c.args[0]) if m not in ("chunk", "split") else (_const_int(c.args[1]) if len(c.args) > 1 else None)
                if d is not None:
                    self._check_dim(c, d, r, m)
                if m == "select":
                    return r - 1
                if m in ("unbind", "chunk", "split"):
                    return None
                return r
            if m in REDUCE:
                d = None
                if c.args:
                    d = _const_int(c.args[0])
                elif kwarg(c, "dim") is not None:
                    d = _const_int(kwarg(c, "dim"))
                else:
                    return 0
                if d is None:
                    return None
                self._check_dim(c, d, r, m)
                kd = kwarg(c, "keepdim")
                if kd is None and len(c.args) > 1:
                    kd = c.args[1]
                keep = isinstance(kd, ast.Constant) and kd.value is True
                if m in ("max", "min", "sort") :
                    # returns (values, indices): rank applies to each; callers subscript [0]/[1]
                    return None if True and m in ("max", "min") and False else (r if keep else r - 1)
                return r if keep else r - 1
            if m in ("nonzero",):
                return 2
            if m in ("repeat",):
                return max(r, len(c.args)) if c.args else None
            if m in KEEP:
                return r
            if m in ("item", "numel", "dim", "tolist"):
                return None
            return None
        return None

    def _check_dim(self, node, d: int, r: int, what: str):
        self.known_sites += 1
        if d >= r or d < -r:
            self.findings.append((node, f"`{u(node)[:90]}`: {what} names dimension {d} of a value whose rank is "
                                        f"known to be {r}"))

    # ---------------- statements --------------------------------------------------------------
    def _guard_facts(self, test: ast.expr) -> Tuple[Dict[str, int], Dict[str, int]]:
        """(facts if test true, facts if test false) about `x.ndim` / `x.dim()`."""
        t, f = {}, {}

        def ndim_of(e):
            if isinstance(e, ast.Attribute) and e.attr == "ndim" and isinstance(e.value, ast.Name):
                return e.value.id
            if isinstance(e, ast.Call) and isinstance(e.func, ast.Attribute) and e.func.attr in ("dim", "ndimension") \
                    and isinstance(e.func.value, ast.Name) and not e.args:
                return e.func.value.id
            return None

        if isinstance(test, ast.Compare) and len(test.ops) == 1:
            n = ndim_of(test.left)
            k = _const_int(test.comparators[0])
            if n is not None and k is not None:
                if isinstance(test.ops[0], ast.Eq):
                    t[n] = k
                elif isinstance(test.ops[0], ast.NotEq):
                    f[n] = k
        elif isinstance(test, ast.BoolOp) and isinstance(test.op, ast.Or):
            for v in test.values:
                _, ff = self._guard_facts(v)
                f.update(ff)
        elif isinstance(test, ast.BoolOp) and isinstance(test.op, ast.And):
            for v in test.values:
                tt, _ = self._guard_facts(v)
                t.update(tt)
        elif isinstance(test, ast.UnaryOp) and isinstance(test.op, ast.Not):
            a, b = self._guard_facts(test.operand)
            return b, a
        return t, f

    def _scan(self, e: Optional[ast.AST], env):
        """Evaluate every sub-expression once so that dimension checks inside it run."""
        if e is None:
            return
        seen_calls = set()
        # evaluate outermost expressions; rank() recurses into receivers/args it understands. To make sure nested
        # calls in arguments are visited as well, walk and evaluate each call/subscript whose parent did not.
        for n in ast.walk(e):
            if isinstance(n, (ast.Call, ast.Subscript)) and id(n) not in self._visited:
                self._mark(n)
                self.rank(n, env)

    _visited: set = set()

    def _mark(self, n):
        # mark the receiver chain as visited (rank() of the outer node evaluates it)
        self._visited.add(id(n))
        if isinstance(n, ast.Call) and isinstance(n.func, ast.Attribute):
            v = n.func.value
            if isinstance(v, (ast.Call, ast.Subscript)):
                self._mark(v)
        if isinstance(n, ast.Subscript) and isinstance(n.value, (ast.Call, ast.Subscript)):
            self._mark(n.value)

    def _assign(self, target, value, env):
        if isinstance(target, ast.Name):
            r = self.rank(value, env) if value is not None else None
            if r is None:
                env.pop(target.id, None)
            else:
                env[target.id] = r
        elif isinstance(target, (ast.Tuple, ast.List)):
            if isinstance(value, (ast.Tuple, ast.List)) and len(value.elts) == len(target.elts):
                rs = [self.rank(v, env) for v in value.elts]
                for t, r in zip(target.elts, rs):
                    if isinstance(t, ast.Name):
                        if r is None:
                            env.pop(t.id, None)
                        else:
                            env[t.id] = r
            else:
                # (values, indices) = x.max(d) / topk / sort
                r = None
                if isinstance(value, ast.Call) and isinstance(value.func, ast.Attribute) and value.func.attr in (
                        "max", "min", "topk", "sort") and value.args:
                    r = self.rank(value, env)
                    if value.func.attr in ("topk", "sort"):
                        r = self.rank(value.func.value, env)
                for t in target.elts:
                    if isinstance(t, ast.Name):
                        if r is None:
                            env.pop(t.id, None)
                        else:
                            env[t.id] = r

    def _block(self, body, env: Env) -> Env:
        for st in body:
            if env is None:
                return None
            env = self._stmt(st, env)
        return env

    def _merge(self, a: Env, b: Env) -> Env:
        if a is None:
            return b
        if b is None:
            return a
        return {k: v for k, v in a.items() if b.get(k) == v}

    def _stmt(self, st, env: Dict[str, int]) -> Env:
        if isinstance(st, ast.Assign):
            self._scan(st.value, env)
            for t in st.targets:
                if isinstance(t, (ast.Subscript, ast.Attribute)):
                    self._scan(t, env)
                self._assign(t, st.value, env)
            return env
        if isinstance(st, ast.AugAssign):
            self._scan(st.value, env)
            return env
        if isinstance(st, ast.AnnAssign):
            self._scan(st.value, env)
            if st.value is not None:
                self._assign(st.target, st.value, env)
            return env
        if isinstance(st, ast.Expr):
            self._scan(st.value, env)
            return env
        if isinstance(st, ast.Return):
            self._scan(st.value, env)
            return None
        if isinstance(st, ast.Raise):
            return None
        if isinstance(st, ast.If):
            self._scan(st.test, env)
            tf, ff = self._guard_facts(st.test)
            a = dict(env); a.update(tf)
            b = dict(env); b.update(ff)
            ra = self._block(st.body, a)
            rb = self._block(st.orelse, b)
            return self._merge(ra, rb)
        if isinstance(st, (ast.For, ast.While)):
            # ranks assigned in the loop are dropped unless unchanged
            before = dict(env)
            if isinstance(st, ast.For):
                self._scan(st.iter, env)
                for n in ast.walk(st.target):
                    if isinstance(n, ast.Name):
                        env.pop(n.id, None)
            assigned = set()
            for n in ast.walk(st):
                if isinstance(n, ast.Assign):
                    for t in n.targets:
                        for x in ast.walk(t):
                            if isinstance(x, ast.Name) and isinstance(x.ctx, ast.Store):
                                assigned.add(x.id)
            # loop-carried names: keep rank only if the body re-assigns them with the same rank (checked by merge)
            inner = {k: v for k, v in env.items()}
            out = self._block(st.body, dict(inner))
            merged = self._merge(inner, out) if out is not None else inner
            # second pass with merged env to validate loop-carried uses
            self._visited_backup = set(self._visited)
            return self._block(st.orelse, merged) if st.orelse else merged
        if isinstance(st, ast.With):
            for it in st.items:
                self._scan(it.context_expr, env)
            return self._block(st.body, env)
        if isinstance(st, ast.Try):
            a = self._block(st.body, dict(env))
            outs = [a]
            for h in st.handlers:
                outs.append(self._block(h.body, {}))
            res: Env = None
            for o in outs:
                res = self._merge(res, o) if res is not None or o is not None else None
            return res if res is not None else {}
        if isinstance(st, ast.Assert):
            self._scan(st.test, env)
            tf, _ = self._guard_facts(st.test)
            env.update(tf)
            return env
        return env


def analyse(f: FuncInfo) -> RankAnalysis:
    RankAnalysis._visited = set()
    return RankAnalysis(f)
