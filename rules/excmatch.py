"""G25: handler / raiser mismatch. A `try` body whose first failing operation is a call to one of the package's
validation helpers (argcheck.*) raises that helper's exception type; a handler that only catches a different type
makes the fallback branch unreachable (the documented alternative input form then always raises)."""
from __future__ import annotations

import ast
from typing import Dict, List, Optional, Set, Tuple

from sa.astutil import call_name, u
from sa.model import FuncInfo, Package, own_nodes


class ArgcheckRaises:
    """Exception class names each public argcheck helper may raise itself (transitively through argcheck-local
    functions and factories), read from argcheck.py's syntax tree."""

    def __init__(self, pkg: Package):
        self.tree = pkg.module("argcheck").tree
        self.defs: Dict[str, List[ast.FunctionDef]] = {}
        self.assigns: Dict[str, ast.AST] = {}
        for st in self.tree.body:
            if isinstance(st, ast.FunctionDef):
                self.defs.setdefault(st.name, []).append(st)
            elif isinstance(st, ast.Assign):
                for t in st.targets:
                    for n in ast.walk(t):
                        if isinstance(n, ast.Name):
                            self.assigns[n.id] = st.value
        self._memo: Dict[str, Set[str]] = {}

    def _of_node(self, node: ast.AST, seen: Set[str]) -> Set[str]:
        out: Set[str] = set()
        for n in ast.walk(node):
            if isinstance(n, ast.Raise) and n.exc is not None:
                e = n.exc.func if isinstance(n.exc, ast.Call) else n.exc
                out.add(u(e).split(".")[-1])
            elif isinstance(n, ast.Name) and isinstance(n.ctx, ast.Load) and (n.id in self.defs or n.id in self.assigns):
                out |= self.of(n.id, seen)
        return out

    def of(self, name: str, seen: Optional[Set[str]] = None) -> Set[str]:
        if name in self._memo:
            return self._memo[name]
        seen = set(seen or ())
        if name in seen:
            return set()
        seen.add(name)
        out: Set[str] = set()
        for d in self.defs.get(name, ()):
            for st in d.body:
                out |= self._of_node(st, seen)
        if name not in self.defs and name in self.assigns:
            out |= self._of_node(self.assigns[name], seen)
        if len(seen) == 1:
            self._memo[name] = out
        return out


def mismatched_handlers(pkg: Package, f: FuncInfo, acr: Optional[ArgcheckRaises] = None):
    """[(try node, first helper call text, helper raises, caught)] for each try whose first argcheck call raises a
    type none of the (non-reraising) handlers catch."""
    acr = acr or ArgcheckRaises(pkg)
    out, seen_sites = [], 0
    for n in own_nodes(f.node):
        if not isinstance(n, ast.Try) or not n.handlers:
            continue
        calls = [c for st in n.body for c in ast.walk(st)
                 if isinstance(c, ast.Call) and call_name(c).startswith("argcheck.")]
        if not calls:
            continue
        seen_sites += 1
        calls.sort(key=lambda c: (c.lineno, c.col_offset))
        first = calls[0]
        raises = acr.of(call_name(first).split(".", 1)[1])
        caught: List[str] = []
        catch_all = False
        for h in n.handlers:
            if h.type is None:
                catch_all = True
            else:
                ts = h.type.elts if isinstance(h.type, ast.Tuple) else [h.type]
                caught += [u(t).split(".")[-1] for t in ts]
        if catch_all or {"Exception", "BaseException"} & set(caught) or not raises:
            continue
        if all(len(h.body) == 1 and isinstance(h.body[0], ast.Raise) for h in n.handlers):
            continue
        if not (raises & set(caught)):
            out.append((n, u(first)[:70], sorted(raises), caught))
    return out, seen_sites
