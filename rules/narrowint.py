"""G21: unsigned NumPy scalars reaching a subtraction / negation / sign test unwidened."""
from __future__ import annotations

import ast
from typing import Dict, List, Optional, Set, Tuple

from sa.astutil import call_name, u
from sa.defuse import Def, ReachingDefs
from sa.model import FuncInfo, own_nodes

NP_UNSIGNED = {"uint8", "uint16", "uint32", "uint64", "ubyte", "ushort", "uintc", "uint"}


def _is_np_unsigned_ctor(e: ast.AST) -> bool:
    return isinstance(e, ast.Attribute) and isinstance(e.value, ast.Name) and e.value.id in ("np", "numpy") \
        and e.attr in NP_UNSIGNED


class NarrowInt:
    def __init__(self, f: FuncInfo):
        self.f = f
        self.rd = ReachingDefs(f.node)
        self._memo: Dict[int, bool] = {}
        # names that may be bound to an unsigned numpy scalar *type* (constructor variables)
        self.ctor_vars: Set[str] = set()
        # module-level tables of scalar types (`_NP_TYPES = {torch.uint8: np.uint8, ...}`): a name bound to an entry may be the unsigned one
        tables = set()
        for st in getattr(getattr(f, "module", None), "tree", ast.Module(body=[], type_ignores=[])).body:
            if isinstance(st, ast.Assign) and isinstance(st.value, ast.Dict) and any(_is_np_unsigned_ctor(v) for v in st.value.values):
                tables |= {t.id for t in st.targets if isinstance(t, ast.Name)}
        for n in own_nodes(f.node):
            if isinstance(n, ast.Assign) and isinstance(n.value, ast.Subscript) and isinstance(n.value.value, ast.Name) and n.value.value.id in tables:
                self.ctor_vars |= {t.id for t in n.targets if isinstance(t, ast.Name)}
            if isinstance(n, (ast.For, ast.AsyncFor)) and isinstance(n.iter, (ast.Tuple, ast.List)):
                tg = n.target
                for row in n.iter.elts:
                    if isinstance(tg, ast.Tuple) and isinstance(row, (ast.Tuple, ast.List)) and len(row.elts) == len(tg.elts):
                        for t, v in zip(tg.elts, row.elts):
                            if isinstance(t, ast.Name) and _is_np_unsigned_ctor(v):
                                self.ctor_vars.add(t.id)
                    elif isinstance(tg, ast.Name) and _is_np_unsigned_ctor(row):
                        self.ctor_vars.add(tg.id)
            if isinstance(n, ast.Assign) and _is_np_unsigned_ctor(n.value):
                for t in n.targets:
                    if isinstance(t, ast.Name):
                        self.ctor_vars.add(t.id)

    def tainted(self, e: ast.AST, depth: int = 0) -> bool:
        """May the value of e be (or contain, for containers) an unsigned numpy scalar?"""
        if e is None or depth > 40:
            return False
        if isinstance(e, ast.Call):
            cn = call_name(e)
            if cn in ("int", "float", "len", "range", "str", "bool"):
                return False
            if _is_np_unsigned_ctor(e.func):
                return True
            if isinstance(e.func, ast.Name) and e.func.id in self.ctor_vars:
                return True
            if cn in ("dict", "list", "tuple", "set", "sorted"):
                return any(self.tainted(a, depth + 1) for a in e.args)
            if isinstance(e.func, ast.Attribute) and e.func.attr in ("get", "pop", "copy", "item", "values"):
                if e.func.attr == "item":
                    return False
                return self.tainted(e.func.value, depth + 1)
            return False
        if isinstance(e, ast.Name):
            if not isinstance(e.ctx, ast.Load):
                return False
            return any(self.def_tainted(d, depth + 1) for d in self.rd.defs_of(e))
        if isinstance(e, ast.Subscript):
            return self.tainted(e.value, depth + 1)
        if isinstance(e, ast.BinOp):
            # NEP 50: numpy scalar (op) python int keeps the numpy type
            return self.tainted(e.left, depth + 1) or self.tainted(e.right, depth + 1)
        if isinstance(e, (ast.Tuple, ast.List, ast.Set)):
            return any(self.tainted(x, depth + 1) for x in e.elts)
        if isinstance(e, (ast.GeneratorExp, ast.ListComp, ast.SetComp)):
            return self.tainted(e.elt, depth + 1)
        if isinstance(e, ast.DictComp):
            return self.tainted(e.value, depth + 1)
        if isinstance(e, ast.IfExp):
            return self.tainted(e.body, depth + 1) or self.tainted(e.orelse, depth + 1)
        return False

    def def_tainted(self, d: Def, depth: int = 0) -> bool:
        k = id(d)
        if k in self._memo:
            return self._memo[k]
        self._memo[k] = False
        r = False
        if d.kind in ("assign", "unpack", "for", "comp", "with"):
            r = self.tainted(d.value, depth + 1) if d.value is not None else False
        elif d.kind == "item":
            r = self.tainted(d.value, depth + 1) if isinstance(d.value, ast.AST) else False
        elif d.kind == "aug":
            r = any(self.def_tainted(p, depth + 1) for p in getattr(d, "prev", ())) or self.tainted(d.value.value, depth + 1)
        self._memo[k] = r
        return r

    def findings(self) -> List[Tuple[ast.AST, str, str]]:
        """(node, kind, name): kind in 'decrement' | 'subtract' | 'negate' | 'sign-test'."""
        out = []
        for n in own_nodes(self.f.node):
            if isinstance(n, ast.AugAssign) and isinstance(n.op, ast.Sub) and isinstance(n.target, ast.Name):
                tl = ast.Name(id=n.target.id, ctx=ast.Load())
                self.rd.use_defs[id(tl)] = self.rd.use_defs.get(id(n.target), frozenset())
                if self.tainted(tl):
                    out.append((n, "decrement", n.target.id))
            if isinstance(n, ast.BinOp) and isinstance(n.op, ast.Sub) and isinstance(n.left, ast.Name) \
                    and self.tainted(n.left):
                out.append((n, "subtract", n.left.id))
            if isinstance(n, ast.UnaryOp) and isinstance(n.op, ast.USub) and self.tainted(n.operand):
                out.append((n, "negate", u(n.operand)))
            if isinstance(n, ast.Compare) and len(n.ops) == 1 and isinstance(n.left, ast.Name) \
                    and isinstance(n.comparators[0], ast.Constant) and n.comparators[0].value == 0 \
                    and isinstance(n.ops[0], (ast.GtE, ast.Lt)) and self.tainted(n.left):
                out.append((n, "sign-test", n.left.id))
        return out
