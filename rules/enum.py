"""G8: Literal alias <-> validation <-> dispatch <-> argparse choices agreement."""
from __future__ import annotations

import ast
from typing import Dict, List, Optional, Set, Tuple

from sa.astutil import call_name, u
from sa.model import AnalysisError, FuncInfo, ModuleInfo, Package, own_calls, own_nodes
from sa.resolve import Resolver
from sa.report import Collector


def literal_members(pkg: Package, res: Resolver, mi: ModuleInfo, e: ast.expr, _d=0) -> Optional[List]:
    """Members of a Literal[...] expression or alias name."""
    if _d > 6 or e is None:
        return None
    if isinstance(e, ast.Subscript) and u(e.value).split(".")[-1] == "Literal":
        sl = e.slice
        elts = sl.elts if isinstance(sl, ast.Tuple) else [sl]
        out = []
        for x in elts:
            if isinstance(x, ast.Constant):
                out.append(x.value)
            else:
                return None
        return out
    if isinstance(e, ast.Subscript) and u(e.value).split(".")[-1] == "Optional":
        return literal_members(pkg, res, mi, e.slice, _d + 1)
    if isinstance(e, (ast.Name, ast.Attribute)):
        r = res.resolve_expr(mi, e)
        if isinstance(r, tuple) and r[0] == "const":
            # find the module that owns the alias for nested alias resolution
            return literal_members(pkg, res, _owner(pkg, r[1]) or mi, r[1], _d + 1)
    return None


def _owner(pkg: Package, node: ast.AST) -> Optional[ModuleInfo]:
    for mi in pkg.modules.values():
        for vals in mi.assigns.values():
            if any(v is node for v in vals):
                return mi
    return None


def compared_constants(f: FuncInfo, param: str) -> Tuple[Set, List[ast.AST]]:
    """Constants the value `param` is compared with (==, !=, in, not in) inside f."""
    out = set()
    sites = []
    for n in own_nodes(f.node):
        if isinstance(n, ast.Compare) and len(n.ops) == 1:
            l, r = n.left, n.comparators[0]
            op = n.ops[0]
            if isinstance(op, (ast.Eq, ast.NotEq)):
                for a, b in ((l, r), (r, l)):
                    if isinstance(a, ast.Name) and a.id == param and isinstance(b, ast.Constant):
                        out.add(b.value)
                        sites.append(n)
            elif isinstance(op, (ast.In, ast.NotIn)):
                if isinstance(l, ast.Name) and l.id == param and isinstance(r, (ast.Tuple, ast.List, ast.Set)):
                    for x in r.elts:
                        if isinstance(x, ast.Constant):
                            out.add(x.value)
                    sites.append(n)
    return out, sites


def validated_alias(pkg, res, f: FuncInfo, param: str):
    """Members of the alias used in `argcheck.is_in(param, get_args(Alias) / Alias.__args__ / literal)`; the collection may be
    passed positionally or as `collection=` and may be a named temporary."""
    from sa.inline import Inliner
    inl = None
    for c in own_calls(f.node):
        if call_name(c) == "argcheck.is_in" and (c.args or c.keywords):
            val = c.args[0] if c.args else next((k.value for k in c.keywords if k.arg == "val"), None)
            if not (isinstance(val, ast.Name) and val.id == param):
                continue
            coll = c.args[1] if len(c.args) > 1 else next((k.value for k in c.keywords if k.arg == "collection"), None)
            if coll is None:
                continue
            if isinstance(coll, ast.Name):
                inl = inl or Inliner(f.node)
                coll = inl.expand(coll)
            if isinstance(coll, ast.Call) and call_name(coll) in ("get_args", "typing.get_args") and coll.args:
                m = literal_members(pkg, res, f.module, coll.args[0])
                if m is not None:
                    return m, c
            if isinstance(coll, (ast.Tuple, ast.List, ast.Set)) and all(isinstance(x, ast.Constant) for x in coll.elts):
                return [x.value for x in coll.elts], c
            if isinstance(coll, ast.Attribute) and coll.attr == "__args__":
                m = literal_members(pkg, res, f.module, coll.value)
                if m is not None:
                    return m, c
    return None, None


def g8_dispatch(pkg: Package, res: Resolver, col: Collector, f: FuncInfo, param: str, clause: str,
                members: Optional[List] = None, allow_else: int = 1, extra_handled: Set = frozenset()):
    """The if/elif dispatch on `param` in f handles exactly the members of its Literal."""
    where = f"{f.module.relname}::{f.qualname}"
    if members is None:
        p = f.param(param)
        if p is not None and p.annotation is not None:
            members = literal_members(pkg, res, f.module, p.annotation)
        if members is None:
            members, _ = validated_alias(pkg, res, f, param)
    if members is None:
        raise AnalysisError(f"G8: cannot determine the Literal members of `{param}` in {f.key}")
    cmpd, sites = compared_constants(f, param)
    cmpd |= set(extra_handled)
    if not sites and not extra_handled:
        raise AnalysisError(f"G8: {f.key} has no dispatch on `{param}`")
    unknown = cmpd - set(members)
    col.ob("G8", clause, f"{where}::dispatch({param})::unknown-constants", not unknown,
           f"`{param}` is compared with {sorted(map(str, unknown))} which its Literal {members} does not list",
           f.module.relname, sites[0].lineno if sites else f.line,
           sample=dict(param=param, members=members, compared=sorted(map(str, cmpd))))
    missing = set(members) - cmpd
    ok = len(missing) <= allow_else
    col.ob("G8", clause, f"{where}::dispatch({param})::coverage", ok,
           f"members {sorted(map(str, missing))} of `{param}`'s Literal are never tested in {f.qualname} "
           f"(at most {allow_else} may fall to the final else)",
           f.module.relname, sites[0].lineno if sites else f.line,
           sample=dict(param=param, members=members, compared=sorted(map(str, cmpd))))
    return members, cmpd


def g8_validation(pkg, res, col, f: FuncInfo, param: str, clause: str, expect: List):
    members, call = validated_alias(pkg, res, f, param)
    where = f"{f.module.relname}::{f.qualname}"
    col.ob("G8", clause, f"{where}::validates({param})", members is not None and set(members) == set(expect),
           f"`{param}` is validated against {members}, its declared Literal is {expect}",
           f.module.relname, call.lineno if call is not None else f.line,
           sample=dict(param=param, validated=members, declared=expect))
