"""G37: an iterator's accumulator does not outlive the iteration. `__iter__` of a sampler / loader is re-entered once per epoch;
a container it fills while iterating (directly as `self.x`, or through a local alias `x = self.x`) and does not re-create at its
start carries the unfinished remainder of one epoch into the next (and into `len()`)."""
from __future__ import annotations

import ast
from typing import List

from sa.astutil import u
from sa.defuse import ReachingDefs
from sa.model import FuncInfo, own_nodes

MUTATORS = {"append", "extend", "setdefault", "pop", "popitem", "update", "add", "insert", "remove", "discard", "appendleft"}


def leaking_accumulators(f: FuncInfo) -> List[dict]:
    if f.name != "__iter__" or f.cls is None:
        return []
    rd = ReachingDefs(f.node)
    out = {}

    def attr_of(e):
        """self.<attr> an expression denotes (directly or through a local alias), else None."""
        if isinstance(e, ast.Attribute) and u(e.value) == "self":
            return e.attr
        if isinstance(e, ast.Name):
            ds = list(rd.defs_of(e))
            if ds and all(d.kind == "assign" and isinstance(d.value, ast.Attribute) and u(d.value.value) == "self" for d in ds):
                at = {d.value.attr for d in ds}
                return at.pop() if len(at) == 1 else None
        return None
    for n in own_nodes(f.node):
        tgt = None
        if isinstance(n, ast.Call) and isinstance(n.func, ast.Attribute) and n.func.attr in MUTATORS:
            tgt = n.func.value
        elif isinstance(n, (ast.Assign, ast.AugAssign)):
            for t in (n.targets if isinstance(n, ast.Assign) else [n.target]):
                if isinstance(t, ast.Subscript):
                    tgt = t.value
        elif isinstance(n, ast.Delete):
            for t in n.targets:
                if isinstance(t, ast.Subscript):
                    tgt = t.value
        if tgt is None:
            continue
        at = attr_of(tgt)
        if at is not None:
            out.setdefault(at, n)
    res = []
    for at, node in out.items():
        # re-created at the start: a top-level `self.at = <display / constructor call>` before the first mutation
        fresh = any(isinstance(st, ast.Assign) and any(isinstance(t, ast.Attribute) and u(t.value) == "self" and t.attr == at for t in st.targets)
                    and st.lineno < node.lineno for st in f.node.body)
        res.append(dict(attr=at, node=node, ok=fresh))
    return res
