"""G11 effects: global RNG sources, final fields, self reads/writes, unordered sources."""
from __future__ import annotations

import ast
from typing import Dict, Iterable, List, Optional, Set, Tuple

from sa.astutil import attr_chain, call_name, kwarg, u
from sa.model import ClassInfo, FuncInfo, Package, own_calls, own_nodes
from sa.resolve import Resolver

TORCH_RNG = {"rand", "randn", "randint", "randperm", "multinomial", "bernoulli", "normal", "rand_like",
             "randn_like", "randint_like", "poisson"}
TENSOR_RNG_METHODS = {"random_", "uniform_", "normal_", "bernoulli_", "exponential_", "geometric_",
                      "cauchy_", "log_normal_", "multinomial", "bernoulli"}
NP_LOCAL_CTORS = {"RandomState", "default_rng", "Generator", "SeedSequence", "PCG64", "MT19937"}


def global_rng_calls(f: FuncInfo) -> List[Tuple[ast.Call, str]]:
    """Calls in f that draw from a process-global random source."""
    out = []
    for c in own_calls(f.node):
        cn = call_name(c)
        parts = cn.split(".")
        if parts[0] == "torch" and parts[-1] in TORCH_RNG and kwarg(c, "generator") is None:
            out.append((c, cn))
        elif len(parts) >= 3 and parts[0] in ("np", "numpy") and parts[1] == "random" and parts[2] not in NP_LOCAL_CTORS:
            out.append((c, cn))
        elif len(parts) == 2 and parts[0] == "random":
            out.append((c, cn))
        elif isinstance(c.func, ast.Attribute) and c.func.attr in TENSOR_RNG_METHODS and kwarg(c, "generator") is None \
                and parts[0] not in ("torch", "np", "numpy", "rs", "rng") and not _is_local_generator(c.func.value):
            out.append((c, cn))
        elif cn in ("torch.manual_seed", "np.random.seed", "numpy.random.seed", "random.seed"):
            out.append((c, cn))
    return out


def _is_local_generator(e: ast.AST) -> bool:
    return False


def local_generators(f: FuncInfo) -> List[Tuple[ast.Call, ast.expr]]:
    """(constructor call, seed expression) of local generator objects."""
    out = []
    for c in own_calls(f.node):
        cn = call_name(c)
        last = cn.split(".")[-1]
        if last in ("RandomState", "default_rng") and cn.split(".")[0] in ("np", "numpy"):
            seed = c.args[0] if c.args else kwarg(c, "seed")
            out.append((c, seed))
        elif cn == "torch.Generator":
            out.append((c, None))
    return out


def self_attr_writes(f: FuncInfo) -> List[Tuple[str, ast.AST]]:
    out = []
    for n in own_nodes(f.node):
        if isinstance(n, ast.Attribute) and isinstance(n.ctx, (ast.Store, ast.Del)) and isinstance(n.value, ast.Name) \
                and n.value.id == "self":
            out.append((n.attr, n))
        # self.x[...] = v / self.x.append(v)
        if isinstance(n, ast.Subscript) and isinstance(n.ctx, (ast.Store, ast.Del)):
            ch = attr_chain(n.value)
            if ch and ch.startswith("self."):
                out.append((ch.split(".")[1], n))
    return out


def self_attr_reads(f: FuncInfo) -> List[Tuple[str, ast.AST]]:
    out = []
    for n in own_nodes(f.node):
        if isinstance(n, ast.Attribute) and isinstance(n.ctx, ast.Load) and isinstance(n.value, ast.Name) \
                and n.value.id == "self":
            out.append((n.attr, n))
    return out


def final_fields(pkg: Package, res: Resolver, ci: ClassInfo) -> Tuple[Set[str], Dict[str, str]]:
    """Attributes of ci's hierarchy assigned only in __init__ methods of the hierarchy (and
    never through another object anywhere in the package). Returns (finals, why_not)."""
    hier = set(res.mro(ci)) | set(res.subclasses(ci))
    assigned_init: Set[str] = set()
    nonfinal: Dict[str, str] = {}
    for c in hier:
        for name, fl in c.methods.items():
            for f in fl:
                for attr, node in self_attr_writes(f):
                    if name == "__init__":
                        assigned_init.add(attr)
                    else:
                        nonfinal.setdefault(attr, f"assigned in {c.name}.{name} (line {node.lineno})")
    # writes through other objects anywhere in the package: x.attr = v with x != self
    for f in pkg.all_functions():
        for n in own_nodes(f.node):
            if isinstance(n, ast.Attribute) and isinstance(n.ctx, ast.Store):
                if not (isinstance(n.value, ast.Name) and n.value.id == "self"):
                    if n.attr in assigned_init:
                        nonfinal.setdefault(n.attr, f"assigned through another object in {f.key} (line {n.lineno})")
    # module-level code too
    for mi in pkg.modules.values():
        for n in ast.walk(mi.tree):
            if isinstance(n, ast.AugAssign) and isinstance(n.target, ast.Attribute):
                pass
    finals = {a for a in assigned_init if a not in nonfinal}
    return finals, nonfinal


def reachable_self_methods(res: Resolver, f: FuncInfo, depth: int = 4) -> List[FuncInfo]:
    """f plus the methods of the same object it (transitively) calls via self.m(...), for
    every override in the hierarchy (dynamic dispatch)."""
    out: List[FuncInfo] = []
    seen = set()

    def go(g: FuncInfo, d: int):
        if g in seen or d < 0:
            return
        seen.add(g)
        out.append(g)
        if g.cls is None:
            return
        for c in own_calls(g.node):
            fn = c.func
            if isinstance(fn, ast.Attribute) and isinstance(fn.value, ast.Name) and fn.value.id == "self":
                targets = []
                for k in [g.cls] + res.subclasses(g.cls) + res.mro(g.cls):
                    for m in k.methods.get(fn.attr, []):
                        if not m.is_overload:
                            targets.append(m)
                for m in targets:
                    go(m, d - 1)

    go(f, depth)
    return out
