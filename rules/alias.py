"""G29: a cache that stores an alias. `self.<cache> = X` where X is a caller's tensor (a parameter) or a tensor the
method also returns keeps a reference, not a snapshot: when the caller edits its tensor in place, the later validity
test `self.<cache> == value` compares the object with itself and the stale cached result is served."""
from __future__ import annotations

import ast
from typing import List

from sa.astutil import u
from sa.defuse import ReachingDefs
from sa.model import FuncInfo, own_nodes

COPIES = {"clone", "copy", "deepcopy", "detach_clone"}


def aliasing_cache_stores(f: FuncInfo) -> List[dict]:
    """Stores `self.<name containing 'cache'> = <bare name>` whose value is a parameter or is returned by the method."""
    out = []
    rd = None
    returned = set()
    for n in own_nodes(f.node):
        if isinstance(n, ast.Return) and n.value is not None:
            for x in ast.walk(n.value):
                if isinstance(x, ast.Name):
                    returned.add(x.id)
    for n in own_nodes(f.node):
        if not isinstance(n, ast.Assign):
            continue
        for t in n.targets:
            if not (isinstance(t, ast.Attribute) and u(t.value) == "self" and "cache" in t.attr):
                continue
            v = n.value
            if isinstance(v, ast.Constant):
                continue
            copied = isinstance(v, ast.Call) and isinstance(v.func, ast.Attribute) and v.func.attr in COPIES
            if copied:
                out.append(dict(node=n, attr=t.attr, ok=True, why="snapshot"))
                continue
            if isinstance(v, ast.Name):
                rd = rd or ReachingDefs(f.node)
                is_param = any(d.kind == "param" for d in rd.defs_of(v))
                escapes = v.id in returned
                if is_param or escapes:
                    out.append(dict(node=n, attr=t.attr, ok=False,
                                    why="the caller's own tensor" if is_param else "the tensor the method returns"))
                else:
                    out.append(dict(node=n, attr=t.attr, ok=True, why="method-local value"))
    return out
