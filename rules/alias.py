"""G29: a cache that stores an alias. `self.<cache> = X` where X is a caller's tensor (a parameter) or a tensor the
method also returns keeps a reference, not a snapshot: when the caller edits its tensor in place, the later validity
test `self.<cache> == value` compares the object with itself and the stale cached result is served."""
from __future__ import annotations

import ast
from typing import List

from sa.astutil import u
from sa.defuse import ReachingDefs
from sa.model import FuncInfo, own_nodes

COPIES = {"clone", "copy", "deepcopy", "detach_clone"}


def aliasing_cache_stores(f: FuncInfo) -> List[dict]:
    """Stores `self.<name containing 'cache'> = <bare name>` whose value is a parameter or is returned by the method."""
    out = []
    rd = None
    returned = set()
    for n in own_nodes(f.node):
        if isinstance(n, ast.Return) and n.value is not None:
            for x in ast.walk(n.value):
                if isinstance(x, ast.Name):
                    returned.add(x.id)
    for n in own_nodes(f.node):
        if not isinstance(n, ast.Assign):
            continue
        for t in n.targets:
            if not (isinstance(t, ast.Attribute) and u(t.value) == "self" and "cache" in t.attr):
                continue
            v = n.value
            if isinstance(v, ast.Constant):
                continue
            copied = isinstance(v, ast.Call) and isinstance(v.func, ast.Attribute) and v.func.attr in COPIES
            if copied:
                out.append(dict(node=n, attr=t.attr, ok=True, why="snapshot"))
                continue
            if isinstance(v, ast.Name):
                rd = rd or ReachingDefs(f.node)

                def from_param(nm, depth=0):
                    # a parameter, possibly through plain `a = b` copies of the reference or broadcasting views
                    if depth > 5:
                        return False
                    for d in rd.defs_of(nm):
                        if d.kind == "param":
                            return True
                        val = d.value
                        while isinstance(val, ast.Call) and isinstance(val.func, ast.Attribute) and val.func.attr in ("expand", "view", "detach", "t"):
                            val = val.func.value
                        if d.kind == "assign" and isinstance(val, ast.Name) and from_param(val, depth + 1):
                            return True
                    return False
                is_param = from_param(v)
                escapes = v.id in returned
                if is_param or escapes:
                    out.append(dict(node=n, attr=t.attr, ok=False,
                                    why="the caller's own tensor" if is_param else "the tensor the method returns"))
                else:
                    out.append(dict(node=n, attr=t.attr, ok=True, why="method-local value"))
    return out
