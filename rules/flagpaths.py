"""G36: a boolean option is honoured on every path to a given return. For a boolean formal whose every use is the test of an
`if`, each `return` statement (or the fall-off end) is reached either only by paths that test the option or only by paths that
do not (early exits taken before the option matters). A return reached both ways means the option's effect was nested inside
one arm of an unrelated conditional: on the other arm the caller's choice is silently ignored."""
from __future__ import annotations

import ast
from typing import List

from sa.astutil import u
from sa.model import AnalysisError, FuncInfo, own_nodes
from sa.paths import PathEnumerator


# Instances confirmed by reading on the reference tree: in each of these functions the option is a pure mode switch that every
# normally-returning path consults. Only these are armed; an option that is legitimately relevant to one mode only (seven such
# on the reference tree, e.g. `include_eos` when no eos is given, `valid_only` for one policy) is never reported.
CONFIRMED = {
    ("_combinatorics.py", "SimpleRandomSamplingWithoutReplacement.enumerate_support", "expand"),
    ("_dataloaders.py", "lang_seq_to_batch", "sort"),
    ("_dataloaders.py", "lang_seq_to_batch", "has_uttids"),
    ("_dataloaders.py", "spect_seq_to_batch", "sort"),
    ("_dataloaders.py", "spect_seq_to_batch", "has_alis"),
    ("_dataloaders.py", "spect_seq_to_batch", "has_uttids"),
    ("_dataloaders.py", "context_window_seq_to_batch", "has_uttids"),
    ("_dataloaders.py", "LangDataLoader.__init__", "shuffle"),
    ("_dataloaders.py", "SpectDataLoader.__init__", "shuffle"),
    ("_dataloaders.py", "ContextWindowDataLoader.__init__", "shuffle"),
    ("_datasets.py", "_load_ref", "tokens_only"),
    ("_datasets.py", "extract_window", "reverse"),
    ("_decoding.py", "ctc_greedy_search", "batch_first"),
    ("_decoding.py", "ctc_greedy_search", "is_probs"),
    ("_feats.py", "feat_deltas", "concatenate"),
    ("_feats.py", "chunk_token_sequences_by_slices", "partial"),
    ("_feats.py", "chunk_token_sequences_by_slices", "retain"),
    ("_feats.py", "MeanVarianceNormalization.store", "delete_stats"),
    ("_feats.py", "MeanVarianceNormalization.store", "bessel"),
    ("_img.py", "_solve_interpolation", "full"),
    ("_img.py", "sparse_image_warp", "include_flow"),
    ("_img.py", "random_shift", "training"),
    ("_img.py", "spec_augment", "training"),
    ("_lm.py", "LookupLanguageModel._build_trie", "destructive"),
    ("_pad.py", "pad_masked_sequence", "batch_first"),
    ("_parsing.py", "transcript_to_token", "skip_frame_times"),
    ("_pl_data.py", "LitDataModule.add_argparse_args", "include_overloads"),
    ("_rl.py", "time_distributed_return", "batch_first"),
    ("_straight_through.py", "LogisticBernoulli.threshold", "straight_through"),
    ("_straight_through.py", "GumbelOneHotCategorical.threshold", "straight_through"),
    ("_string.py", "_string_matching", "batch_first"),
    ("_string.py", "_string_matching", "norm"),
    ("_string.py", "minimum_error_rate_loss", "sub_avg"),
    ("argcheck.py", "is_token", "empty_okay"),
    ("argcheck.py", "is_token", "allow_none"),
    ("argcheck.py", "is_a", "allow_none"),
    ("argcheck.py", "is_in", "allow_none"),
    ("argcheck.py", "is_btw", "allow_none"),
    ("argcheck.py", "has_ndim", "allow_none"),
    ("command_line.py", "_chunk_torch_spect_data_dir_do_work", "quiet"),
    ("estimators.py", "to_z", "warn"),
    ("estimators.py", "relax", "components"),
    ("estimators.py", "REBARControlVariate.__init__", "warn"),
    ("training.py", "TrainingStateController.__init__", "warn"),
    ("training.py", "TrainingStateController.add_entry", "reduce"),
}


def bool_formals(f: FuncInfo) -> List[str]:
    a = f.node.args
    pos = list(a.posonlyargs) + list(a.args)
    defaults = dict(zip([x.arg for x in pos][len(pos) - len(a.defaults):], a.defaults))
    defaults.update({k.arg: d for k, d in zip(a.kwonlyargs, a.kw_defaults) if d is not None})
    out = []
    for p in pos + list(a.kwonlyargs):
        ann = u(p.annotation) if p.annotation is not None else ""
        d = defaults.get(p.arg)
        if ann == "bool" or (isinstance(d, ast.Constant) and isinstance(d.value, bool)):
            out.append(p.arg)
    return out


def partially_honoured_flags(f: FuncInfo, max_paths: int = 20000) -> List[dict]:
    out = []
    for name in bool_formals(f):
        if (f.module.relname, f.qualname, name) not in CONFIRMED:
            continue
        loads = [n for n in ast.walk(f.node) if isinstance(n, ast.Name) and n.id == name and isinstance(n.ctx, ast.Load)]
        if not loads:
            continue
        tests = [n for n in own_nodes(f.node) if isinstance(n, ast.If) and any(isinstance(x, ast.Name) and x.id == name for x in ast.walk(n.test))]
        intest = {id(x) for t in tests for x in ast.walk(t.test) if isinstance(x, ast.Name) and x.id == name}
        if not tests or any(id(l) not in intest for l in loads):
            continue  # used as a value somewhere: not a pure mode switch
        if any(isinstance(x, ast.Name) and x.id == name and isinstance(x.ctx, ast.Store) for x in ast.walk(f.node)):
            continue

        formals = {p_.name for p_ in f.params}

        def ev(n, name=name):
            if isinstance(n, ast.Name) and n.id == name and isinstance(n.ctx, ast.Load):
                return "TEST"
            if isinstance(n, ast.Assign) and len(n.targets) == 1 and isinstance(n.targets[0], ast.Name):
                # `R = r` (an argument handed back unchanged) is the single-return spelling of an early `return r`
                ident = (isinstance(n.value, ast.Name) and n.value.id in formals) or isinstance(n.value, ast.Constant)
                return ("IDENT:" if ident else "DEF:") + n.targets[0].id
            return None
        try:
            paths = PathEnumerator(ev, exc_edges=False, max_paths=max_paths).paths(f.node.body)
        except AnalysisError:
            continue  # too many paths: not decided by this rule
        by_ret = {}
        for p in paths:
            if p.exit not in ("return", "fall"):
                continue
            key = id(p.exit_node) if p.exit_node is not None else 0
            labs = p.labels()
            tested = "TEST" in labs
            rv = getattr(p.exit_node, "value", None)
            if not tested and isinstance(rv, ast.Name):
                last = next((l for l in reversed(labs) if l in ("IDENT:" + rv.id, "DEF:" + rv.id)), None)
                if last is not None and last.startswith("IDENT:"):
                    key = (key, "identity")  # an early exit written as an assignment to the single returned name
            by_ret.setdefault(key, [set(), p.exit_node])[0].add(tested)
        mixed = [nd for k, (vals, nd) in by_ret.items() if len(vals) == 2]
        out.append(dict(flag=name, ok=not mixed, ret=mixed[0] if mixed else None, n_paths=len(paths)))
    return out
