"""G5 functional<->Module completeness, G6 path-or-file re-dispatch, G7 CLI option use."""
from __future__ import annotations

import ast
from typing import Dict, Iterable, List, Optional, Set, Tuple

from sa.model import AnalysisError, ClassInfo, FuncInfo, Package, own_calls, own_nodes
from sa.resolve import Binding, Resolver, bind_args, norm_name, principal_name
from sa.report import Collector

# wrapper name -> real class (documentation-only misnomer in the decorator string)
G5_CLASS_ALIASES = {"SequentialLogProbabilities": "SequenceLogProbabilities"}
# (functional, formal) -> accepted source in the Module method (reviewed)
G5_ARG_ALIASES = {
    ("feat_deltas", "_filters"): {"self.filters"},
    ("chunk_token_sequences_by_slices", "refs"): {"ref", "refs"},
    ("*", "training"): {"self.training"},
}
# formals that a Module legitimately leaves to the functional's default (reviewed)
G5_DEFAULT_OK = {
    # (functional, formal): reason
}


def find_class(pkg: Package, name: str) -> Optional[ClassInfo]:
    name = G5_CLASS_ALIASES.get(name, name)
    hits = [mi.classes[name] for mi in pkg.modules.values() if name in mi.classes]
    if len(hits) == 1:
        return hits[0]
    return hits[0] if hits else None


def wrappers(pkg: Package) -> List[Tuple[FuncInfo, str]]:
    out = []
    for f in pkg.all_functions(include_nested=False):
        t = f.functional_wrapper_target
        if t is not None and f.cls is None:
            out.append((f, t))
    return out


def _arg_ok(fname: str, formal: str, arg: ast.expr, method: FuncInfo) -> bool:
    s = ast.unparse(arg)
    own = {p.name for p in method.params}
    if s == formal and formal in own:
        return True
    if s == "self." + formal:
        return True
    for key in ((fname, formal), ("*", formal)):
        if s in G5_ARG_ALIASES.get(key, ()):  # reviewed alias
            return True
    return False


def g5_module_pairs(pkg: Package, res: Resolver, col: Collector, only: Optional[Set[str]] = None,
                    clause: str = "S1"):
    """Every @functional_wrapper function is called by its Module method with every formal
    bound to the method's same-named formal or self.<formal>."""
    pairs = 0
    _proxy_dispatch(pkg, col, clause)
    for f, target in wrappers(pkg):
        if only is not None and f.name not in only:
            continue
        cname, _, mname = target.partition(".")
        mname = mname or "forward"
        ci = find_class(pkg, cname)
        if ci is None:
            raise AnalysisError(f"functional_wrapper target class {cname} (for {f.name}) not found")
        methods = res.find_method(ci, mname)
        if not methods:
            raise AnalysisError(f"{cname}.{mname} not found for wrapper {f.name}")
        # the functional and its Module are one interface: an option both accept has ONE default (76 pairs on the tree, all equal) - with
        # different ones the same call means different things through the two entry points
        fdef = {p.name: p.default for p in f.params if getattr(p, "default", None) is not None}
        for init in res.find_method(ci, "__init__") or []:
            for p in init.params:
                d = getattr(p, "default", None)
                if d is not None and p.name in fdef and isinstance(d, ast.Constant) and isinstance(fdef[p.name], ast.Constant):
                    same = d.value == fdef[p.name].value and type(d.value) is type(fdef[p.name].value)
                    col.count("g5_shared_defaults", 1)
                    col.ob("G5", clause, f"{f.module.relname}::{f.name}::default({p.name})=={cname}", same,
                           f"`{p.name}` defaults to {ast.unparse(fdef[p.name])} in the functional {f.name} and to {ast.unparse(d)} in {cname}: the same "
                           f"arguments give different results through the two entry points", f.module.relname, f.line, nontrivial=False)
        for m in methods:
            where = f"{m.module.relname}::{m.qualname}"
            calls = []
            for call in own_calls(m.node):
                r = res.resolve_call(call, m)
                if r and any(c.name == f.name and c.cls is None for c in r[0]):
                    calls.append((call, r))
            if not calls:
                # composed forward (SpecAugment.forward) is checked as sibling elsewhere
                if (cname, mname) == ("SpecAugment", "forward"):
                    continue
                col.ob("G5", clause, f"{where}::calls::{f.name}", False,
                       f"{cname}.{mname} does not call its functional {f.name}",
                       m.module.relname, m.line)
                continue
            pairs += 1
            for call, r in calls:
                b = bind_args(call, f, False)
                for p, a, how in b.pairs:
                    ok = _arg_ok(f.name, p.name, a, m)
                    col.ob("G5", clause, f"{where}::{f.name}({p.name}<-{ast.unparse(a)})", ok,
                           f"formal `{p.name}` of {f.name} receives `{ast.unparse(a)}` instead of "
                           f"`{p.name}` / `self.{p.name}`",
                           m.module.relname, call.lineno,
                           sample=dict(functional=f.name, formal=p.name, arg=ast.unparse(a)))
                for p in b.defaulted + b.missing:
                    if (f.name, p.name) in G5_DEFAULT_OK:
                        continue
                    # dropped option: the Module stores/accepts p but does not forward it
                    stores = _class_stores(res, ci, p.name) or m.param(p.name) is not None
                    ok = not stores
                    if p.name.startswith("_") and not stores:
                        ok = True
                    col.ob("G5", clause, f"{where}::{f.name}({p.name}<-default)", ok,
                           f"{cname}.{mname} leaves `{p.name}` of {f.name} to its default although "
                           f"the Module stores/accepts `{p.name}`",
                           m.module.relname, call.lineno,
                           sample=dict(functional=f.name, formal=p.name, arg="<default>"))
    col.count("g5_pairs", pairs)
    return pairs


def _class_stores(res: Resolver, ci: ClassInfo, attr: str) -> bool:
    for c in res.mro(ci):
        if attr in c.attrs or attr in c.ann_attrs:
            return True
        for fl in c.methods.values():
            for m in fl:
                for n in own_nodes(m.node):
                    if (isinstance(n, ast.Attribute) and isinstance(n.ctx, ast.Store)
                            and isinstance(n.value, ast.Name) and n.value.id == "self"
                            and n.attr == attr):
                        return True
    return False


def g5_delegation(pkg: Package, res: Resolver, col: Collector, caller_specs: List[str],
                  callee_names: Set[str], clause: str = "S1", exempt: Set[Tuple[str, str]] = frozenset()):
    """A public function that delegates to a kernel forwards every same-named formal."""
    n = 0
    for spec in caller_specs:
        for f in pkg.funcs(spec):
            own = {p.name for p in f.params}
            where = f"{f.module.relname}::{f.qualname}"
            found = False
            for call in own_calls(f.node):
                r = res.resolve_call(call, f)
                if not r:
                    continue
                for callee in r[0]:
                    if callee.name not in callee_names:
                        continue
                    found = True
                    n += 1
                    b = bind_args(call, callee, r[1])
                    for p, a, how in b.pairs:
                        if p.name in own:
                            ok = ast.unparse(a) == p.name
                            col.ob("G5", clause, f"{where}::{callee.name}({p.name}<-{ast.unparse(a)})", ok,
                                   f"`{p.name}` of {callee.name} receives `{ast.unparse(a)}` although "
                                   f"{f.name} has its own `{p.name}`",
                                   f.module.relname, call.lineno,
                                   sample=dict(call=callee.name, formal=p.name, arg=ast.unparse(a)))
                    used_here = {n.id for n in own_nodes(f.node) if isinstance(n, ast.Name)
                                 and isinstance(n.ctx, ast.Load)}
                    for p in b.defaulted:
                        if p.name in used_here:
                            continue  # the caller consumes the option itself (not dropped)
                        if p.name in own and (f.name, p.name) not in exempt:
                            col.ob("G5", clause, f"{where}::{callee.name}({p.name}<-default)", False,
                                   f"{f.name} accepts `{p.name}` but leaves {callee.name}'s `{p.name}` "
                                   f"to its default (option silently dropped)",
                                   f.module.relname, call.lineno,
                                   sample=dict(call=callee.name, formal=p.name, arg="<default>"))
            if not found:
                raise AnalysisError(f"{spec} no longer delegates to any of {sorted(callee_names)}")
    col.count("g5_delegations", n)
    return n


# ---------------------------------------------------------------------------
G6_EXCEPTIONS = {
    ("read_trn_iter", "chunk_size"): "affects only Pool.imap chunking, not results",
}


def _isinstance_str_branches(f: FuncInfo):
    """Yield (param_name, If node) for `if isinstance(x, str):` tests on a formal."""
    formals = {p.name for p in f.params}
    for n in own_nodes(f.node):
        if isinstance(n, ast.If):
            t = n.test
            if (isinstance(t, ast.Call) and isinstance(t.func, ast.Name) and t.func.id == "isinstance"
                    and len(t.args) == 2 and isinstance(t.args[0], ast.Name) and t.args[0].id in formals):
                ty = ast.unparse(t.args[1])
                if "str" in ty or "PathLike" in ty or "Path" in ty:
                    yield t.args[0].id, n


def g6_redispatch(pkg: Package, res: Resolver, col: Collector, module: str = "_parsing",
                  clause: str = "S1", only: Optional[Set[str]] = None):
    """path-or-file re-dispatch: the recursive call forwards every other formal under its
    own name; the open() mode matches the direction."""
    mi = pkg.module(module)
    sites = 0
    for fl in mi.functions.values():
        for f in fl:
            if f.is_overload:
                continue
            if only is not None and f.name not in only:
                continue
            for pname, ifn in _isinstance_str_branches(f):
                # find the self (or *_iter sibling) call inside this branch
                for n in ast.walk(ifn):
                    if not isinstance(n, ast.Call):
                        continue
                    if not (isinstance(n.func, ast.Name) and n.func.id in (f.name, f.name + "_iter")):
                        continue
                    if n not in list(ast.walk(ast.Module(body=ifn.body, type_ignores=[]))):
                        continue
                    callee_l = mi.functions.get(n.func.id)
                    if not callee_l:
                        continue
                    callee = [c for c in callee_l if not c.is_overload][-1]
                    sites += 1
                    where = f"{mi.relname}::{f.qualname}"
                    b = bind_args(n, callee, False)
                    bound = {p.name: a for p, a, _ in b.pairs}
                    for p in f.params:
                        if p.name == pname or p.kind not in ("pos", "kwonly"):
                            continue
                        if callee.param(p.name) is None:
                            continue
                        if (f.name, p.name) in G6_EXCEPTIONS:
                            continue
                        a = bound.get(p.name)
                        ok = a is not None and ast.unparse(a) == p.name
                        col.ob("G6", clause, f"{where}::redispatch({p.name})", ok,
                               f"the path entry point of {f.name} "
                               + (f"passes `{ast.unparse(a)}` as" if a is not None else "does not forward")
                               + f" `{p.name}`: path and file-object entry points differ",
                               mi.relname, n.lineno,
                               sample=dict(function=f.name, formal=p.name,
                                           forwarded=ast.unparse(a) if a is not None else None))
                    # the file argument must be the opened handle, not the path
                    fa = bound.get(pname)
                    handle_ok = fa is not None and not (isinstance(fa, ast.Name) and fa.id == pname
                                                        and not _rebinds(ifn, pname))
                    col.ob("G6", clause, f"{where}::redispatch-handle({pname})", handle_ok,
                           f"re-dispatch of {f.name} passes the path itself again", mi.relname, n.lineno,
                           sample=dict(function=f.name, handle=ast.unparse(fa) if fa is not None else None))
                # open mode
                for n in ast.walk(ifn):
                    if isinstance(n, ast.Call) and isinstance(n.func, ast.Name) and n.func.id == "open":
                        mode = None
                        if len(n.args) >= 2:
                            mode = n.args[1]
                        for kw in n.keywords:
                            if kw.arg == "mode":
                                mode = kw.value
                        m = mode.value if isinstance(mode, ast.Constant) else ("r" if mode is None else None)
                        want_w = f.name.startswith("write")
                        ok = m is not None and (("w" in m) == want_w) and ("a" not in m) and ("+" not in m)
                        col.ob("G6", clause, f"{mi.relname}::{f.qualname}::open-mode", ok,
                               f"{f.name} opens its path with mode {m!r}", mi.relname, n.lineno,
                               sample=dict(function=f.name, mode=m))
    col.count("g6_redispatch_sites", sites)
    return sites


def _rebinds(ifn: ast.If, name: str) -> bool:
    for n in ast.walk(ifn):
        if isinstance(n, ast.withitem) and isinstance(n.optional_vars, ast.Name) and n.optional_vars.id == name:
            return True
        if isinstance(n, ast.Assign):
            for t in n.targets:
                if isinstance(t, ast.Name) and t.id == name:
                    return True
    return False


# ---------------------------------------------------------------------------
G7_UNREAD_OK = {
    # (command, dest): reason
    ("torch_token_data_dir_to_textgrids", "infer"):
        "marker member of a required mutually exclusive group; selecting it means 'not the others'",
}
ZERO_ADMITTING_TYPES = {"as_nonnegi", "as_nonnegf", "as_closed01", "as_closed01f", "as_int", "as_float",
                        "int", "float"}


def _flag_dest(flags: List[str], kw: Dict[str, ast.expr]) -> Optional[str]:
    if "dest" in kw and isinstance(kw["dest"], ast.Constant):
        return kw["dest"].value
    longs = [f for f in flags if f.startswith("--")]
    if longs:
        return longs[0][2:].replace("-", "_")
    shorts = [f for f in flags if f.startswith("-")]
    if shorts:
        return shorts[0][1:]
    if flags:
        return flags[0]
    return None


def cli_declared_options(pkg: Package, res: Resolver, f: FuncInfo):
    """[(dest, kwargs dict of ast, lineno)] declared in a console command."""
    mi = f.module
    common = None
    for v in mi.assigns.get("_COMMON_ARGS", []):
        if isinstance(v, ast.Dict):
            common = {}
            for k, val in zip(v.keys, v.values):
                if isinstance(k, ast.Constant) and isinstance(val, ast.Dict):
                    common[k.value] = {
                        kk.value: vv for kk, vv in zip(val.keys, val.values) if isinstance(kk, ast.Constant)
                    }
    out = []
    for call in own_calls(f.node):
        fn = call.func
        if isinstance(fn, ast.Attribute) and fn.attr == "add_argument":
            flags = [a.value for a in call.args if isinstance(a, ast.Constant) and isinstance(a.value, str)]
            kw = {k.arg: k.value for k in call.keywords if k.arg}
            if any(k.arg is None for k in call.keywords):
                raise AnalysisError(f"{f.key}: add_argument with **kwargs not understood")
            d = _flag_dest(flags, kw)
            if d:
                out.append((d, kw, call.lineno, flags))
        elif isinstance(fn, ast.Name) and fn.id == "_add_common_arg":
            if common is None:
                raise AnalysisError("_COMMON_ARGS table not found")
            farg = call.args[1] if len(call.args) >= 2 else next((k.value for k in call.keywords if k.arg == "flag"), None)
            if not isinstance(farg, ast.Constant):
                raise AnalysisError(f"{f.key}: _add_common_arg with non-literal flag")
            flag = farg.value
            if flag not in common:
                raise AnalysisError(f"{f.key}: common flag {flag} not in _COMMON_ARGS")
            out.append((_flag_dest([flag], common[flag]), common[flag], call.lineno, [flag]))
    return out


def _attr_reads(pkg, res, f: FuncInfo, var: str, depth: int = 3, seen=None) -> Set[str]:
    """Attributes read on `var` in f, and transitively in package functions `var` is passed to."""
    seen = seen if seen is not None else set()
    if (f, var) in seen or depth < 0:
        return set()
    seen.add((f, var))
    out = set()
    for n in own_nodes(f.node):
        if isinstance(n, ast.Attribute) and isinstance(n.value, ast.Name) and n.value.id == var \
                and isinstance(n.ctx, ast.Load):
            out.add(n.attr)
        if isinstance(n, ast.Call) and isinstance(n.func, ast.Name) and n.func.id in ("getattr", "vars") \
                and n.args and isinstance(n.args[0], ast.Name) and n.args[0].id == var:
            if n.func.id == "getattr" and len(n.args) > 1 and isinstance(n.args[1], ast.Constant):
                out.add(n.args[1].value)
            else:
                out.add("*")
    for call in own_calls(f.node):
        r = res.resolve_call(call, f)
        if not r:
            continue
        for callee in r[0]:
            b = bind_args(call, callee, r[1])
            for p, a, _ in b.pairs:
                if isinstance(a, ast.Name) and a.id == var and p.kind in ("pos", "kwonly"):
                    out |= _attr_reads(pkg, res, callee, p.name, depth - 1, seen)
    # nested functions / lambdas using the free variable
    for fl in f.nested.values():
        for g in fl:
            if g.param(var) is None:
                out |= _attr_reads(pkg, res, g, var, depth - 1, seen)
    return out


def _truthiness_uses(f: FuncInfo, var: str, dest: str):
    """Uses of options.<dest> in boolean context."""
    hits = []

    def is_opt(e):
        return (isinstance(e, ast.Attribute) and e.attr == dest and isinstance(e.value, ast.Name)
                and e.value.id == var)

    for n in own_nodes(f.node):
        if isinstance(n, (ast.If, ast.While, ast.IfExp)) and is_opt(n.test):
            hits.append(n)
        elif isinstance(n, ast.BoolOp):
            for v in n.values:
                if is_opt(v):
                    hits.append(n)
        elif isinstance(n, ast.UnaryOp) and isinstance(n.op, ast.Not) and is_opt(n.operand):
            hits.append(n)
        elif isinstance(n, ast.Call) and isinstance(n.func, ast.Name) and n.func.id == "bool" and n.args \
                and is_opt(n.args[0]):
            hits.append(n)
    return hits


def g7_cli(pkg: Package, res: Resolver, col: Collector, clause: str = "S1",
           only: Optional[Set[str]] = None, module: str = "command_line"):
    ncmd = 0
    for cmd, (mod, fn) in sorted(pkg.entry_points.items()):
        if mod != module:
            raise AnalysisError(f"entry point {cmd} lives in unexpected module {mod}")
        if only is not None and fn not in only:
            continue
        f = pkg.func(f"{mod}::{fn}")
        ncmd += 1
        # the options variable: target of `X = parser.parse_args(...)`
        optvar = None
        for n in own_nodes(f.node):
            if isinstance(n, ast.Assign) and isinstance(n.value, ast.Call) and isinstance(
                    n.value.func, ast.Attribute) and n.value.func.attr in ("parse_args", "parse_known_args"):
                t = n.targets[0]
                if isinstance(t, ast.Name):
                    optvar = t.id
        if optvar is None:
            raise AnalysisError(f"{f.key}: no parse_args assignment found")
        reads = _attr_reads(pkg, res, f, optvar)
        decl = cli_declared_options(pkg, res, f)
        if not decl:
            raise AnalysisError(f"{f.key}: no declared options found")
        where = f"{f.module.relname}::{f.qualname}"
        for dest, kw, line, flags in decl:
            ok = dest in reads or "*" in reads or (fn, dest) in G7_UNREAD_OK
            col.ob("G7", clause, f"{where}::option({dest})", ok,
                   f"option {flags} (dest `{dest}`) of `{cmd}` is declared but never read: "
                   f"the flag has no effect",
                   f.module.relname, line, sample=dict(command=cmd, dest=dest, flags=flags))
            # Optional numeric tested by truthiness
            ty = kw.get("type")
            tyname = ast.unparse(ty).split(".")[-1] if ty is not None else None
            dflt = kw.get("default")
            dnone = dflt is None or (isinstance(dflt, ast.Constant) and dflt.value is None)
            is_flag = "action" in kw
            if tyname in ZERO_ADMITTING_TYPES and dnone and not is_flag:
                hits = _truthiness_uses(f, optvar, dest)
                col.ob("G7", clause, f"{where}::optional-numeric-truthiness({dest})", not hits,
                       f"`{optvar}.{dest}` (type {tyname}, default None) is tested by truthiness"
                       + (f" in `{ast.unparse(hits[0])}`" if hits else "")
                       + f": the legal value 0 is treated as 'not given'",
                       f.module.relname, hits[0].lineno if hits else line,
                       sample=dict(command=cmd, dest=dest, type=tyname))
        # options read but never declared (typo'd dest) -> contradiction as well
        declared = {d for d, _, _, _ in decl}
        for r_ in sorted(reads - declared - {"*"}):
            col.ob("G7", clause, f"{where}::reads-undeclared({r_})", False,
                   f"`{optvar}.{r_}` is read but `{cmd}` declares no such option",
                   f.module.relname, f.line, sample=dict(command=cmd, dest=r_))
    col.count("g7_commands", ncmd)
    return ncmd


def g5_super_init(pkg: Package, res: Resolver, funcs, col: Collector, clause: str = "S1"):
    """Constructor delegation: a subclass `__init__` that accepts an option its base `__init__` also has must pass it
    on (or consume it itself); leaving the base formal to its default silently drops the option."""
    n = 0
    for f in funcs:
        if f.name != "__init__" or f.cls is None:
            continue
        own = {p.name for p in f.params}
        used = {}
        for x in own_nodes(f.node):
            if isinstance(x, ast.Name) and isinstance(x.ctx, ast.Load):
                used[x.id] = used.get(x.id, 0) + 1
        for c in own_calls(f.node):
            if not (isinstance(c.func, ast.Attribute) and c.func.attr == "__init__"):
                continue
            r = res.resolve_call(c, f)
            if not r or not r[0]:
                continue
            for callee in r[0]:
                b = bind_args(c, callee, r[1])
                n += 1
                where = f"{f.module.relname}::{f.qualname}"
                dropped = [p.name for p in b.defaulted if p.name in own and not used.get(p.name)]
                col.ob("G5", clause, f"{where}::super().__init__-forwards-shared-options", not dropped,
                       f"{f.cls.name}.__init__ accepts {dropped} but leaves the same-named formal(s) of "
                       f"{callee.qualname} to their defaults and never reads them: the option is silently dropped",
                       f.module.relname, c.lineno, sample=[(p.name, ast.unparse(a)) for p, a, _ in b.pairs][:6],
                       nontrivial=False)
    col.count("g5_super_init_sites", n)
    return n


def _proxy_dispatch(pkg: Package, col: Collector, clause: str):
    """Every Module wrapper gets `__call__ = proxy(forward)`. The proxy must reach torch.nn.Module.__call__ for *any*
    instance; `super(self.__class__, self)` names the instance's own class, so for an instance of a subclass it resolves
    to the wrapper class again - whose `__call__` is the same proxy - and recurses without end."""
    mi = pkg.modules.get("_wrappers")
    if mi is None:
        return
    px = [n for n in ast.walk(mi.tree) if isinstance(n, ast.FunctionDef) and n.name == "proxy"]
    if len(px) != 1:
        raise AnalysisError("_wrappers.proxy not found")
    bad = [c for c in ast.walk(px[0]) if isinstance(c, ast.Call) and isinstance(c.func, ast.Name) and c.func.id == "super" and c.args
           and any(isinstance(x, ast.Attribute) and x.attr == "__class__" for x in ast.walk(c.args[0]))]
    col.ob("G5", clause, f"{mi.relname}::proxy::dispatch-is-subclass-safe", not bad,
           f"`{ast.unparse(bad[0]) if bad else ''}` in proxy(): for an instance of a subclass of any wrapper Module this is the wrapper "
           f"class itself, whose __call__ is the proxy again: calling the subclass instance raises RecursionError", mi.relname,
           bad[0].lineno if bad else px[0].lineno, nontrivial=False)
