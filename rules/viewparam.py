"""G31: `.view(...)` on a caller's tensor. `view` never copies: merging dimensions (a -1 together with fewer output than
input dimensions) only works when the strides happen to be compatible. A tensor that reaches the call from a parameter
through aliasing operations only (transpose, slicing, unsqueeze, expand, ...) may be any strided view - the top-M slice of
an n-best list, a transposed batch - and `view` then raises; `reshape` (or `.contiguous().view`) is the total spelling."""
from __future__ import annotations

import ast
from typing import List

from sa.astutil import call_name, u
from sa.defuse import ReachingDefs
from sa.model import FuncInfo, own_nodes

ALIASING = {"transpose", "t", "unsqueeze", "squeeze", "expand", "expand_as", "permute", "narrow", "select", "detach", "view",
            "view_as", "movedim", "flatten", "to", "long", "float"}


def merging_views_of_parameters(f: FuncInfo) -> List[dict]:
    rd = None
    out = []
    params = {p.name for p in f.params} - {"self", "cls"}

    def alias_of_param(e, depth=0):
        if depth > 8:
            return None
        if isinstance(e, ast.Name):
            for d in rd.defs_of(e):
                if d.kind == "param" and d.name in params:
                    return d.name
                if d.kind in ("assign", "unpack") and d.value is not None:
                    v = d.value
                    if d.kind == "unpack" and isinstance(v, ast.Tuple) and d.slot and len(d.slot) == 1 and d.slot[0] < len(v.elts):
                        v = v.elts[d.slot[0]]
                    r = alias_of_param(v, depth + 1)
                    if r:
                        return r
            return None
        if isinstance(e, ast.Subscript):
            return alias_of_param(e.value, depth + 1)
        if isinstance(e, ast.Call) and isinstance(e.func, ast.Attribute) and e.func.attr in ALIASING:
            return alias_of_param(e.func.value, depth + 1)
        return None
    for n in own_nodes(f.node):
        if isinstance(n, ast.Call) and isinstance(n.func, ast.Attribute) and n.func.attr == "view" and n.args:
            args = list(n.args[0].elts) if len(n.args) == 1 and isinstance(n.args[0], ast.Tuple) else list(n.args)
            has_m1 = any(isinstance(a, ast.UnaryOp) and isinstance(a.op, ast.USub) and isinstance(a.operand, ast.Constant)
                         and a.operand.value == 1 for a in args)
            if not has_m1 or len(args) > 2:
                continue
            rd = rd or ReachingDefs(f.node)
            p = alias_of_param(n.func.value)
            if p:
                out.append(dict(node=n, param=p))
    return out
