"""G30: a dimension formal that the function's own range check admits as negative (`dim < -rank` raises, so -rank..-1 are
legal) denotes `dim + rank`; arithmetic on the raw value (`1 - dim`, `dim + 1`) or its truthiness (`bool(dim)`, `if dim:`)
is only right after the formal has been normalised (`dim = (dim + rank) % rank`)."""
from __future__ import annotations

import ast
from typing import List

from sa.astutil import call_name, parent_map, u
from sa.defuse import ReachingDefs
from sa.model import FuncInfo, own_nodes


def raw_negative_dim_uses(f: FuncInfo) -> List[dict]:
    params = {p.name for p in f.params}
    admitted = {}
    for n in own_nodes(f.node):
        if isinstance(n, ast.If) and any(isinstance(x, ast.Raise) for x in n.body):
            for c in ast.walk(n.test):
                if isinstance(c, ast.Compare) and len(c.ops) == 1 and isinstance(c.left, ast.Name) and c.left.id in params \
                        and isinstance(c.ops[0], ast.Lt) and isinstance(c.comparators[0], ast.UnaryOp) \
                        and isinstance(c.comparators[0].op, ast.USub) and not isinstance(c.comparators[0].operand, ast.Constant):
                    admitted[c.left.id] = n
    if not admitted:
        return []
    rd = ReachingDefs(f.node)
    pm = parent_map(f.node)
    out = []
    for n in own_nodes(f.node):
        if not (isinstance(n, ast.Name) and isinstance(n.ctx, ast.Load) and n.id in admitted):
            continue
        if not all(d.kind == "param" for d in rd.defs_of(n)):
            continue  # normalised (re-defined) before this use
        # inside the range check itself?
        cur, inside = n, False
        while cur is not None:
            if cur is admitted[n.id].test:
                inside = True
                break
            cur = pm.get(cur)
        if inside:
            continue
        par = pm.get(n)
        kind = None
        if isinstance(par, ast.BinOp) and isinstance(par.op, (ast.Add, ast.Sub, ast.Mult)):
            # the normalising statement itself: p = (p + R) % R
            gp = pm.get(par)
            if isinstance(gp, ast.BinOp) and isinstance(gp.op, ast.Mod):
                continue
            kind = f"arithmetic `{u(par)}`"
        elif isinstance(par, ast.Call) and call_name(par) == "bool":
            kind = f"truthiness `{u(par)}`"
        elif isinstance(par, (ast.If, ast.IfExp, ast.While)) and par.test is n:
            kind = "truthiness in a branch test"
        elif isinstance(par, ast.UnaryOp) and isinstance(par.op, ast.Not):
            kind = f"truthiness `{u(par)}`"
        if kind:
            out.append(dict(node=n, name=n.id, kind=kind, line=n.lineno))
    return out
