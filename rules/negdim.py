"""G30: a dimension formal that the function's own range check admits as negative (`dim < -rank` raises, so -rank..-1 are
legal) denotes `dim + rank`; arithmetic on the raw value (`1 - dim`, `dim + 1`) or its truthiness (`bool(dim)`, `if dim:`)
is only right after the formal has been normalised (`dim = (dim + rank) % rank`)."""
from __future__ import annotations

import ast
from typing import List

from sa.astutil import call_name, oriented, parent_map, u
from sa.defuse import ReachingDefs
from sa.model import FuncInfo, own_nodes


def raw_negative_dim_uses(f: FuncInfo) -> List[dict]:
    params = {p.name for p in f.params}
    admitted = {}
    for n in own_nodes(f.node):
        if isinstance(n, ast.If) and any(isinstance(x, ast.Raise) for x in n.body):
            for c in ast.walk(n.test):
                o = oriented(c, lambda e: isinstance(e, ast.Name) and e.id in params) if isinstance(c, ast.Compare) else None
                if o and o[0] == "lt" and isinstance(o[2], ast.UnaryOp) and isinstance(o[2].op, ast.USub) \
                        and not isinstance(o[2].operand, ast.Constant):
                    admitted[o[1].id] = n
    if not admitted:
        return []
    rd = ReachingDefs(f.node)
    pm = parent_map(f.node)
    out = []
    for n in own_nodes(f.node):
        if not (isinstance(n, ast.Name) and isinstance(n.ctx, ast.Load) and n.id in admitted):
            continue
        if not all(d.kind == "param" for d in rd.defs_of(n)):
            continue  # normalised (re-defined) before this use
        # inside the range check itself?
        cur, inside = n, False
        while cur is not None:
            if cur is admitted[n.id].test:
                inside = True
                break
            cur = pm.get(cur)
        if inside:
            continue
        par = pm.get(n)
        kind = None
        if isinstance(par, ast.BinOp) and isinstance(par.op, (ast.Add, ast.Sub, ast.Mult)):
            # the normalising statement itself: p = (p + R) % R
            gp = pm.get(par)
            if isinstance(gp, ast.BinOp) and isinstance(gp.op, ast.Mod):
                continue
            kind = f"arithmetic `{u(par)}`"
        elif isinstance(par, ast.Call) and call_name(par) == "bool":
            kind = f"truthiness `{u(par)}`"
        elif isinstance(par, (ast.If, ast.IfExp, ast.While)) and par.test is n:
            kind = "truthiness in a branch test"
        elif isinstance(par, ast.UnaryOp) and isinstance(par.op, ast.Not):
            kind = f"truthiness `{u(par)}`"
        if kind:
            out.append(dict(node=n, name=n.id, kind=kind, line=n.lineno))
    return out
