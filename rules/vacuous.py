"""G32: vacuous test. A tensor rank (`x.dim()`, `x.ndim`) or a length (`len(x)`) is never negative: `rank == -1`,
`rank < 0`, `rank <= -1` are constantly false (and `rank >= 0` constantly true). Inside a validation condition such a
test is a typo for a test of something else, and the case it was meant to reject is silently accepted."""
from __future__ import annotations

import ast
from typing import List

from sa.astutil import call_name, cmp_sides, u
from sa.defuse import ReachingDefs
from sa.model import FuncInfo, own_nodes


def vacuous_rank_tests(f: FuncInfo) -> List[dict]:
    rd = None
    out = []

    def is_rank(e):
        nonlocal rd
        if isinstance(e, ast.Call) and isinstance(e.func, ast.Attribute) and e.func.attr in ("dim", "ndimension", "numel") and not e.args:
            return True
        if isinstance(e, ast.Attribute) and e.attr == "ndim":
            return True
        if isinstance(e, ast.Call) and call_name(e) == "len":
            return True
        if isinstance(e, ast.Name):
            rd = rd or ReachingDefs(f.node)
            ds = list(rd.defs_of(e))
            return bool(ds) and all(d.kind == "assign" and d.value is not None and not isinstance(d.value, ast.Name) and is_rank(d.value) for d in ds)
        return False

    def neg_const(e):
        if isinstance(e, ast.UnaryOp) and isinstance(e.op, ast.USub) and isinstance(e.operand, ast.Constant) and isinstance(e.operand.value, (int, float)):
            return -e.operand.value
        if isinstance(e, ast.Constant) and isinstance(e.value, (int, float)) and not isinstance(e.value, bool) and e.value < 0:
            return e.value
        return None
    for n in own_nodes(f.node):
        if not isinstance(n, ast.Compare):
            continue
        cs = cmp_sides(n)
        if cs is None:
            continue
        op, a, b = cs
        for x, y, o in ((a, b, op), (b, a, {"lt": "gt", "gt": "lt", "le": "ge", "ge": "le", "eq": "eq", "ne": "ne"}[op])):
            k = neg_const(y)
            if k is not None and is_rank(x) and o in ("eq", "lt", "le"):
                out.append(dict(node=n, what=u(x), const=k))
    return out
