"""G20: -inf sentinel taint reaching a multiplication by a 0/1 mask or a probability."""
from __future__ import annotations

import ast
from typing import Dict, List, Optional, Set, Tuple

from sa.astutil import call_name, is_neg_inf, kwarg, u
from sa.defuse import Def, ReachingDefs
from sa.model import FuncInfo, own_nodes

SHAPE_PRESERVING = {
    "gather", "view", "expand", "expand_as", "unsqueeze", "squeeze", "scatter", "clamp", "clamp_min",
    "clamp_max", "transpose", "t", "reshape", "flatten", "index_select", "contiguous", "to", "float",
    "double", "clone", "repeat", "masked_fill", "masked_scatter", "sum", "max", "min", "topk", "sort", "cumsum",
    "new_tensor", "permute", "narrow", "select", "roll", "flip", "where", "type_as", "detach", "logsumexp",
}
NOT_VALUE = {"shape", "size", "dim", "ndim", "device", "dtype", "numel", "new_full", "new_zeros", "new_ones",
             "new_empty", "item", "argmax", "argmin", "eq", "ne", "lt", "le", "gt", "ge", "isnan", "isinf", "any", "all"}
FUNCS_VALUE = {"torch.cat", "torch.stack", "torch.where", "torch.max", "torch.min", "torch.maximum",
               "torch.minimum", "torch.sum", "torch.logsumexp"}
BOOL_CTORS = {"torch.zeros", "torch.ones", "torch.full", "torch.empty"}


class SentinelTaint:
    """Which expressions of a function may carry the -inf sentinel."""

    def __init__(self, f: FuncInfo, tainted_params: Set[str] = frozenset()):
        self.f = f
        self.rd = ReachingDefs(f.node)
        self.tainted_params = set(tainted_params)
        self._memo_def: Dict[int, Optional[bool]] = {}

    # -- sources ---------------------------------------------------------------
    def is_source(self, e: ast.AST) -> bool:
        if isinstance(e, ast.Call):
            cn = call_name(e)
            last = cn.split(".")[-1]
            if last in ("full", "new_full", "full_like") and len(e.args) >= 2 and is_neg_inf(e.args[1]):
                return True
            if last in ("full", "new_full", "full_like") and kwarg(e, "fill_value") is not None and is_neg_inf(
                    kwarg(e, "fill_value")):
                return True
            if last in ("masked_fill", "masked_fill_") and len(e.args) >= 2 and is_neg_inf(e.args[1]):
                return True
            if last == "where" and any(is_neg_inf(a) for a in e.args[1:3]):
                return True
        return False

    # -- propagation -----------------------------------------------------------
    def tainted(self, e: ast.AST, slot: Optional[Tuple[int, ...]] = None, depth: int = 0) -> bool:
        if e is None or depth > 60:
            return False
        if self.is_source(e):
            return True
        if isinstance(e, ast.Name):
            if not isinstance(e.ctx, ast.Load):
                return False
            return any(self.def_tainted(d, depth + 1) for d in self.rd.defs_of(e))
        if isinstance(e, ast.Constant):
            return False
        if isinstance(e, ast.Compare):
            return False
        if isinstance(e, ast.UnaryOp):
            if isinstance(e.op, (ast.Invert, ast.Not)):
                return False
            return self.tainted(e.operand, None, depth + 1)
        if isinstance(e, ast.BinOp):
            if isinstance(e.op, (ast.BitAnd, ast.BitOr, ast.FloorDiv, ast.Mod)):
                return False
            return self.tainted(e.left, None, depth + 1) or self.tainted(e.right, None, depth + 1)
        if isinstance(e, ast.IfExp):
            return self.tainted(e.body, None, depth + 1) or self.tainted(e.orelse, None, depth + 1)
        if isinstance(e, (ast.Tuple, ast.List)):
            if slot:
                i = slot[0]
                if i < len(e.elts):
                    return self.tainted(e.elts[i], slot[1:] or None, depth + 1)
                return False
            return any(self.tainted(x, None, depth + 1) for x in e.elts)
        if isinstance(e, ast.Subscript):
            # (values, indices) = x.topk(...): [1] is an index tensor
            v = e.value
            if isinstance(v, ast.Call) and isinstance(v.func, ast.Attribute) and v.func.attr in (
                    "topk", "sort", "max", "min") and isinstance(e.slice, ast.Constant):
                if e.slice.value == 1:
                    return False
                return self.tainted(v.func.value, None, depth + 1)
            return self.tainted(v, None, depth + 1)
        if isinstance(e, ast.Attribute):
            if e.attr in NOT_VALUE:
                return False
            return self.tainted(e.value, None, depth + 1)
        if isinstance(e, ast.Call):
            cn = call_name(e)
            if isinstance(e.func, ast.Attribute) and not cn.startswith("torch."):
                m = e.func.attr
                if m in NOT_VALUE or m in ("softmax", "exp", "sigmoid", "tanh", "exp_", "isfinite", "relu"):
                    return False
                if m in ("topk", "sort") or (m in ("max", "min") and e.args):
                    if slot == (1,):
                        return False
                if self.tainted(e.func.value, None, depth + 1):
                    return True
                if m in ("scatter", "masked_scatter", "where", "scatter_add", "index_put", "add", "mul", "sub"):
                    return any(self.tainted(a, None, depth + 1) for a in e.args)
                return False
            if cn in FUNCS_VALUE or cn.startswith("torch."):
                if cn in ("torch.arange", "torch.zeros", "torch.ones", "torch.empty", "torch.nonzero",
                          "torch.nn.functional.one_hot"):
                    return False
                # functions that map the -inf sentinel to a finite value consume it
                if cn.split(".")[-1] in ("softmax", "exp", "sigmoid", "tanh", "isfinite", "isinf", "isnan", "relu"):
                    return False
                args = list(e.args)
                if cn == "torch.where":
                    args = args[1:]
                return any(self.tainted(a, None, depth + 1) for a in args)
            return False
        return False

    def def_tainted(self, d: Def, depth: int = 0) -> bool:
        k = id(d)
        if k in self._memo_def:
            v = self._memo_def[k]
            return bool(v)
        self._memo_def[k] = False  # break cycles optimistically
        r = False
        if d.kind == "param":
            r = d.name in self.tainted_params
        elif d.kind == "aug":
            r = self.tainted(d.value.value, None, depth + 1) or any(
                self.def_tainted(p, depth + 1) for p in getattr(d, "prev", ()))
        elif d.kind in ("assign", "unpack", "with", "for", "comp"):
            r = self.tainted(d.value, d.slot, depth + 1) if d.value is not None else False
        elif d.kind == "item":
            r = self.tainted(d.value, None, depth + 1) if isinstance(d.value, ast.AST) else False
        self._memo_def[k] = r
        return r

    # -- operand classification ------------------------------------------------------
    def is_bool_mask(self, e: ast.AST, depth: int = 0) -> bool:
        if depth > 20:
            return False
        if isinstance(e, ast.Compare):
            return True
        if isinstance(e, ast.UnaryOp) and isinstance(e.op, (ast.Invert, ast.Not)):
            return True
        if isinstance(e, ast.BinOp) and isinstance(e.op, (ast.BitAnd, ast.BitOr, ast.BitXor)):
            return True
        if isinstance(e, ast.Call):
            cn = call_name(e)
            m = e.func.attr if isinstance(e.func, ast.Attribute) else None
            if m in ("eq", "ne", "lt", "le", "gt", "ge", "bool", "isnan", "isinf", "logical_not", "logical_and",
                     "logical_or"):
                return True
            dt = kwarg(e, "dtype")
            if dt is not None and u(dt) == "torch.bool":
                return True
            if m == "to" and e.args and u(e.args[0]) == "torch.bool":
                return True
            if cn in ("torch.cat", "torch.stack") and e.args and isinstance(e.args[0], (ast.List, ast.Tuple)):
                return any(self.is_bool_mask(x, depth + 1) for x in e.args[0].elts)
            if m in ("unsqueeze", "expand", "view", "gather", "transpose", "flatten", "reshape", "squeeze",
                     "expand_as", "any", "all", "t"):
                return self.is_bool_mask(e.func.value, depth + 1)
            return False
        if isinstance(e, ast.Name) and isinstance(e.ctx, ast.Load):
            ds = self.rd.defs_of(e)
            vals = [d for d in ds if d.kind != "param"]
            if not vals or len(vals) != len(ds):
                # a parameter: use its annotation-free name convention? unknown -> not a mask
                return False
            return all(d.value is not None and self.is_bool_mask(
                d.value if d.kind != "aug" else d.value.value, depth + 1) for d in vals)
        return False

    def is_numeric_const(self, e: ast.AST) -> bool:
        if isinstance(e, ast.Constant) and isinstance(e.value, (int, float)):
            return True
        if isinstance(e, ast.UnaryOp) and isinstance(e.op, ast.USub):
            return self.is_numeric_const(e.operand)
        if isinstance(e, ast.Attribute) and u(e).startswith("self.") and False:
            return True
        return False

    # -- sinks -----------------------------------------------------------------------
    def sinks(self) -> List[Tuple[ast.BinOp, str, ast.AST, ast.AST]]:
        """(mult node, kind 'mask'|'float', tainted operand, other operand)."""
        out = []
        for n in own_nodes(self.f.node):
            if isinstance(n, ast.BinOp) and isinstance(n.op, ast.Mult):
                for a, b in ((n.left, n.right), (n.right, n.left)):
                    if self.tainted(a):
                        if self.is_numeric_const(b):
                            continue
                        kind = "mask" if self.is_bool_mask(b) else "float"
                        out.append((n, kind, a, b))
                        break
            if isinstance(n, ast.AugAssign) and isinstance(n.op, ast.Mult):
                t = n.target
                if isinstance(t, ast.Name):
                    tl = ast.Name(id=t.id, ctx=ast.Load())
                    self.rd.use_defs[id(tl)] = self.rd.use_defs.get(id(t), frozenset())
                    if self.tainted(tl) and not self.is_numeric_const(n.value):
                        out.append((n, "mask" if self.is_bool_mask(n.value) else "float", t, n.value))
        return out

    def origin_params(self, e: ast.AST) -> List[str]:
        der = self.rd.derives(e)
        return sorted(der.params() - {"self"})
