"""G28: negative-zero slice bound. `x[a:-n]` drops the last n items only for n > 0: for n == 0 it is `x[a:0]`, the
empty sequence. When n is the length of a caller-supplied string (a file suffix, a separator, ...) that may be empty,
the slice silently loses everything. The safe spellings are `x[a:len(x) - n]` or a guard on n."""
from __future__ import annotations

import ast
from typing import List

from sa.astutil import call_name, guards_of, parent_map, u
from sa.defuse import ReachingDefs
from sa.model import FuncInfo, own_nodes


def negative_length_bounds(f: FuncInfo) -> List[dict]:
    out = []
    rd = None
    pm = None
    for n in own_nodes(f.node):
        if not isinstance(n, ast.Subscript):
            continue
        items = n.slice.elts if isinstance(n.slice, ast.Tuple) else [n.slice]
        for it in items:
            if not isinstance(it, ast.Slice):
                continue
            for bound in (it.upper,):
                if not (isinstance(bound, ast.UnaryOp) and isinstance(bound.op, ast.USub)) or isinstance(bound.operand, ast.Constant):
                    continue
                e = bound.operand
                rd = rd or ReachingDefs(f.node)
                is_len = any(isinstance(c, ast.Call) and call_name(c) == "len" for c in ast.walk(e))
                if not is_len:
                    is_len = any(call_name(c) == "len" for c in rd.derives(e).calls())
                if not is_len:
                    continue
                pm = pm or parent_map(f.node)
                names = {x.id for x in ast.walk(e) if isinstance(x, ast.Name)}
                guarded = False
                for t, pol in guards_of(pm, n):
                    tn = {x.id for x in ast.walk(t) if isinstance(x, ast.Name)}
                    if pol and names & tn:
                        guarded = True
                out.append(dict(node=n, bound=u(bound), ok=guarded))
    return out


def possibly_negative_stops(f: FuncInfo) -> List[dict]:
    """`x[: A - B]` where A is a data-derived size and B derives from an integer *option* of the function (or a loop counter
    bounded by it): once B exceeds A the stop is negative and Python reads it as 'all but the last B - A', not as empty."""
    out = []
    rd = ReachingDefs(f.node)
    pm = parent_map(f.node)
    params = {p.name for p in f.params}
    for n in own_nodes(f.node):
        if not isinstance(n, ast.Subscript):
            continue
        items = n.slice.elts if isinstance(n.slice, ast.Tuple) else [n.slice]
        for it in items:
            if not (isinstance(it, ast.Slice) and isinstance(it.upper, ast.BinOp) and isinstance(it.upper.op, ast.Sub)):
                continue
            a, b = it.upper.left, it.upper.right
            da, db = rd.derives(a), rd.derives(b)
            a_is_size = any(isinstance(c.func, ast.Attribute) and c.func.attr in ("size", "numel") or call_name(c) == "len" for c in da.calls()) \
                or any(isinstance(x, ast.Attribute) and x.attr == "shape" for e in da.exprs for x in ast.walk(e))
            b_from_option = bool(db.params() & params) or any(d.kind == "for" and any(
                isinstance(x, ast.Name) and x.id in params for x in ast.walk(d.value) if d.value is not None) for d in db.defs)
            b_is_length = any(call_name(c) == "len" for c in db.calls()) or any(isinstance(x, ast.Call) and call_name(x) == "len" for x in ast.walk(b))
            if not (a_is_size and b_from_option) or b_is_length:
                continue  # (the length of a matched affix never exceeds the name it was matched in: rule G4)
            names = {x.id for x in ast.walk(it.upper) if isinstance(x, ast.Name)}
            guarded = False
            for t, pol in guards_of(pm, n):
                tn = {x.id for x in ast.walk(t) if isinstance(x, ast.Name)}
                if names <= tn and any(isinstance(c, ast.Compare) for c in ast.walk(t)):
                    guarded = True
            # B clamped by A: every definition of B (or of the loop range it counts) is `min(..., A)`
            an = {x.id for x in ast.walk(a) if isinstance(x, ast.Name)}
            bdefs = [d for nm in ast.walk(b) if isinstance(nm, ast.Name) for d in rd.defs_of(nm) if d.kind != "param"]
            def _is_clamped(e):
                """e is, or derives from, `min(..., A)` (the clamp may have been given a name first)."""
                if e is None:
                    return False
                exprs = [e] + list(rd.derives(e).exprs)
                return any(isinstance(c, ast.Call) and call_name(c) == "min" and an & {x.id for x in ast.walk(c) if isinstance(x, ast.Name)}
                           for x_ in exprs for c in ast.walk(x_))
            clamped = bool(bdefs) and all(_is_clamped(d.value) for d in bdefs)
            # B is a counter of an enclosing `while B <= M` / `while B < M` with M clamped by A
            bn = {x.id for x in ast.walk(b) if isinstance(x, ast.Name)}
            cur = pm.get(n)
            while cur is not None and not clamped:
                if isinstance(cur, ast.While) and isinstance(cur.test, ast.Compare) and len(cur.test.ops) == 1:
                    l_, r_, op_ = cur.test.left, cur.test.comparators[0], cur.test.ops[0]
                    if isinstance(op_, (ast.Gt, ast.GtE)):
                        l_, r_ = r_, l_
                    if isinstance(op_, (ast.Lt, ast.LtE, ast.Gt, ast.GtE)) and isinstance(l_, ast.Name) and l_.id in bn and _is_clamped(r_):
                        clamped = True
                cur = pm.get(cur)
            out.append(dict(node=n, bound=u(it.upper), ok=guarded or clamped))
    return out
