"""G28: negative-zero slice bound. `x[a:-n]` drops the last n items only for n > 0: for n == 0 it is `x[a:0]`, the
empty sequence. When n is the length of a caller-supplied string (a file suffix, a separator, ...) that may be empty,
the slice silently loses everything. The safe spellings are `x[a:len(x) - n]` or a guard on n."""
from __future__ import annotations

import ast
from typing import List

from sa.astutil import call_name, guards_of, parent_map, u
from sa.defuse import ReachingDefs
from sa.model import FuncInfo, own_nodes


def negative_length_bounds(f: FuncInfo) -> List[dict]:
    out = []
    rd = None
    pm = None
    for n in own_nodes(f.node):
        if not isinstance(n, ast.Subscript):
            continue
        items = n.slice.elts if isinstance(n.slice, ast.Tuple) else [n.slice]
        for it in items:
            if not isinstance(it, ast.Slice):
                continue
            for bound in (it.upper,):
                if not (isinstance(bound, ast.UnaryOp) and isinstance(bound.op, ast.USub)) or isinstance(bound.operand, ast.Constant):
                    continue
                e = bound.operand
                rd = rd or ReachingDefs(f.node)
                is_len = any(isinstance(c, ast.Call) and call_name(c) == "len" for c in ast.walk(e))
                if not is_len:
                    is_len = any(call_name(c) == "len" for c in rd.derives(e).calls())
                if not is_len:
                    continue
                pm = pm or parent_map(f.node)
                names = {x.id for x in ast.walk(e) if isinstance(x, ast.Name)}
                guarded = False
                for t, pol in guards_of(pm, n):
                    tn = {x.id for x in ast.walk(t) if isinstance(x, ast.Name)}
                    if pol and names & tn:
                        guarded = True
                out.append(dict(node=n, bound=u(bound), ok=guarded))
    return out
