"""G34: row-major flat index. `T.flatten()[i + j * S]` (also view(-1) / reshape(-1)) addresses element (j, i) of a 2-D table
T of shape (R, C) only if the stride S is the number of columns C. With S = R (or anything else) the lookup is right only for
square tables - the value is silently another cell's."""
from __future__ import annotations

import ast
from typing import List

from sa.astutil import call_name, u
from sa.defuse import ReachingDefs
from sa.model import FuncInfo, own_nodes
from sa.norm import Normalizer, linear_equal

CREATORS = {"torch.empty", "torch.zeros", "torch.ones", "torch.full"}


def flat_index_sites(f: FuncInfo) -> List[dict]:
    out = []
    rd = None
    for n in own_nodes(f.node):
        if not (isinstance(n, ast.Subscript) and isinstance(n.value, ast.Call) and isinstance(n.value.func, ast.Attribute)):
            continue
        c = n.value
        flat = c.func.attr == "flatten" and not c.args or (c.func.attr in ("view", "reshape") and len(c.args) == 1 and u(c.args[0]) == "-1")
        if not flat or not isinstance(c.func.value, ast.Name):
            continue
        idx = n.slice
        if not (isinstance(idx, ast.BinOp) and isinstance(idx.op, ast.Add)):
            continue
        mults = [s for s in (idx.left, idx.right) if isinstance(s, ast.BinOp) and isinstance(s.op, ast.Mult)]
        if len(mults) != 1:
            continue
        rd = rd or ReachingDefs(f.node)
        shapes = []
        for d in rd.defs_of(c.func.value):
            v = d.value
            if d.kind == "assign" and isinstance(v, ast.Call) and call_name(v) in CREATORS and v.args \
                    and isinstance(v.args[0], (ast.Tuple, ast.List)) and len(v.args[0].elts) == 2:
                shapes.append(v.args[0].elts)
        if len(shapes) != 1:
            continue
        rows, cols = shapes[0]
        m = mults[0]
        nz = Normalizer()
        ok = linear_equal(m.left, cols, nz) or linear_equal(m.right, cols, nz)
        out.append(dict(node=n, ok=ok, stride=u(m), cols=u(cols), rows=u(rows)))
    return out
