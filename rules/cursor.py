"""G35: delete-at-cursor keeps the cursor. In a `while` loop that scans lists with an index `i` (the loop test reads `i`) and
removes the element at the cursor (`del L[i]` / `L.pop(i)`), the element that followed the removed one now sits AT `i`: a path
through one iteration that both removes at the cursor and advances the cursor skips it without looking at it."""
from __future__ import annotations

import ast
from typing import List

from sa.astutil import u
from sa.model import FuncInfo, own_nodes
from sa.paths import PathEnumerator


def cursor_skips(f: FuncInfo) -> List[dict]:
    out = []
    for w in own_nodes(f.node):
        if not isinstance(w, ast.While):
            continue
        tnames = {x.id for x in ast.walk(w.test) if isinstance(x, ast.Name)}
        dels = []
        for n in ast.walk(w):
            if isinstance(n, ast.Delete):
                for t in n.targets:
                    if isinstance(t, ast.Subscript) and isinstance(t.slice, ast.Name) and t.slice.id in tnames:
                        dels.append((n, t.slice.id))
            if isinstance(n, ast.Expr) and isinstance(n.value, ast.Call) and isinstance(n.value.func, ast.Attribute) \
                    and n.value.func.attr == "pop" and len(n.value.args) == 1 and isinstance(n.value.args[0], ast.Name) \
                    and n.value.args[0].id in tnames:
                dels.append((n, n.value.args[0].id))
        if not dels:
            continue
        idx = {i for _, i in dels}
        delset = {id(n) for n, _ in dels}

        def ev(n):
            if id(n) in delset:
                return "DEL"
            if isinstance(n, ast.AugAssign) and isinstance(n.op, ast.Add) and isinstance(n.target, ast.Name) and n.target.id in idx:
                return "INC"
            return None
        paths = PathEnumerator(ev, loop_iters=(0, 1), exc_edges=False).paths(w.body)
        bad = [p for p in paths if p.exit in ("", "fall", "continue") and "DEL" in p.labels() and "INC" in p.labels()]
        out.append(dict(node=w, ok=not bad, index=sorted(idx)[0], n_paths=len(paths),
                        path=bad[0].describe()[:200] if bad else "", dels=[u(n) for n, _ in dels]))
    return out
