"""G33: an accepted option that is never read. A formal of a function with a real body that no expression of the body loads
cannot influence the result: whatever the caller passes is silently ignored (the usual cause is a call that lost one argument).
Exempt: `self`/`cls`, *args/**kwargs, functions whose body is only a docstring / pass / raise / a single return (hooks meant to
be overridden and abstract methods), and the table below (one reason each)."""
from __future__ import annotations

import ast
from typing import List

from sa.model import FuncInfo

EXEMPT = {
    ("_mc.py", "hook", "grad"): "backward-hook signature fixed by torch; the hook replaces the gradient",
    ("_textgrid.py", "time", "non_speech_char"): "vendored TextGrid API, kept for signature compatibility",
    ("estimators.py", "check_input", "z"): "validation hook: subclasses check z, the base class only checks the rest",
}


def dead_formals(f: FuncInfo) -> List[str]:
    n = f.node
    body = [s for s in n.body if not (isinstance(s, ast.Expr) and isinstance(s.value, ast.Constant))]
    if all(isinstance(s, (ast.Pass, ast.Raise, ast.Return)) for s in body):
        return []
    a = n.args
    ps = [x.arg for x in a.posonlyargs + a.args + a.kwonlyargs]
    loads = {x.id for x in ast.walk(n) if isinstance(x, ast.Name) and isinstance(x.ctx, (ast.Load, ast.Del))}
    rel = f.module.relname.split("/")[-1]
    return [p for p in ps if p not in loads and p not in ("self", "cls") and (rel, f.name, p) not in EXEMPT]
