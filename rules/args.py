"""G1 argument selection, G2 return/unpack slots, G3 argcheck idiom, G4 affix kind."""
from __future__ import annotations

import ast
from typing import Dict, Iterable, List, Optional, Tuple

from sa.model import FuncInfo, Package, own_calls, own_nodes
from sa.resolve import Binding, Resolver, bind_args, norm_name, principal_name
from sa.report import Collector, Ob

# --- reviewed exception / alias tables (one line of reason each) ----------------
G1_EXCEPTIONS = {
    # (caller key, callee name, formal): reason
    ("_decoding.py::TokenSequenceConstraint.check", "fill_after_eos", "tokens"):
        "`value` is torch.distributions.Constraint's name for the sequence being checked",
    ("_decoding.py::SequentialLanguageModelDistribution.log_prob", "fill_after_eos", "tokens"):
        "`value` is torch.distributions.Distribution.log_prob's name for the token sequences being scored",
}
# callee formals that are single letters: reviewed alias table (formal -> caller-side name)
G1_FORMAL_ALIASES = {
    "_lookup_calc_idx_log_probs": {
        "V": "vocab_size", "N": "max_ngram", "G": "max_ngram_nodes",
        "S": "max_direct_descendants", "hidx": "idx",
    },
}
# worker dispatch idiom: F(x, options, worker, *args) => worker(item, *args)
INDIRECT = {"_multiprocessor_pattern": 2, "_multiprocessor_pattern_generator": 2}


def iter_bound_calls(pkg: Package, res: Resolver, funcs: Iterable[FuncInfo]):
    """Yield (caller, call, callee, Binding, via) for every resolved call site."""
    for ctx in funcs:
        for call in own_calls(ctx.node):
            r = res.resolve_call(call, ctx)
            if r is None:
                continue
            callees, skip, kind = r
            fname = callees[0].name
            if fname in INDIRECT and callees[0].cls is None:
                k = INDIRECT[fname]
                if len(call.args) > k and not any(
                    isinstance(a, ast.Starred) for a in call.args[: k + 1]
                ):
                    w = call.args[k]
                    wr = None
                    if isinstance(w, (ast.Name, ast.Attribute)):
                        wr = res.resolve_expr(ctx.module, w)
                    if isinstance(wr, list) and wr and isinstance(wr[0], FuncInfo):
                        for wf in wr:
                            item = ast.Name(id="<item>", ctx=ast.Load())
                            b = bind_args(call, wf, False, [item] + list(call.args[k + 1:]), [])
                            yield ctx, call, wf, b, "worker"
            for callee in callees:
                b = bind_args(call, callee, skip)
                yield ctx, call, callee, b, kind


def g1_args(pkg: Package, res: Resolver, funcs: Iterable[FuncInfo], col: Collector,
            clause: str = "S1", count_prefix: str = "g1"):
    """Positive-contradiction argument selection check over resolved call sites."""
    nsites = 0
    for ctx, call, callee, b, kind in iter_bound_calls(pkg, res, funcs):
        nsites += 1
        aliases = G1_FORMAL_ALIASES.get(callee.name, {})
        formals = {norm_name(aliases.get(p.name, p.name)): p for p in callee.params}
        # which formal is bound to an argument of which principal name
        bound_names = {}
        for p, a, how in b.pairs:
            bound_names[p.name] = principal_name(a)
        where = f"{ctx.module.relname}::{ctx.qualname}"
        # arity problems are reported for worker dispatch (the only place python itself
        # does not check them before results are produced in another process)
        if kind == "worker":
            ok = not b.extra_pos and not b.missing
            col.ob("G1", clause, f"{where}::worker-arity->{callee.name}", ok,
                   f"worker {callee.name} takes {len(callee.params)} formals; dispatch passes "
                   f"{len(b.pairs) + len(b.extra_pos)} (missing {[p.name for p in b.missing]})",
                   ctx.module.relname, call.lineno,
                   sample=dict(worker=callee.name, bound=[(p.name, ast.unparse(a)) for p, a, _ in b.pairs][:20]))
        for p, a, how in b.pairs:
            if p.kind in ("vararg", "kwarg"):
                continue
            n = principal_name(a)
            if n is None or n == "<item>":
                continue
            pn = norm_name(aliases.get(p.name, p.name))
            nn = norm_name(n)
            trivial = nn == pn
            construct = f"{where}::{callee.name}({p.name}<-{ast.unparse(a)})"
            if trivial:
                col.ob("G1", clause, construct, True, "", ctx.module.relname, call.lineno,
                       sample=dict(call=callee.name, formal=p.name, arg=ast.unparse(a), how=how),
                       nontrivial=len(callee.params) > 2)
                continue
            other = formals.get(nn)
            bad = False
            if other is not None and other.name != p.name and other.kind in ("pos", "kwonly"):
                # the callee has another formal with the argument's name that is not itself
                # bound to an argument of that name
                ob_name = bound_names.get(other.name)
                if ob_name is None or norm_name(ob_name) != nn:
                    bad = True
            if bad and (ctx.key, callee.name, p.name) in G1_EXCEPTIONS:
                bad = False
            col.ob("G1", clause, construct, not bad,
                   f"argument `{ast.unparse(a)}` is bound to formal `{p.name}` of {callee.name} "
                   f"while {callee.name} has a formal `{other.name if other else ''}` that does not receive it",
                   ctx.module.relname, call.lineno,
                   sample=dict(call=callee.name, formal=p.name, arg=ast.unparse(a), how=how))
    col.count(count_prefix + "_call_sites", nsites)
    return nsites


# ---------------------------------------------------------------------------
def _return_tuples(f: FuncInfo) -> List[List[Optional[str]]]:
    out = []
    for n in own_nodes(f.node):
        if isinstance(n, ast.Return) and n.value is not None:
            if isinstance(n.value, ast.Tuple):
                out.append([principal_name(e) for e in n.value.elts])
            else:
                out.append(None)
    return out


def g2_slots(pkg: Package, res: Resolver, funcs: Iterable[FuncInfo], col: Collector,
             clause: str = "S1"):
    """Unpack targets vs callee's returned tuple slot names."""
    nsites = 0
    for ctx in funcs:
        for n in own_nodes(ctx.node):
            if not (isinstance(n, ast.Assign) and len(n.targets) == 1
                    and isinstance(n.targets[0], ast.Tuple) and isinstance(n.value, ast.Call)):
                continue
            r = res.resolve_call(n.value, ctx)
            if r is None:
                continue
            callees = r[0]
            tgts = [principal_name(t) if not isinstance(t, ast.Starred) else None
                    for t in n.targets[0].elts]
            shapes = []
            for cal in callees:
                shapes.extend(_return_tuples(cal))
            if not shapes or any(s is None for s in shapes):
                continue
            shapes = [s for s in shapes if len(s) == len(tgts)]
            if not shapes:
                continue
            nsites += 1
            where = f"{ctx.module.relname}::{ctx.qualname}"

            def contradiction(shape):
                for i, t in enumerate(tgts):
                    if t is None or t == "_":
                        continue
                    for j, s in enumerate(shape):
                        if j != i and s is not None and norm_name(s) == norm_name(t) and (
                            shape[i] is None or norm_name(shape[i]) != norm_name(t)
                        ) and (tgts[j] is None or norm_name(tgts[j]) != norm_name(t)):
                            return (i, t, j)
                return None

            cons = [contradiction(s) for s in shapes]
            bad = all(c is not None for c in cons)
            c0 = cons[0]
            col.ob("G2", clause, f"{where}::unpack<-{callees[0].name}", not bad,
                   (f"target `{c0[1]}` in slot {c0[0]} but {callees[0].name} returns `{c0[1]}` in slot {c0[2]}"
                    if bad else ""),
                   ctx.module.relname, n.lineno,
                   sample=dict(targets=tgts, returned=shapes[0]))
    col.count("g2_unpack_sites", nsites)
    return nsites


# ---------------------------------------------------------------------------
def g3_argcheck(pkg: Package, funcs: Iterable[FuncInfo], col: Collector, clause="S3"):
    """X = argcheck.<check>(Y, ...) with simple names/attrs: X must be Y."""
    n_sites = 0
    for ctx in funcs:
        for n in own_nodes(ctx.node):
            if not (isinstance(n, ast.Assign) and len(n.targets) == 1 and isinstance(n.value, ast.Call)):
                continue
            f = n.value.func
            if not (isinstance(f, ast.Attribute) and isinstance(f.value, ast.Name)
                    and f.value.id == "argcheck"):
                continue
            if not n.value.args:
                continue
            t = n.targets[0]
            tn = principal_name(t)
            an = principal_name(n.value.args[0])
            if tn is None or an is None:
                continue
            n_sites += 1
            where = f"{ctx.module.relname}::{ctx.qualname}"
            a_, b_ = norm_name(tn), norm_name(an)
            # `self.epoch = argcheck.is_int(init_epoch)`: one name containing the other is the
            # same quantity under a qualified name; only unrelated names are a contradiction
            ok = a_ == b_ or a_ in b_ or b_ in a_
            # accept X_ = check(X): common suffix/prefix underscore forms are equal under norm_name
            col.ob("G3", clause, f"{where}::{tn}=argcheck.{f.attr}({an})", ok,
                   f"`{tn}` is assigned the validated value of `{an}`: a value validated under one "
                   f"name must be stored under that name",
                   ctx.module.relname, n.lineno, sample=dict(target=tn, validated=an, check=f.attr),
                   nontrivial=True)
    col.count("g3_argcheck_sites", n_sites)
    return n_sites


# ---------------------------------------------------------------------------
def _affix_kind(name: Optional[str]) -> Optional[str]:
    if name is None:
        return None
    n = name.lower()
    p = "prefix" in n
    s = "suffix" in n
    if p and not s:
        return "prefix"
    if s and not p:
        return "suffix"
    return None


def _expr_affix_kind(e: ast.expr) -> Optional[str]:
    """Kind of an expression that names a prefix or suffix: Name/Attribute principal name,
    or a constant reference like config.DEFT_FILE_SUFFIX."""
    n = principal_name(e)
    return _affix_kind(n)


def g4_affix(pkg: Package, res: Resolver, funcs: Iterable[FuncInfo], col: Collector, clause="S1"):
    n_sites = 0
    for ctx in funcs:
        where = f"{ctx.module.relname}::{ctx.qualname}"
        # (a) startswith / endswith
        for call in own_calls(ctx.node):
            f = call.func
            if isinstance(f, ast.Attribute) and f.attr in ("startswith", "endswith") and call.args:
                k = _expr_affix_kind(call.args[0])
                n_sites += 1
                want = "prefix" if f.attr == "startswith" else "suffix"
                ok = k is None or k == want
                col.ob("G4", clause, f"{where}::{ast.unparse(f.value)}.{f.attr}({ast.unparse(call.args[0])})",
                       ok, f"`.{f.attr}` is tested against a {k} (`{ast.unparse(call.args[0])}`)",
                       ctx.module.relname, call.lineno,
                       sample=dict(test=f.attr, arg=ast.unparse(call.args[0]), kind=k),
                       nontrivial=k is not None)
        # (b) defaults of prefix/suffix-named parameters
        for p in ctx.params:
            pk = _affix_kind(p.name)
            if pk is None or p.default is None:
                continue
            dk = _expr_affix_kind(p.default)
            n_sites += 1
            ok = dk is None or dk == pk
            col.ob("G4", clause, f"{where}::default({p.name}={ast.unparse(p.default)})", ok,
                   f"parameter `{p.name}` defaults to a {dk} constant `{ast.unparse(p.default)}`",
                   ctx.module.relname, ctx.node.lineno,
                   sample=dict(param=p.name, default=ast.unparse(p.default)), nontrivial=dk is not None)
        # (c) slicing x[len(P) : len(x) - len(S)] / x[len(P):-len(S)]
        for n in own_nodes(ctx.node):
            if isinstance(n, ast.Subscript) and isinstance(n.slice, ast.Slice):
                lo, hi = n.slice.lower, n.slice.upper
                lk = _len_affix(lo)
                hk = _len_affix(hi)
                if lk is None and hk is None:
                    continue
                n_sites += 1
                ok = (lk in (None, "prefix")) and (hk in (None, "suffix"))
                col.ob("G4", clause, f"{where}::slice[{ast.unparse(n.slice)}]", ok,
                       f"file-name slice pairs a {lk} on the left with a {hk} on the right",
                       ctx.module.relname, n.lineno, sample=dict(slice=ast.unparse(n.slice)))
    col.count("g4_affix_sites", n_sites)
    # (d) arguments passed into prefix/suffix formals
    for ctx, call, callee, b, kind in iter_bound_calls(pkg, res, funcs):
        for p, a, how in b.pairs:
            pk = _affix_kind(p.name)
            if pk is None:
                continue
            ak = _expr_affix_kind(a)
            if ak is None:
                continue
            where = f"{ctx.module.relname}::{ctx.qualname}"
            col.ob("G4", clause, f"{where}::{callee.name}({p.name}<-{ast.unparse(a)})", ak == pk,
                   f"a {ak} value `{ast.unparse(a)}` is passed as `{p.name}`",
                   ctx.module.relname, call.lineno, sample=dict(formal=p.name, arg=ast.unparse(a)))
    return n_sites


def _len_affix(e) -> Optional[str]:
    """Find len(<affix-named>) inside a slice bound; return its affix kind."""
    if e is None:
        return None
    for n in ast.walk(e):
        if isinstance(n, ast.Call) and isinstance(n.func, ast.Name) and n.func.id == "len" and n.args:
            k = _expr_affix_kind(n.args[0])
            if k is not None:
                return k
    return None


# ---------------------------------------------------------------------------
def g4_strip_matched(pkg: Package, funcs: Iterable[FuncInfo], col: Collector, clause="S1"):
    """A file name selected by `x.startswith(P)` / `x.endswith(S)` must be reduced to its id by slicing
    off exactly len(P) / len(S) of the *same* P and S - not by splitext/split/replace, which disagree
    with the filter for compound or dotted affixes."""
    from sa.defuse import ReachingDefs
    from sa.astutil import call_name, u
    n_sites = 0
    for ctx in funcs:
        tests = {}
        for n in own_nodes(ctx.node):
            if isinstance(n, ast.Call) and isinstance(n.func, ast.Attribute) and n.func.attr in ("startswith", "endswith") \
                    and isinstance(n.func.value, ast.Name) and n.args:
                tests.setdefault(n.func.value.id, {}).setdefault(n.func.attr, set()).add(u(n.args[0]))
        if not tests:
            continue
        rd = None
        where = f"{ctx.module.relname}::{ctx.qualname}"
        for n in own_nodes(ctx.node):
            # forbidden reducers on a filtered name
            if isinstance(n, ast.Call):
                tgt = None
                cn = ast.unparse(n.func)
                if cn in ("os.path.splitext", "os.path.basename") and n.args and isinstance(n.args[0], ast.Name):
                    tgt = n.args[0].id if cn == "os.path.splitext" else None
                elif isinstance(n.func, ast.Attribute) and n.func.attr in ("rsplit", "split", "replace", "strip", "rstrip", "lstrip",
                                                                           "removesuffix", "removeprefix", "partition", "rpartition") \
                        and isinstance(n.func.value, ast.Name):
                    tgt = n.func.value.id
                    if n.func.attr in ("removesuffix", "removeprefix") and n.args and u(n.args[0]) in (
                            tests.get(tgt, {}).get("endswith" if n.func.attr == "removesuffix" else "startswith", set())):
                        tgt = None
                if tgt in tests and tests[tgt].get("endswith"):
                    n_sites += 1
                    col.ob("G4", clause, f"{where}::reduce({tgt})-by-{cn.split('.')[-1]}", False,
                           f"`{u(n)[:70]}` derives an id from `{tgt}`, which was selected with endswith("
                           f"{sorted(tests[tgt]['endswith'])}); only slicing off len() of that same suffix inverts the "
                           f"filter (compound suffixes such as '.phn.TextGrid' break otherwise)", ctx.module.relname, n.lineno,
                           sample=u(n)[:100])
            if isinstance(n, ast.Subscript) and isinstance(n.value, ast.Name) and n.value.id in tests \
                    and isinstance(n.slice, ast.Slice) and isinstance(n.ctx, ast.Load):
                x = n.value.id
                lo, hi = n.slice.lower, n.slice.upper
                if lo is None and hi is None:
                    continue
                if rd is None:
                    rd = ReachingDefs(ctx.node)

                def lens_in(e):
                    out = set()
                    if e is None:
                        return out
                    for ee in rd.derives(e, max_depth=2).exprs:
                        for m in ast.walk(ee):
                            if isinstance(m, ast.Call) and isinstance(m.func, ast.Name) and m.func.id == "len" and m.args:
                                out.add(u(m.args[0]))
                    return out - {x}
                n_sites += 1
                okl = lo is None or lens_in(lo) <= tests[x].get("startswith", set())
                okh = hi is None or lens_in(hi) <= tests[x].get("endswith", set())
                # a non-trivial bound must mention the matched affix at all
                if lo is not None and not lens_in(lo):
                    okl = isinstance(lo, ast.Constant)
                if hi is not None and not lens_in(hi):
                    okh = isinstance(hi, ast.Constant) and False
                col.ob("G4", clause, f"{where}::strip({u(n)[:60]})", okl and okh,
                       f"`{u(n)}` cuts `{x}` by len({sorted(lens_in(lo) | lens_in(hi))}) but the name was selected with "
                       f"startswith({sorted(tests[x].get('startswith', []))}) / endswith({sorted(tests[x].get('endswith', []))})",
                       ctx.module.relname, n.lineno, sample=dict(slice=u(n), tests={k: sorted(v) for k, v in tests[x].items()}))
    col.count("g4_strip_sites", n_sites)
    return n_sites


def g16_stale_loop_vars(pkg: Package, funcs: Iterable[FuncInfo], col: Collector, clause="S0"):
    """A name all of whose reaching definitions lie inside a loop body, read after that loop: the value is
    that of the last iteration only (or undefined for an empty loop). Exception: search loops over a non-empty
    literal tuple/list."""
    from sa.defuse import ReachingDefs
    n_loops = 0
    for ctx in funcs:
        loops = [n for n in own_nodes(ctx.node) if isinstance(n, (ast.For, ast.While))]
        if not loops:
            continue
        rd = ReachingDefs(ctx.node)
        where = f"{ctx.module.relname}::{ctx.qualname}"
        for L in loops:
            n_loops += 1
            if isinstance(L, ast.For) and isinstance(L.iter, (ast.Tuple, ast.List)) and L.iter.elts:
                continue
            inside = {id(x) for x in ast.walk(L)}
            stale = []
            for n in own_nodes(ctx.node):
                if isinstance(n, ast.Name) and isinstance(n.ctx, ast.Load) and id(n) not in inside \
                        and n.lineno > (L.end_lineno or L.lineno):
                    ds = rd.defs_of(n)
                    if ds and all(d.stmt is not None and id(d.stmt) in inside and d.kind != "item" for d in ds):
                        stale.append(n)
            col.ob("G16", clause, f"{where}::loop@{_loop_key(L)}::no-loop-local-used-after-the-loop", not stale,
                   f"`{stale[0].id if stale else ''}` is bound only inside the loop over `{_loop_key(L)}` but read after "
                   f"it: it holds the last iteration's value (e.g. the last batch), not the whole", ctx.module.relname,
                   stale[0].lineno if stale else L.lineno, sample=[f"{n.id}@{n.lineno}" for n in stale],
                   nontrivial=False)
    col.count("g16_loops", n_loops)
    return n_loops


def _loop_key(L) -> str:
    s = ast.unparse(L.iter if isinstance(L, ast.For) else L.test)
    return s if len(s) < 50 else s[:47] + "..."


def init_copies_of_other_formals(ctx: FuncInfo):
    """[(target attribute node, value node, source formals)] for every `self.<formal> = <value>` of a constructor; the third entry is
    non-empty and lacks <formal> when the value is a bare copy of ANOTHER formal (also behind a validating `argcheck` call or a plain
    local alias) - an attribute of a parameter object (`params.eos`) or a tensor sized by another formal is something else."""
    from sa.defuse import ReachingDefs
    from sa.astutil import call_name
    if ctx.name != "__init__":
        return []
    formals = {p.name for p in ctx.params[1:]}
    if len(formals) < 2:
        return []
    rd = ReachingDefs(ctx.node)
    pairs, out = [], []
    for n in own_nodes(ctx.node):
        if isinstance(n, ast.Assign):
            for t in n.targets:
                if isinstance(t, ast.Tuple) and isinstance(n.value, ast.Tuple) and len(t.elts) == len(n.value.elts):
                    pairs += list(zip(t.elts, n.value.elts))
                else:
                    pairs.append((t, n.value))
        elif isinstance(n, ast.AnnAssign) and n.value is not None:
            pairs.append((n.target, n.value))
    for t, v in pairs:
        if not (isinstance(t, ast.Attribute) and isinstance(t.value, ast.Name) and t.value.id == "self" and t.attr in formals):
            continue
        core = v
        if isinstance(core, ast.Call) and call_name(core).startswith("argcheck.") and core.args:
            core = core.args[0]
        src = {core.id} & formals if isinstance(core, ast.Name) else set()
        if isinstance(core, ast.Name) and core.id not in formals:
            src = set(rd.derives(core).params()) & formals if all(d.kind == "assign" and isinstance(d.value, ast.Name) for d in rd.defs_of(core)) else set()
        out.append((t, v, src))
    return out


def g44_init_stores_own_formal(pkg: Package, funcs: Iterable[FuncInfo], col: Collector, clause="S0"):
    """A constructor that keeps a configuration value under the NAME of one of its formals (`self.max_freq_mask = ...` next to a formal
    `max_freq_mask`) fills it from that formal: a value that is ANOTHER formal (the neighbouring line's, after a copy and paste; also
    behind a validating argcheck call) leaves the module configured with a sibling's number - invisible while the two are given the same
    value. Values that are not bare formals (constants, buffers, attributes of a parameter object) are left alone."""
    from sa.astutil import u
    n_sites = 0
    for ctx in funcs:
        where = f"{ctx.module.relname}::{ctx.qualname}"
        for t, v, src in init_copies_of_other_formals(ctx):
            n_sites += 1
            bad = bool(src) and t.attr not in src
            col.ob("G44", clause, f"{where}::self.{t.attr}<-formal({t.attr})", not bad,
                   f"`self.{t.attr} = {u(v)[:60]}` is filled from the formal(s) {sorted(src)}, not from `{t.attr}`: the module keeps a sibling's "
                   f"configuration value under this name", ctx.module.relname, t.lineno, sample=u(v)[:80], nontrivial=False)
    col.count("g44_init_store_sites", n_sites)
    return n_sites
