"""G26: boundary space vs position space. A sequence length L ranges over the T + 1 boundaries 0..T of a time axis
of T positions. `L > arange(T)` is the usual validity mask (positions), but an *equality* `L == arange(E)` marks
the boundary L itself in an index range and needs E >= T + 1: with E == T the boundary T - i.e. every sequence that
fills the time axis, and every sequence when no lengths are given - is silently never marked."""
from __future__ import annotations

import ast
from typing import List, Optional

from sa.astutil import call_name, u
from sa.defuse import ReachingDefs
from sa.model import FuncInfo, own_nodes
from sa.norm import Normalizer, const_of, padd

STRIP = {"view", "unsqueeze", "expand", "reshape", "to", "long", "expand_as", "squeeze"}


def _strip(e):
    while True:
        if isinstance(e, ast.Call) and isinstance(e.func, ast.Attribute) and e.func.attr in STRIP:
            e = e.func.value
        else:
            return e


def _is_time_extent_def(d, first_param: str) -> bool:
    v = d.value
    if v is None:
        return False
    if d.kind == "unpack" and d.slot == (1,) and isinstance(v, ast.Subscript) and u(v.value) == f"{first_param}.shape":
        return True
    if d.kind == "unpack" and isinstance(v, ast.Tuple) and d.slot and len(d.slot) == 1 and d.slot[0] < len(v.elts):
        v = v.elts[d.slot[0]]
    from sa.astutil import extent_of as _eo
    if _eo(v) == (first_param, 1):
        return True
    if isinstance(v, ast.Subscript) and u(v.value) == f"{first_param}.shape" and isinstance(v.slice, ast.Constant) \
            and v.slice.value == 1:
        return True
    return False


def length_equals_position(f: FuncInfo) -> List[dict]:
    rd = ReachingDefs(f.node)
    if not f.params:
        return []
    first = f.params[0].name if f.params[0].name not in ("self", "cls") else (f.params[1].name if len(f.params) > 1 else None)
    if first is None:
        return []
    lens_params = {p.name for p in f.params if p.name.endswith("lens")}
    out = []
    for n in own_nodes(f.node):
        sides = None
        if isinstance(n, ast.Compare) and len(n.ops) == 1 and isinstance(n.ops[0], ast.Eq):
            sides = (n.left, n.comparators[0])
        elif isinstance(n, ast.Call) and isinstance(n.func, ast.Attribute) and n.func.attr == "eq" and len(n.args) == 1:
            sides = (n.func.value, n.args[0])
        if not sides:
            continue
        for a, b in (sides, sides[::-1]):
            a0, b0 = _strip(a), _strip(b)
            # b0: an un-sliced arange name; a0: derives from a *lens parameter
            if not (isinstance(b0, ast.Name) and isinstance(a0, ast.Name)):
                continue
            exts = []
            for d in rd.defs_of(b0):
                v = d.value
                if d.kind == "assign" and isinstance(v, ast.Call) and call_name(v) == "torch.arange" and len(v.args) == 1:
                    exts.append(v.args[0])
                else:
                    exts = None
                    break
            if not exts:
                continue
            der = rd.derives(a0)
            if not (der.params() & lens_params):
                continue
            nz = Normalizer()
            for e in exts:
                # T names inside the extent
                tnames = [x for x in ast.walk(e) if isinstance(x, ast.Name) and any(
                    _is_time_extent_def(d, first) for d in rd.defs_of(x))]
                if not tnames:
                    continue
                c = const_of(padd(nz.poly(e), nz.poly(tnames[0]), -1))
                out.append(dict(node=n, length=u(a0), extent=u(e), ok=(c is not None and c >= 1), slack=c))
            break
    return out
