"""G38 / G39: things that are computed or accepted and then silently not used.

G38 (same-named option left to the callee's default): a function that itself accepts an option `p` calls a function of the package
that also has a formal `p`, and the call leaves the callee's `p` to its default. The wrapper's caller set `p` and the work is done
as if it had not (the functional `spec_augment` applying parameters without `lengths`, a Module forwarding everything but its
`value`). The candidates on the reference tree were read one by one; the coincidences of names are frozen in EXEMPT.

G39 (discarded result of an out-of-place operation): an expression statement `x.log_softmax(-1)` computes a new tensor and drops
it - the author meant `x = x.log_softmax(-1)` or the in-place form. The reference tree has no such statement."""
from __future__ import annotations

import ast
from typing import List

from sa.astutil import u
from sa.model import FuncInfo, own_calls, own_nodes
from sa.resolve import bind_args

# (caller qualname, callee qualname, formal): the two formals only share a name
EXEMPT = {
    ("TokenSequenceConstraint.check", "fill_after_eos", "value"),  # `value` = the sample being checked vs the fill value
    ("SequentialLanguageModelDistribution.log_prob", "fill_after_eos", "value"),  # idem
    ("optimal_completion", "_string_matching", "padding"),  # the kernel's `padding` is unused in mask mode; the caller pads itself
}


def dropped_options(pkg, res, f: FuncInfo) -> List[dict]:
    own = {p.name for p in f.params}
    if not own:
        return []
    out = []
    rd = None
    for c in own_calls(f.node):
        stars = [k for k in c.keywords if k.arg is None]
        if len(stars) == 1 and isinstance(stars[0].value, ast.Name) and not any(isinstance(a, ast.Starred) for a in c.args):
            # f(..., **kw) with kw a local dict: the keys it can hold are those of the dict display it was last assigned, plus the
            # keys stored into it item by item. A whole-dict re-assignment that lacks a key loses it.
            try:
                r = res.resolve_call(c, f)
            except Exception:
                r = None
            if not r:
                continue
            g = r[0][-1]
            if rd is None:
                from sa.defuse import ReachingDefs
                rd = ReachingDefs(f.node)
            nm = stars[0].value
            whole = [d for d in rd.defs_of(nm) if d.kind == "assign"]
            if not whole or not all(isinstance(d.value, ast.Dict) and all(isinstance(k, ast.Constant) for k in d.value.keys) for d in whole):
                continue
            item_keys = {n.targets[0].slice.value for n in own_nodes(f.node) if isinstance(n, ast.Assign) and len(n.targets) == 1
                         and isinstance(n.targets[0], ast.Subscript) and isinstance(n.targets[0].value, ast.Name) and n.targets[0].value.id == nm.id
                         and isinstance(n.targets[0].slice, ast.Constant)}
            formals = [p for p in g.params if p.name not in ("self", "cls")]
            covered = {p.name for p in formals[:len(c.args)]} | {k.arg for k in c.keywords if k.arg}
            for d in whole:
                keys = {k.value for k in d.value.keys} | item_keys
                for p in formals:
                    if p.name in own and p.name not in covered and p.name not in keys and (f.qualname, g.qualname, p.name) not in EXEMPT:
                        out.append(dict(node=c, callee=g.qualname, formal=p.name))
            continue
        if any(isinstance(a, ast.Starred) for a in c.args) or any(k.arg is None for k in c.keywords):
            continue  # (*args / other **kwargs: what is forwarded is not visible here)
        try:
            r = res.resolve_call(c, f)
        except Exception:
            r = None
        if not r:
            continue
        g = r[0][-1]
        if g is f:
            continue
        try:
            b = bind_args(c, g, r[1])
        except Exception:
            continue
        for p in b.defaulted:
            if p.name in own and (f.qualname, g.qualname, p.name) not in EXEMPT:
                out.append(dict(node=c, callee=g.qualname, formal=p.name))
    return out


PURE_METHODS = {
    "log_softmax", "softmax", "masked_fill", "masked_scatter", "clamp", "clamp_min", "clamp_max", "unsqueeze", "squeeze", "to", "float",
    "long", "double", "half", "bool", "int", "t", "transpose", "view", "expand", "expand_as", "flatten", "sum", "mean", "exp", "log", "cumsum", "gather",
    "index_select", "masked_select", "abs", "neg", "floor", "ceil", "round", "type_as", "contiguous", "reshape", "permute", "detach",
    "clone", "tril", "triu", "topk", "argmax", "argmin", "logsumexp", "cumprod", "prod", "flip", "roll", "repeat", "index_fill", "scatter",
    "scatter_add", "index_add", "index_copy", "where", "square", "sqrt", "pow", "sigmoid", "tanh", "relu", "narrow", "unflatten", "chunk", "split",
}
PURE_FUNCS = {"torch.cat", "torch.stack", "torch.where", "torch.min", "torch.max", "torch.clamp", "torch.log_softmax", "torch.softmax",
              "torch.nn.functional.log_softmax", "torch.nn.functional.softmax", "torch.exp", "torch.log", "torch.masked_fill",
              "torch.gather", "torch.index_select", "torch.flatten", "torch.transpose"}


def discarded_results(f: FuncInfo) -> List[ast.AST]:
    from sa.astutil import call_name
    out = []
    for st in own_nodes(f.node):
        if isinstance(st, ast.Expr) and isinstance(st.value, ast.Call):
            c = st.value
            if (isinstance(c.func, ast.Attribute) and c.func.attr in PURE_METHODS and not call_name(c).startswith(("warnings.", "logging."))) \
                    or call_name(c) in PURE_FUNCS:
                out.append(st)
    return out


def vacuous_any_of_self_comparison(f: FuncInfo) -> List[ast.AST]:
    """G42: `(x == x.flatten()[0]).any()` / `(x == x[0]).any()` - 'some entry equals the first entry' is always true (the first
    entry equals itself). The test was meant to be `.all()` ('all entries are equal')."""
    out = []
    for c in own_nodes(f.node):
        if not (isinstance(c, ast.Call) and isinstance(c.func, ast.Attribute) and c.func.attr == "any" and not c.args):
            continue
        cmp_ = c.func.value
        if not (isinstance(cmp_, ast.Compare) and len(cmp_.ops) == 1 and isinstance(cmp_.ops[0], ast.Eq)):
            continue
        for a, b in ((cmp_.left, cmp_.comparators[0]), (cmp_.comparators[0], cmp_.left)):
            e = b
            if isinstance(e, ast.Subscript) and u(e.slice) in ("0", "(0,)"):
                e = e.value
                while isinstance(e, ast.Call) and isinstance(e.func, ast.Attribute) and e.func.attr in ("flatten", "view", "reshape", "ravel", "contiguous"):
                    e = e.func.value
                if u(e) == u(a):
                    out.append(c)
    return out


# G43 (in-place operation on a view of a caller's tensor): `start = slices[..., 0].contiguous(); start.clamp_min_(0)` - basic
# indexing, `contiguous()`, `view`, `transpose` ... return the caller's own storage (contiguous() returns its receiver whenever the
# layout already is contiguous, e.g. a one-row table), so the in-place method rewrites the ARGUMENT: the next call with the same
# tensor sees other data. The reference tree has no such call (in-place methods are applied to fresh temporaries only).
ALIASING = {"contiguous", "view", "reshape", "squeeze", "unsqueeze", "transpose", "t", "permute", "expand", "expand_as", "detach", "flatten",
            "narrow", "unflatten", "view_as", "diagonal", "select", "unbind", "chunk", "split"}
NOT_DATA = {"requires_grad_", "share_memory_", "retain_grad_", "register_hook_"}


def _basic_index(s: ast.AST) -> bool:
    parts = s.elts if isinstance(s, ast.Tuple) else [s]
    for p in parts:
        if isinstance(p, (ast.Slice, ast.Constant)):
            continue
        if isinstance(p, ast.UnaryOp) and isinstance(p.operand, ast.Constant):
            continue
        return False
    return True


def _alias_root(e: ast.AST) -> ast.AST:
    while True:
        if isinstance(e, ast.Subscript) and _basic_index(e.slice):
            e = e.value
        elif isinstance(e, ast.Call) and isinstance(e.func, ast.Attribute) and e.func.attr in ALIASING:
            e = e.func.value
        elif isinstance(e, ast.Attribute) and e.attr in ("T", "data"):
            e = e.value
        else:
            return e


def inplace_on_parameter_views(f: FuncInfo) -> List[dict]:
    params = {p.name for p in f.params if p.name not in ("self", "cls")}
    a = f.node.args
    params -= {x.arg for x in (a.vararg, a.kwarg) if x is not None}
    if not params:
        return []
    out = []
    rd = inl = None
    for n in own_nodes(f.node):
        if not (isinstance(n, ast.Call) and isinstance(n.func, ast.Attribute) and n.func.attr.endswith("_") and not n.func.attr.endswith("__")
                and not n.func.attr.startswith("_") and n.func.attr not in NOT_DATA):
            continue
        if rd is None:
            from sa.defuse import ReachingDefs
            from sa.inline import Inliner
            rd = ReachingDefs(f.node)
            inl = Inliner(f.node, rd)
        r = _alias_root(n.func.value)
        seen = 0
        while isinstance(r, ast.Name) and r.id not in params and seen < 6:
            # a local: every definition must be an alias of the same parameter for the call to be reported
            defs = [d for d in rd.defs_of(r)]
            if len(defs) != 1 or defs[0].kind != "assign" or defs[0].value is None:
                break
            r = _alias_root(defs[0].value)
            seen += 1
        if isinstance(r, ast.Name) and r.id in params and all(d.kind == "param" for d in rd.defs_of(r)):
            out.append(dict(node=n, param=r.id))
    # `v -= k` / `v[i] += k` on a tensor is in place too: reported when `v` is a VIEW of a parameter annotated as a tensor (basic indexing,
    # view(), transpose() ... of it, directly or through single-definition locals) - a bare integer parameter re-bound by `n += 1` is not
    tensor_params = {x.arg for x in list(a.args) + list(a.kwonlyargs) if x.annotation is not None and "Tensor" in ast.unparse(x.annotation)}
    for n in own_nodes(f.node):
        if not (isinstance(n, ast.AugAssign) and isinstance(n.op, (ast.Add, ast.Sub, ast.Mult, ast.Div, ast.FloorDiv, ast.Mod, ast.Pow, ast.BitAnd, ast.BitOr))):
            continue
        if rd is None:
            from sa.defuse import ReachingDefs
            rd = ReachingDefs(f.node)
        t = n.target
        load = ast.parse(ast.unparse(t), mode="eval").body if not isinstance(t, ast.Name) else None
        r = _alias_root(load) if load is not None else t
        if not isinstance(r, ast.Name):
            continue
        # (a Name parsed out of a subscripted target carries no reaching definitions of its own: they are looked up at the statement)
        steps, cur = 0, r
        while isinstance(cur, ast.Name) and steps < 6:
            defs = list(rd.defs_of(cur)) if (load is None or cur is not r) else _defs_at(rd, n, cur.id)
            if cur.id in tensor_params and defs and all(d.kind == "param" for d in defs):
                out.append(dict(node=n, param=cur.id))
                break
            if len(defs) != 1 or defs[0].kind != "assign" or defs[0].value is None:
                break
            nxt = _alias_root(defs[0].value)
            if nxt is defs[0].value and not isinstance(nxt, ast.Name):
                break  # (a computed value - a tensor of its own)
            cur = nxt
            steps += 1
    return out


def _defs_at(rd, stmt, name):
    env = rd.stmt_env_in.get(id(stmt), {})
    return list(env.get(name, ()))
