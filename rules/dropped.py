"""G38 / G39: things that are computed or accepted and then silently not used.

G38 (same-named option left to the callee's default): a function that itself accepts an option `p` calls a function of the package
that also has a formal `p`, and the call leaves the callee's `p` to its default. The wrapper's caller set `p` and the work is done
as if it had not (the functional `spec_augment` applying parameters without `lengths`, a Module forwarding everything but its
`value`). The candidates on the reference tree were read one by one; the coincidences of names are frozen in EXEMPT.

G39 (discarded result of an out-of-place operation): an expression statement `x.log_softmax(-1)` computes a new tensor and drops
it - the author meant `x = x.log_softmax(-1)` or the in-place form. The reference tree has no such statement."""
from __future__ import annotations

import ast
from typing import List

from sa.astutil import u
from sa.model import FuncInfo, own_calls, own_nodes
from sa.resolve import bind_args

# (caller qualname, callee qualname, formal): the two formals only share a name
EXEMPT = {
    ("TokenSequenceConstraint.check", "fill_after_eos", "value"),  # `value` = the sample being checked vs the fill value
    ("SequentialLanguageModelDistribution.log_prob", "fill_after_eos", "value"),  # idem
    ("optimal_completion", "_string_matching", "padding"),  # the kernel's `padding` is unused in mask mode; the caller pads itself
}


def dropped_options(pkg, res, f: FuncInfo) -> List[dict]:
    own = {p.name for p in f.params}
    if not own:
        return []
    out = []
    rd = None
    for c in own_calls(f.node):
        stars = [k for k in c.keywords if k.arg is None]
        if len(stars) == 1 and isinstance(stars[0].value, ast.Name) and not any(isinstance(a, ast.Starred) for a in c.args):
            # f(..., **kw) with kw a local dict: the keys it can hold are those of the dict display it was last assigned, plus the
            # keys stored into it item by item. A whole-dict re-assignment that lacks a key loses it.
            try:
                r = res.resolve_call(c, f)
            except Exception:
                r = None
            if not r:
                continue
            g = r[0][-1]
            if rd is None:
                from sa.defuse import ReachingDefs
                rd = ReachingDefs(f.node)
            nm = stars[0].value
            whole = [d for d in rd.defs_of(nm) if d.kind == "assign"]
            if not whole or not all(isinstance(d.value, ast.Dict) and all(isinstance(k, ast.Constant) for k in d.value.keys) for d in whole):
                continue
            item_keys = {n.targets[0].slice.value for n in own_nodes(f.node) if isinstance(n, ast.Assign) and len(n.targets) == 1
                         and isinstance(n.targets[0], ast.Subscript) and isinstance(n.targets[0].value, ast.Name) and n.targets[0].value.id == nm.id
                         and isinstance(n.targets[0].slice, ast.Constant)}
            formals = [p for p in g.params if p.name not in ("self", "cls")]
            covered = {p.name for p in formals[:len(c.args)]} | {k.arg for k in c.keywords if k.arg}
            for d in whole:
                keys = {k.value for k in d.value.keys} | item_keys
                for p in formals:
                    if p.name in own and p.name not in covered and p.name not in keys and (f.qualname, g.qualname, p.name) not in EXEMPT:
                        out.append(dict(node=c, callee=g.qualname, formal=p.name))
            continue
        if any(isinstance(a, ast.Starred) for a in c.args) or any(k.arg is None for k in c.keywords):
            continue  # (*args / other **kwargs: what is forwarded is not visible here)
        try:
            r = res.resolve_call(c, f)
        except Exception:
            r = None
        if not r:
            continue
        g = r[0][-1]
        if g is f:
            continue
        try:
            b = bind_args(c, g, r[1])
        except Exception:
            continue
        for p in b.defaulted:
            if p.name in own and (f.qualname, g.qualname, p.name) not in EXEMPT:
                out.append(dict(node=c, callee=g.qualname, formal=p.name))
    return out


PURE_METHODS = {
    "log_softmax", "softmax", "masked_fill", "masked_scatter", "clamp", "clamp_min", "clamp_max", "unsqueeze", "squeeze", "to", "float",
    "long", "double", "half", "bool", "int", "t", "transpose", "view", "expand", "expand_as", "flatten", "sum", "mean", "exp", "log", "cumsum", "gather",
    "index_select", "masked_select", "abs", "neg", "floor", "ceil", "round", "type_as", "contiguous", "reshape", "permute", "detach",
    "clone", "tril", "triu", "topk", "argmax", "argmin", "logsumexp", "cumprod", "prod", "flip", "roll", "repeat", "index_fill", "scatter",
    "scatter_add", "index_add", "index_copy", "where", "square", "sqrt", "pow", "sigmoid", "tanh", "relu", "narrow", "unflatten", "chunk", "split",
}
PURE_FUNCS = {"torch.cat", "torch.stack", "torch.where", "torch.min", "torch.max", "torch.clamp", "torch.log_softmax", "torch.softmax",
              "torch.nn.functional.log_softmax", "torch.nn.functional.softmax", "torch.exp", "torch.log", "torch.masked_fill",
              "torch.gather", "torch.index_select", "torch.flatten", "torch.transpose"}


def discarded_results(f: FuncInfo) -> List[ast.AST]:
    from sa.astutil import call_name
    out = []
    for st in own_nodes(f.node):
        if isinstance(st, ast.Expr) and isinstance(st.value, ast.Call):
            c = st.value
            if (isinstance(c.func, ast.Attribute) and c.func.attr in PURE_METHODS and not call_name(c).startswith(("warnings.", "logging."))) \
                    or call_name(c) in PURE_FUNCS:
                out.append(st)
    return out


def vacuous_any_of_self_comparison(f: FuncInfo) -> List[ast.AST]:
    """G42: `(x == x.flatten()[0]).any()` / `(x == x[0]).any()` - 'some entry equals the first entry' is always true (the first
    entry equals itself). The test was meant to be `.all()` ('all entries are equal')."""
    out = []
    for c in own_nodes(f.node):
        if not (isinstance(c, ast.Call) and isinstance(c.func, ast.Attribute) and c.func.attr == "any" and not c.args):
            continue
        cmp_ = c.func.value
        if not (isinstance(cmp_, ast.Compare) and len(cmp_.ops) == 1 and isinstance(cmp_.ops[0], ast.Eq)):
            continue
        for a, b in ((cmp_.left, cmp_.comparators[0]), (cmp_.comparators[0], cmp_.left)):
            e = b
            if isinstance(e, ast.Subscript) and u(e.slice) in ("0", "(0,)"):
                e = e.value
                while isinstance(e, ast.Call) and isinstance(e.func, ast.Attribute) and e.func.attr in ("flatten", "view", "reshape", "ravel", "contiguous"):
                    e = e.func.value
                if u(e) == u(a):
                    out.append(c)
    return out
