"""G27: `X.as_strided(size, stride, offset)` takes an *absolute* storage offset. Unless the offset expression adds
`X.storage_offset()` (or X is provably a fresh allocation), the view ignores where X itself starts in its storage:
for a sliced input (`tokens[1:]`, a column of a batch, ...) it silently reads other elements. `.contiguous()` does not
help - a contiguous slice keeps its offset."""
from __future__ import annotations

import ast
from typing import List

from sa.astutil import call_name, kwarg, u
from sa.defuse import ReachingDefs
from sa.model import FuncInfo, own_nodes

FRESH = {"torch.empty", "torch.zeros", "torch.ones", "torch.full", "torch.arange", "torch.tensor", "torch.cat",
         "torch.stack", "torch.rand", "torch.randn", "torch.randint"}
FRESH_METHODS = {"clone", "new_empty", "new_zeros", "new_ones", "new_full", "repeat"}


def absolute_offset_views(f: FuncInfo) -> List[dict]:
    rd = None
    out = []
    for n in own_nodes(f.node):
        if not (isinstance(n, ast.Call) and (
                (isinstance(n.func, ast.Attribute) and n.func.attr in ("as_strided", "as_strided_")) or
                call_name(n) == "torch.as_strided")):
            continue
        if isinstance(n.func, ast.Attribute) and call_name(n) != "torch.as_strided":
            recv, args = n.func.value, list(n.args)
        else:
            recv, args = n.args[0], list(n.args[1:])
        off = args[2] if len(args) >= 3 else kwarg(n, "storage_offset")
        if off is None:
            # default offset: torch uses the receiver's own offset
            out.append(dict(node=n, recv=u(recv), offset=None, ok=True, why="default offset"))
            continue
        from sa.inline import Inliner
        inl = Inliner(f.node)
        offx = inl.expand(off)  # the offset may have been given a name first
        recvx = inl.text(recv)
        mentions = any(isinstance(c, ast.Call) and isinstance(c.func, ast.Attribute) and c.func.attr == "storage_offset"
                       and u(c.func.value) in (u(recv), recvx) for c in list(ast.walk(offx)) + list(ast.walk(off)))
        fresh = False
        if isinstance(recv, ast.Name):
            rd = rd or ReachingDefs(f.node)
            ds = list(rd.defs_of(recv))
            fresh = bool(ds) and all(
                d.kind == "assign" and isinstance(d.value, ast.Call) and (
                    call_name(d.value) in FRESH or (isinstance(d.value.func, ast.Attribute) and d.value.func.attr in FRESH_METHODS))
                for d in ds)
        out.append(dict(node=n, recv=u(recv), offset=u(off), ok=mentions or fresh,
                        why="adds the receiver's storage_offset()" if mentions else ("fresh allocation" if fresh else "absolute offset")))
    return out
