#!/venv/bin/python
"""Static checks for the 20 given properties of pydrobert-pytorch.

usage: check.py Cxx [--tier quick|thorough]

Exit 0: every obligation of the property's structural clauses discharged (known
findings printed). Exit 1: `VIOLATION property=<id> replay=<path>`. Exit 2:
`ANALYSIS-ERROR` (the checker cannot interpret the tree) - never a VIOLATION line.
Nothing from /repo is imported or executed.
"""
import argparse
import importlib
import os
import sys
import time
import traceback

HERE = os.path.dirname(os.path.abspath(__file__))
sys.path.insert(0, HERE)
sys.dont_write_bytecode = True


def main(argv=None):
    ap = argparse.ArgumentParser()
    ap.add_argument("prop")
    ap.add_argument("--tier", default=os.environ.get("VERIF_TIER", "quick"), choices=["quick", "thorough"])
    ap.add_argument("--replay", default=None, help="print a recorded violation file")
    ap.add_argument("--repo", default=None)
    a = ap.parse_args(argv)
    if a.replay:
        print(open(a.replay).read())
        return 0
    if a.repo:
        os.environ["VERIF_REPO"] = a.repo
    seed = int(os.environ.get("VERIF_SEED", "0") or 0)
    t0 = time.time()
    from sa.model import AnalysisError, Package
    from sa.resolve import Resolver
    from sa.report import Collector, finish
    from props.common import Ctx

    prop = a.prop.upper()
    try:
        pkg = Package(a.repo)
        res = Resolver(pkg)
        col = Collector(prop)
        ctx = Ctx(pkg, res, col, a.tier, prop)
        mod = importlib.import_module("props." + prop.lower())
        meta = mod.run(ctx) or {}
        meta.setdefault("cmd", f"/venv/bin/python /verif/check.py {prop} --tier {a.tier}")
        meta["digest"] = pkg.digest.hexdigest()[:16]
        if a.tier == "thorough" and hasattr(mod, "selftest"):
            meta["selftest"] = mod.selftest(ctx)
        return finish(col, a.tier, seed, t0, meta)
    except AnalysisError as e:
        print(f"ANALYSIS-ERROR property={prop}: {e}")
        return 2
    except Exception:
        print(f"ANALYSIS-ERROR property={prop}: internal error")
        traceback.print_exc()
        return 2


if __name__ == "__main__":
    sys.exit(main())
