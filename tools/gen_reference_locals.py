#!/venv/bin/python
"""gen_reference_locals.py: write sa/reference_locals.json - for every function of the reference tree (/repo at the commit the
rules were written against) the names it binds. sa/fold.py folds only temporaries that are NOT in this table."""
import ast
import json
import os
import sys

SRC = "/repo/src/pydrobert/torch"
out = {}
for fn in sorted(os.listdir(SRC)):
    if not fn.endswith(".py"):
        continue
    tree = ast.parse(open(os.path.join(SRC, fn), encoding="utf-8").read())
    mod = fn[:-3]

    def visit(node, prefix):
        for st in getattr(node, "body", []):
            if isinstance(st, ast.ClassDef):
                visit(st, prefix + st.name + ".")
            elif isinstance(st, (ast.FunctionDef, ast.AsyncFunctionDef)):
                names = sorted({n.id for n in ast.walk(st) if isinstance(n, ast.Name) and isinstance(n.ctx, (ast.Store, ast.Del))})
                out[f"{mod}::{prefix}{st.name}"] = names
                visit(st, prefix + st.name + ".")
    visit(tree, "")
json.dump(out, open(os.path.join(os.path.dirname(os.path.dirname(os.path.abspath(__file__))), "sa", "reference_locals.json"), "w"), indent=0, sort_keys=True)
print(len(out), "functions")
