#!/venv/bin/python
"""try_mechanical.py [prop ...]: run the mechanical restructuring twins (selftest/mutate.py::MECHANICAL_TWINS) for the given
properties and list every false alarm / analysis error in full."""
import os
import sys
from concurrent.futures import ProcessPoolExecutor

HERE = os.path.dirname(os.path.dirname(os.path.abspath(__file__)))
sys.path.insert(0, HERE)
sys.dont_write_bytecode = True


def one(args):
    prop, name = args
    from selftest import mutate as M
    mk = dict(M.MECHANICAL_TWINS)[name]
    scratch = M.make_scratch("/repo")
    import ast
    import shutil
    try:
        pk = os.path.join(scratch, "src/pydrobert/torch")
        for fn in os.listdir(pk):
            if fn.endswith(".py"):
                p = os.path.join(pk, fn)
                tree = ast.parse(open(p, encoding="utf-8").read())
                tree = mk().visit(tree)
                ast.fix_missing_locations(tree)
                open(p, "w", encoding="utf-8").write(ast.unparse(tree))
        try:
            v, k = M.run_prop_on(prop, scratch)
            return (prop, name, "FALSE-ALARM" if v else "silent", [f"{o.rule}/{o.clause} {o.construct}\n          {o.msg[:300]}" for o in v])
        except Exception as e:
            return (prop, name, "ANALYSIS-ERROR", [f"{type(e).__name__}: {e}"[:600]])
    finally:
        shutil.rmtree(scratch, ignore_errors=True)


def main(argv):
    from selftest import mutate as M
    props = [a for a in argv if a.startswith("C")] or [f"C{i:02d}" for i in range(1, 21)]
    names = [a for a in argv if a.startswith("twin:")] or [n for n, _ in M.MECHANICAL_TWINS]
    jobs = [(p, n) for p in props for n in names]
    bad = 0
    with ProcessPoolExecutor(max_workers=8) as ex:
        for prop, name, status, details in ex.map(one, jobs):
            if status != "silent":
                bad += 1
                print(f"{prop} {name:40s} {status} x{len(details)}")
                for d in details[:6]:
                    print("      " + d)
    print(f"{len(jobs) - bad}/{len(jobs)} silent")
    return 1 if bad else 0


if __name__ == "__main__":
    sys.exit(main(sys.argv[1:]))
