import json,sys
import os
pid=sys.argv[1]; wt=sys.argv[2]; n=sys.argv[3] if len(sys.argv)>3 else "2"
out=os.path.dirname(wt.rstrip("/"))
for l in open('/verif/properties.jsonl'):
    p=json.loads(l)
    if p['id']==pid: break
import glob
prior=[]
for mf in sorted(glob.glob('/verif/seeded/%s-*/meta.json' % pid)):
    try:
        prior.append("  - " + json.load(open(mf))["breaks"][:260])
    except Exception:
        pass
prior_txt = ("\nEarlier rounds already produced the following changes for this property; do NOT repeat them or close variants (same line, same slip) - find different sites and different kinds of slips:\n" + "\n".join(prior) + "\n") if prior else ""
mech="\n".join(f"  - {m['name']} ({m['where']})" for m in p['anchors']['mechanism'])
print(f"""You are helping test a verification tool by writing realistic *bug-seeding* patches for the Python library pydrobert-pytorch (speech/ML utilities on PyTorch). Work ONLY inside your own scratch git worktree: {wt} (a checkout of the library; source under {wt}/src/pydrobert/torch, tests under {wt}/tests). Do not touch /repo or /verif, and do not read anything under /verif.

PROPERTY {p['id']}: {p['title']}
Statement: {p['statement']}
Quantifier: {p['quantifier']['text']}
Why the existing tests cannot settle it: {p['why_tests_cant']}
Relevant files: {', '.join(p['anchors']['files'])}
Mechanisms in the code meant to make it hold:
{mech}

{prior_txt}
TASK: produce {n} DIFFERENT, independent source changes (each a separate small patch against the clean worktree) that each BREAK this property while the library still imports and the EXISTING test suite still passes. Each change must be a realistic slip a developer could make (swapped/dropped argument, off-by-one, wrong variable, reordered statements, dropped guard, wrong mode/constant, stale state, ...), NOT something ordinary use would expose at once: it should need something specific to manifest (an unusual input, a particular configuration/flag combination, a multi-step sequence, a crash/fault at a particular point, or two cooperating sites that each look fine alone). Prefer variety: the changes should break different aspects/clauses of the property and touch different functions; look beyond the most obvious line - secondary code paths, option combinations, helper functions, the Module wrappers and command-line drivers named in the statement are all fair game.

For each change i (1..{n}):
 1. Start from the clean tree (`git -C {wt} checkout -- . && git -C {wt} clean -fdq`), make the edit(s) under src/ only (never edit tests/).
 2. Write a demonstration script {out}/{pid}-demo-i.py (OUTSIDE the worktree) — a small standalone Python program (or pytest file) that exercises the public API and exits non-zero / fails WITH the change and exits 0 / passes WITHOUT it. Run it as `cd /tmp && OMP_NUM_THREADS=1 PYTHONPATH={wt}/src /venv/bin/python <demo>` (PYTHONPATH makes the worktree's sources override the installed package; verify with `python -c "import pydrobert.torch,sys;print(pydrobert.torch.__file__)"`). Confirm both directions yourself (with the patch applied: fails; after `git diff > patch; git checkout -- .`: passes; NEVER use git stash, it is shared between worktrees).
 3. Confirm the existing tests still pass with the change: run the relevant test files, e.g. `cd {wt} && OMP_NUM_THREADS=1 MKL_NUM_THREADS=1 PYTHONPATH={wt}/src /venv/bin/python -m pytest -q -p no:cacheprovider -n 3 --timeout=900 tests/<relevant files>`; do NOT run the whole suite (the machine is shared; the coordinator runs it). ALWAYS prefix python/pytest commands with `OMP_NUM_THREADS=1 MKL_NUM_THREADS=1` and use at most `-n 3`. On the clean tree exactly one test fails already and is unrelated: tests/test_command_line.py::test_torch_token_data_dir_to_textgrids may or may not fail depending on the checkout; ignore it. Avoid --num-workers > 0 style multiprocessing from stdin scripts (hangs); write scripts to files and give every command a timeout.
 4. Save the patch: `git -C {wt} diff > {out}/{pid}-patch-i.diff`, then restore the clean tree.

Constraints: no network; do not install anything; do not modify tests; keep each patch small (a few lines). The patched library must still import and compile.

FINAL REPORT (your final message): for each change: the patch file path, the demo file path, one paragraph saying which aspect of the property it breaks, what specific input/configuration/sequence is needed for it to manifest, and exactly which commands you ran with their outcomes (demo with/without patch; test files; relevant test files with pass/fail counts). If you could not produce a change that keeps the tests green, say so honestly rather than weakening the requirement.""")
