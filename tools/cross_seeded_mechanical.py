#!/venv/bin/python
"""cross_seeded_mechanical.py [prop ...]: every seeded (property-breaking) change followed by each mechanical whole-package
restructuring (selftest/mutate.py::MECHANICAL_TWINS and the rename-all-locals transformer). The check must still report a
violation: the normalisations that make the rules blind to layout (if orientation, folding of new temporaries, guard clauses)
must not make them blind to the defect."""
import ast
import glob
import json
import os
import shutil
import subprocess
import sys
from concurrent.futures import ProcessPoolExecutor

HERE = os.path.dirname(os.path.dirname(os.path.abspath(__file__)))
sys.path.insert(0, HERE)
sys.dont_write_bytecode = True


def one(args):
    prop, seed, tname = args
    from selftest import mutate as M
    makers = dict(M.MECHANICAL_TWINS)
    makers["twin:rename-all-locals"] = M._LocalRenamer
    scratch = M.make_scratch("/repo")
    try:
        r = subprocess.run(["patch", "-p1", "-s", "--no-backup-if-mismatch", "-i", seed], cwd=scratch, capture_output=True, text=True)
        if r.returncode != 0:
            return (prop, seed, tname, "n/a", "")
        pk = os.path.join(scratch, "src/pydrobert/torch")
        for fn in os.listdir(pk):
            if fn.endswith(".py"):
                p = os.path.join(pk, fn)
                tree = ast.parse(open(p, encoding="utf-8").read())
                tree = makers[tname]().visit(tree)
                ast.fix_missing_locations(tree)
                open(p, "w", encoding="utf-8").write(ast.unparse(tree))
        try:
            v, k = M.run_prop_on(prop, scratch)
            return (prop, seed, tname, "DETECTED" if v else "MISSED", f"{v[0].rule}/{v[0].clause} {v[0].construct}"[:120] if v else "")
        except Exception as e:
            return (prop, seed, tname, "ANALYSIS-ERROR", f"{type(e).__name__}: {e}"[:200])
    finally:
        shutil.rmtree(scratch, ignore_errors=True)


def main(argv):
    from selftest import mutate as M
    props = argv or [f"C{i:02d}" for i in range(1, 21)]
    names = [n for n, _ in M.MECHANICAL_TWINS] + ["twin:rename-all-locals"]
    jobs = []
    for prop in props:
        for s in sorted(d for d in glob.glob(os.path.join(HERE, "seeded", f"{prop}-*")) if os.path.isdir(d)):
            if os.environ.get("VERIF_CROSS_SINCE") and int(os.path.basename(s).rsplit("-", 1)[1]) <= int(os.environ["VERIF_CROSS_SINCE"]):
                continue  # (an increment: only seeds newer than that index)
            for n in names:
                jobs.append((prop, os.path.join(s, "patch.diff"), n))
    tally = {}
    with ProcessPoolExecutor(max_workers=12) as ex:
        for prop, seed, tname, status, detail in ex.map(one, jobs, chunksize=2):
            tally[status] = tally.get(status, 0) + 1
            if status not in ("n/a", "DETECTED"):
                print(f"{status:15s} {os.path.basename(os.path.dirname(seed)):8s} + {tname:40s} {detail}")
    print("summary:", json.dumps(tally))
    return 1 if tally.get("MISSED") else 0


if __name__ == "__main__":
    sys.exit(main(sys.argv[1:]))
