#!/venv/bin/python
"""refactor_agent_prompt.py <property id> <worktree> [n]: prompt for a sub-agent that writes BEHAVIOUR-PRESERVING edits of the
code a property is anchored in. The checks must stay silent on every one of them (tools/try_patches.py prints DETECTED for a
false alarm and ANALYSIS-ERROR for an idiom the checker does not recognise). The agent gets the property text and a scratch
worktree only - nothing from /verif."""
import json
import os
import sys

pid = sys.argv[1]
wt = sys.argv[2]
n = sys.argv[3] if len(sys.argv) > 3 else "4"
EMPHASIS = {
    "": "",
    "w3": ("For this round prefer edit kinds that change the SHAPE of the code more deeply than renaming or naming a temporary: reorder the arms of an if/elif chain "
           "(with the tests adjusted so the same arm runs), merge two nested ifs into one `and` test or split an `and` test into nested ifs, replace an if/elif chain over a "
           "string option by a dict lookup or vice versa (only where exactly equivalent, including the error for an unknown value), turn `for ... : if c: continue` into "
           "`for ...: if not c: ...`, replace a while loop by a for loop over a range (or back) where the trip count is evident, hoist a loop-invariant computation out of a loop, "
           "fuse two consecutive loops over the same range or split one loop into two, replace `a if c else b` by an if/else statement, compute a value earlier or later "
           "(still before its first use and after the definitions it reads), swap the operands of a commutative tensor op, rewrite `x - y > 0` style tests only when exactly "
           "equivalent for the dtype, replace an in-place tensor update by the out-of-place one assigned to the same name (only when no alias of the tensor is live), "
           "pass an argument by keyword instead of position or back, split a function's long body with a nested closure or a private helper that returns a tuple. "),
    "w5": ("For this round prefer edit kinds that change HOW a value is computed or represented, not only where: integer arithmetic re-associated or rewritten exactly "
           "(`a - b + c` <-> `a + c - b`; `n - n % w` <-> `n // w * w` for non-negative ints; `(a + b - 1) // b` <-> `-(-a // b)`), boolean algebra (De Morgan, `not a == b` <-> `a != b`, "
           "`a < b` <-> `b > a`, a flag variable replaced by the test it stores or the reverse, two flags merged into one small integer/enum-like local or split), data representation of "
           "intermediates (a tuple <-> separate variables, a dict <-> parallel lists, `list.append` loop <-> comprehension, building a result incrementally <-> in one expression), "
           "function <-> method forms of tensor ops (`torch.sum(x, 1)` <-> `x.sum(1)`, `torch.where(m, a, b)` <-> `a.masked_fill(~m, ...)` only when exactly equal incl. dtype), "
           "chained calls split over statements or merged, a private helper (module-level, static, or instance method) with several return statements / guard clauses extracted from the "
           "middle of a function or inlined back, a loop-carried variable renamed and its update moved to the top or bottom of the loop body when equivalent, default values moved between "
           "the signature of a PRIVATE helper and its call sites. Keep public signatures, defaults, messages and exception types exactly as they are. "),
}
emph = EMPHASIS.get(sys.argv[4] if len(sys.argv) > 4 else "", "")
out = os.path.dirname(wt.rstrip("/"))
for l in open('/verif/properties.jsonl'):
    p = json.loads(l)
    if p['id'] == pid:
        break
mech = "\n".join(f"  - {m['name']} ({m['where']})" for m in p['anchors']['mechanism'])
print(f"""You are helping test a static-analysis verification tool for the Python library pydrobert-pytorch (speech/ML utilities on PyTorch). The tool must NOT raise an alarm on code that is still correct. Your job is to write realistic, BEHAVIOUR-PRESERVING maintenance edits ("refactorings") of the code that implements one property, so that we can see whether the tool wrongly complains. Work ONLY inside your own scratch git worktree: {wt} (a checkout of the library; source under {wt}/src/pydrobert/torch, tests under {wt}/tests). Do not touch /repo or /verif, and do not read anything under /verif.

PROPERTY {p['id']}: {p['title']}
Statement: {p['statement']}
Relevant files: {', '.join(p['anchors']['files'])}
Code that implements it:
{mech}

TASK: produce {n} DIFFERENT, independent patches (each against the clean worktree) that each rewrite part of the code listed above WITHOUT changing its behaviour for any input - the kind of edit a maintainer makes while tidying up. Each patch should combine two or three edits in the functions listed above (and their Module wrappers / command-line drivers where the statement names them). Use a variety of edit kinds across the patches, for example:
  - rename local variables (not parameters, not public names); introduce a well-named temporary for a sub-expression, or inline a single-use temporary;
  - reorder two adjacent statements that do not depend on each other; turn `if a: return x` + fall-through into if/else or back; flip an `if not c: A else: B` into `if c: B else: A`;
  - swap an idiom for its exact equivalent: `x.size(0)` <-> `x.shape[0]`; `t.masked_fill(m, v)` <-> `torch.where(m, torch.full_like(t, v), t)` (only where dtype/broadcast are identical); `-float("inf")` <-> `float("-inf")` <-> `-math.inf` (if math is imported); `a.unsqueeze(1)` <-> `a[:, None]`; `x.clamp(min=0)` <-> `x.clamp_min(0)`; `torch.cat([a, b], 1)` <-> `torch.cat((a, b), dim=1)`; positional <-> keyword arguments in internal calls; `a - b` <-> `a + (-b)` is NOT wanted (keep it natural); comprehension <-> explicit loop; `"...".format(x)` <-> f-string; `len(x) == 0` <-> `not x` for lists;
  - split a long chained expression into two statements, or join two statements into one expression;
  - move an argument check a few lines (still before first use), or merge two consecutive checks;
  - extract a few lines into a small private helper function in the same module and call it (keep TorchScript-compatibility where the function is decorated with @script: type-annotate the helper and decorate it with @script too), or inline a tiny private helper.
{emph}Spread the edits: at least one patch should concentrate on secondary code paths (argument validation, the Module wrapper, the command-line driver, option handling, error branches) rather than the main computation, and at least one should restructure control flow (guard clauses <-> if/else, loop <-> comprehension, merging or splitting branches, hoisting a common statement out of two branches or duplicating it into them).
Every patch MUST keep the observable behaviour exactly the same for ALL inputs (same values, same dtypes, same exceptions for invalid input, same files written in the same order). Do not fix bugs, do not change defaults, messages may keep their text. If you are not sure an edit is exactly equivalent, do not make it. Keep each patch moderate (5-40 changed lines). Do not only rename: at most one patch may be rename-only.

For each patch i (1..{n}):
 1. Start from the clean tree (`git -C {wt} checkout -- . && git -C {wt} clean -fdq`), edit under src/ only (never tests/).
 2. Run the relevant existing test files and confirm they pass exactly as on the clean tree: `cd {wt} && OMP_NUM_THREADS=1 MKL_NUM_THREADS=1 PYTHONPATH={wt}/src /venv/bin/python -m pytest -q -p no:cacheprovider -n 3 --timeout=900 tests/<relevant files>` (at most `-n 3`; do NOT run the whole suite; ALWAYS set OMP_NUM_THREADS=1 MKL_NUM_THREADS=1; give commands a timeout; tests/test_command_line.py::test_torch_token_data_dir_to_textgrids may fail on the clean tree too - ignore it). Also write a short script {out}/{pid}-same-i.py that calls the touched public functions on a few dozen random inputs (fixed seeds) and prints a digest of the outputs; run it on the clean tree and on the patched tree (`cd /tmp && OMP_NUM_THREADS=1 PYTHONPATH={wt}/src /venv/bin/python <script>`) and confirm the two digests are identical.
 3. Save the patch: `git -C {wt} diff > {out}/{pid}-patch-i.diff`, then restore the clean tree. NEVER use git stash (shared between worktrees).

Constraints: no network; do not install anything; do not modify tests. The patched library must import, and @script-decorated functions must still compile (importing the module compiles them).

FINAL REPORT (your final message): for each patch: the patch file path, a one-line list of the edits in it, and the test/digest commands you ran with their outcomes. If some edit turned out not to be equivalent and you dropped it, say so.""")
