#!/bin/bash
# usage: confirm_seeded.sh <id> <patch.diff> <demo.py> <test files...>
# Confirms in a scratch worktree (removed afterwards): demo passes without the patch, fails with it,
# and the listed existing tests pass with the patch applied.
id=$1; patch=$2; demo=$3; shift 3
wt=/tmp/wtc/$id
export OMP_NUM_THREADS=1 MKL_NUM_THREADS=1
mkdir -p /tmp/wtc
git -C /repo worktree add -q --detach $wt HEAD || exit 3
cleanup() { git -C /repo worktree remove --force $wt; }
trap cleanup EXIT
cd /tmp
if [[ $demo == *test_*.py || $(head -5 $demo | grep -c pytest) -gt 0 ]]; then runner="/venv/bin/python -m pytest -q -p no:cacheprovider -x"; else runner="/venv/bin/python"; fi
PYTHONPATH=$wt/src timeout 900 $runner $demo > /tmp/wtc/$id.clean.log 2>&1; c=$?
git -C $wt apply $patch || { echo "$id: PATCH DOES NOT APPLY"; exit 4; }
PYTHONPATH=$wt/src timeout 900 $runner $demo > /tmp/wtc/$id.patched.log 2>&1; p=$?
t=0
if [ $# -gt 0 ]; then
  (cd $wt && PYTHONPATH=$wt/src timeout 3000 /venv/bin/python -m pytest -q -p no:cacheprovider -n 4 --timeout=900 "$@" > /tmp/wtc/$id.tests.log 2>&1); t=$?
fi
echo "$id: demo clean exit=$c patched exit=$p tests exit=$t :: $(tail -1 /tmp/wtc/$id.tests.log 2>/dev/null)"
