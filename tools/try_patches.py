#!/venv/bin/python
"""try_patches.py <dir> [prop ...]: run the property's check against every <dir>/<prop>-patch-<i>.diff on a scratch copy
of /repo (never /repo itself). Prints DETECTED / MISSED / PATCH-FAILED per patch."""
import glob
import os
import re
import shutil
import subprocess
import sys

HERE = os.path.dirname(os.path.dirname(os.path.abspath(__file__)))
sys.path.insert(0, HERE)
sys.dont_write_bytecode = True
from selftest.mutate import make_scratch, run_prop_on  # noqa: E402


def main(argv):
    d = argv[0]
    props = argv[1:]
    for p in sorted(glob.glob(os.path.join(d, "C*-patch-*.diff"))):
        m = re.match(r"(C\d\d)-patch-(\d+)\.diff", os.path.basename(p))
        if not m or (props and m.group(1) not in props):
            continue
        prop = m.group(1)
        scratch = make_scratch("/repo")
        try:
            r = subprocess.run(["patch", "-p1", "-s", "--no-backup-if-mismatch", "-i", p], cwd=scratch, capture_output=True, text=True)
            if r.returncode != 0:
                print(f"{os.path.basename(p):22s} PATCH-FAILED {r.stdout.strip()[:80]}")
                continue
            try:
                v, k = run_prop_on(prop, scratch)
                if v:
                    print(f"{os.path.basename(p):22s} DETECTED  {v[0].rule}/{v[0].clause} {v[0].construct}"[:200])
                else:
                    print(f"{os.path.basename(p):22s} MISSED")
            except Exception as e:
                print(f"{os.path.basename(p):22s} ANALYSIS-ERROR {type(e).__name__}: {e}"[:200])
        finally:
            shutil.rmtree(scratch, ignore_errors=True)


if __name__ == "__main__":
    main(sys.argv[1:])
