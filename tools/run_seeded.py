#!/venv/bin/python
"""Run the registered checks against every seeded change under /verif/seeded/<id>/.

Each seeded change is applied to a *scratch copy* of /repo's sources (never to /repo), the
property's check is run on the copy (in-process, no evidence written), and the copy is removed.
Prints one line per seeded change: DETECTED (with the first reported construct) or MISSED.
usage: run_seeded.py [id-prefix ...]
"""
import json
import os
import shutil
import subprocess
import sys

HERE = os.path.dirname(os.path.dirname(os.path.abspath(__file__)))
sys.path.insert(0, HERE)
sys.dont_write_bytecode = True

from selftest.mutate import make_scratch, run_prop_on  # noqa: E402


def main(argv):
    repo = os.environ.get("VERIF_REPO", "/repo")
    root = os.path.join(HERE, "seeded")
    rows = []
    for sid in sorted(os.listdir(root)):
        d = os.path.join(root, sid)
        if not os.path.isdir(d) or (argv and not any(sid.startswith(a) for a in argv)):
            continue
        meta = json.load(open(os.path.join(d, "meta.json")))
        prop = meta["property"]
        scratch = make_scratch(repo)
        try:
            r = subprocess.run(["patch", "-p1", "-s", "--no-backup-if-mismatch", "-i", os.path.join(d, "patch.diff")],
                               cwd=scratch, capture_output=True, text=True)
            if r.returncode != 0:
                rows.append((sid, prop, "PATCH-FAILED", r.stdout.strip()[:100]))
                continue
            try:
                v, k = run_prop_on(prop, scratch)
                if v:
                    rows.append((sid, prop, "DETECTED", f"{v[0].rule}/{v[0].clause} {v[0].construct}"[:150]))
                else:
                    rows.append((sid, prop, "MISSED", meta.get("breaks", "")[:100]))
            except Exception as e:
                rows.append((sid, prop, "ANALYSIS-ERROR", f"{type(e).__name__}: {e}"[:150]))
        finally:
            shutil.rmtree(scratch, ignore_errors=True)
    for r in rows:
        print("%-10s %-4s %-14s %s" % r)
    det = sum(1 for r in rows if r[2] == "DETECTED")
    print(f"{det}/{len(rows)} detected")
    return 0


if __name__ == "__main__":
    sys.exit(main(sys.argv[1:]))
