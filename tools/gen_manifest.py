#!/venv/bin/python
"""Regenerate /verif/MANIFEST.json from the per-property metadata in props/*.py."""
import importlib
import json
import os
import sys

HERE = os.path.dirname(os.path.dirname(os.path.abspath(__file__)))
sys.path.insert(0, HERE)
sys.dont_write_bytecode = True

BASE = ("cd /repo && /venv/bin/python -m pytest -ra -q -p no:cacheprovider --timeout=900 "
        "--continue-on-collection-errors")


def main():
    ids = [json.loads(l)["id"] for l in open(os.path.join(HERE, "properties.jsonl"))]
    checks, na = [], []
    for pid in ids:
        try:
            mod = importlib.import_module("props." + pid.lower())
        except ModuleNotFoundError:
            na.append(dict(property_id=pid, reason="no sound structural clause built for this property"))
            continue
        man = getattr(mod, "MANIFEST", None)
        if man is None or man.get("not_applicable"):
            na.append(dict(property_id=pid, reason=(man or {}).get(
                "not_applicable", "check under construction; no statement-level clause claimed yet")))
            continue
        checks.append(dict(
            property_id=pid,
            quick_cmd=f"/venv/bin/python /verif/check.py {pid} --tier quick",
            thorough_cmd=f"/venv/bin/python /verif/check.py {pid} --tier thorough",
            evidence_file=f"/verif/evidence/{pid}.json",
            replay_cmd_template="/venv/bin/python /verif/check.py " + pid + " --replay {path}",
            engine="sa",
            level_claimed=dict(category="other", text=man["level_text"], design_ref=man.get("design_ref", "DESIGN.md section 4")),
            level_note=man["level_note"],
            technique=man["technique"],
        ))
    m = dict(
        version=1,
        setup_cmd="true",
        hooks=dict(
            guard="PYDROBERT_TORCH_VERIF",
            enable="none needed: the checks parse /repo's sources with python's ast; nothing is instrumented, "
                   "the guard variable is unused",
            baseline_off_cmd=BASE,
            source_commits=[],
            add_only=True,
        ),
        engines=[dict(name="sa", path="/verif/sa + /verif/rules + /verif/props",
                      serves_properties=[c["property_id"] for c in checks],
                      kind_free_text="repository-specific static analysis over python ast: resolved call graph, "
                                     "argument binding, syntax-directed path enumeration, reaching definitions, "
                                     "linear-form normalisation; no code from /repo is imported or executed")],
        checks=checks,
        notes="Every claimed check decides the *structural clauses* listed in its level text (necessary "
              "conditions of the behavioural property), not the behaviour itself; see DESIGN.md section 4 for what "
              "is and is not decided per property. exit 2 + ANALYSIS-ERROR means the checker cannot interpret "
              "the tree (never a VIOLATION). Known findings: /verif/known_findings.json.",
        not_applicable=na,
    )
    with open(os.path.join(HERE, "MANIFEST.json"), "w") as f:
        json.dump(m, f, indent=1)
    print(f"{len(checks)} checks, {len(na)} not applicable")


if __name__ == "__main__":
    main()
