#!/venv/bin/python
"""cross_seeded_refactors.py [prop ...] (VERIF_CROSS_SINCE=<twin>:<seed> restricts to increments): every seeded (property-breaking) change applied ON TOP OF every behaviour-preserving
refactor twin of the same property, where both patches apply. The check must still report a violation: detection must not depend
on the code having the shape the rules were written against. Prints one line per combination that applies and a summary."""
import glob
import json
import os
import shutil
import subprocess
import sys
from concurrent.futures import ProcessPoolExecutor

HERE = os.path.dirname(os.path.dirname(os.path.abspath(__file__)))
sys.path.insert(0, HERE)
sys.dont_write_bytecode = True


def one(args):
    prop, ref, seed = args
    from selftest.mutate import make_scratch, run_prop_on
    scratch = make_scratch("/repo")
    try:
        for p in (ref, seed):
            r = subprocess.run(["patch", "-p1", "-F0", "--no-backup-if-mismatch", "-i", p], cwd=scratch, capture_output=True, text=True)
            if r.returncode != 0:
                return (prop, ref, seed, "n/a", "")
            import re
            if any(abs(int(m)) > 40 for m in re.findall(r"offset (-?\d+) line", r.stdout)):
                return (prop, ref, seed, "n/a", "")  # the hunk matched look-alike context in another function
        try:
            v, k = run_prop_on(prop, scratch)
            return (prop, ref, seed, "DETECTED" if v else "MISSED", f"{v[0].rule}/{v[0].clause} {v[0].construct}"[:120] if v else "")
        except Exception as e:
            return (prop, ref, seed, "ANALYSIS-ERROR", f"{type(e).__name__}: {e}"[:160])
    finally:
        shutil.rmtree(scratch, ignore_errors=True)


def main(argv):
    props = argv or [f"C{i:02d}" for i in range(1, 21)]
    jobs = []
    for prop in props:
        refs = sorted(glob.glob(os.path.join(HERE, "selftest", "refactors", f"{prop}-refactor-*.diff")))
        seeds = sorted(d for d in glob.glob(os.path.join(HERE, "seeded", f"{prop}-*")) if os.path.isdir(d))
        # VERIF_CROSS_SINCE="<twin index>:<seed index>": only combinations in which the twin or the seed is newer than that (an increment)
        since = os.environ.get("VERIF_CROSS_SINCE")
        for r in refs:
            for s in seeds:
                if since:
                    ti, si = (int(x) for x in since.split(":"))
                    tn = int(os.path.basename(r)[:-5].rsplit("-", 1)[1])
                    sn = int(os.path.basename(s).rsplit("-", 1)[1])
                    if tn <= (ti if prop != "C05" else ti - 3) and sn <= si:
                        continue
                jobs.append((prop, r, os.path.join(s, "patch.diff")))
    tally = {}
    with ProcessPoolExecutor(max_workers=12) as ex:
        for prop, ref, seed, status, detail in ex.map(one, jobs, chunksize=2):
            tally[status] = tally.get(status, 0) + 1
            if status not in ("n/a", "DETECTED"):
                print(f"{status:15s} {os.path.basename(ref)[:-5]:20s} + {os.path.basename(os.path.dirname(seed)):8s} {detail}")
    print("summary:", json.dumps(tally))
    return 1 if tally.get("MISSED") or tally.get("ANALYSIS-ERROR") else 0


if __name__ == "__main__":
    sys.exit(main(sys.argv[1:]))
