#!/venv/bin/python
"""add_seeded.py <id> <property> <patch> <demo> <breaks> <needs> <ran> : register a confirmed seeded change."""
import json, os, shutil, sys
sid, prop, patch, demo, breaks, needs, ran = sys.argv[1:8]
d = os.path.join(os.path.dirname(os.path.dirname(os.path.abspath(__file__))), "seeded", sid)
os.makedirs(d, exist_ok=True)
shutil.copy(patch, os.path.join(d, "patch.diff"))
shutil.copy(demo, os.path.join(d, "demo.py"))
json.dump(dict(id=sid, property=prop, breaks=breaks, needs_to_manifest=needs, confirmed=ran,
               source="independent sub-agent given only the property text and a scratch worktree"),
          open(os.path.join(d, "meta.json"), "w"), indent=1)
print("added", d)
