"""hunt_agent_prompt.py <prop> <worktree>: prompt for a sub-agent that looks for inputs on which the CURRENT library
violates a property (no patches). Used only to discover candidates; every candidate is then re-derived by a static rule."""
import json, os, sys
pid = sys.argv[1]; wt = sys.argv[2]; out = os.path.dirname(wt.rstrip("/"))
for l in open('/verif/properties.jsonl'):
    p = json.loads(l)
    if p['id'] == pid:
        break
mech = "\n".join(f"  - {m['name']} ({m['where']})" for m in p['anchors']['mechanism'])
print(f"""You are auditing the Python library pydrobert-pytorch (speech/ML utilities on PyTorch) against one stated property. Work ONLY inside your own scratch git worktree: {wt} (sources under {wt}/src/pydrobert/torch, tests under {wt}/tests). Do not touch /repo or /verif, do not read anything under /verif, do not edit any file of the worktree.

PROPERTY {p['id']}: {p['title']}
Statement: {p['statement']}
Quantifier: {p['quantifier']['text']}
Relevant files: {', '.join(p['anchors']['files'])}
Mechanisms in the code meant to make it hold:
{mech}
Public entry points to observe: {', '.join(p['anchors']['observe_at'])}

TASK: find concrete inputs / configurations / call sequences for which the library AS IT IS violates this statement (wrong result, exception on a legal input, silently ignored option, stale state, ...). Read the code of the anchors and of the Module wrappers / command-line drivers named above carefully and think about corner cases the existing tests do not exercise: unusual but legal argument combinations (negative dims, omitted optional lengths, empty sequences, sequences that fill the padded dimension, widths larger than the vocabulary, equal-but-non-unit costs, options left at their defaults vs. explicitly given, batch sizes 0/1), views/slices as inputs, in-place edits by the caller between calls, exceptions in the middle of stateful methods, multiple calls on the same object. Write small independent oracles (plain Python) and randomized comparisons where useful. Run everything as `cd /tmp && OMP_NUM_THREADS=1 MKL_NUM_THREADS=1 PYTHONPATH={wt}/src timeout 600 /venv/bin/python <script>` (verify `pydrobert.torch.__file__` points into the worktree). Write scripts to files under {out}/ (name them {pid}-hunt-*.py); never run multiprocessing pools from stdin; give every command a timeout; use at most 3 parallel processes; do not run the test suite.

Only report REAL violations of the statement that you reproduced, each with: (1) a minimal script path that exits non-zero on the current code, (2) the exact input and the observed vs. expected result, (3) the file/function/line you believe is the root cause and a one-paragraph explanation, (4) whether an existing test encodes the faulty behaviour (grep tests/). Ignore floating-point noise, documentation typos and behaviour the docstrings explicitly declare. If you find nothing after a thorough search, say so and list what you covered. FINAL REPORT = that list.""")
