#!/bin/bash
cd /verif
for i in 01 02 03 04 05 06 07 08 09 10 11 12 13 14 15 16 17 18 19 20; do
  ( s=$(date +%s); out=$(/venv/bin/python check.py C$i --tier thorough 2>&1; echo "rc=$?"); rc=$(echo "$out" | tail -1); out=$(echo "$out" | grep -v "^KNOWN\|^rc=" | tail -1 | cut -c1-110); echo "C$i ($(( $(date +%s)-s ))s) $rc $out" ) &
  if (( $(jobs -r | wc -l) >= 4 )); then wait -n; fi
done; wait
