#!/venv/bin/python
"""try_refactors.py <dir> [prop ...]: run the property's check against every behaviour-preserving <dir>/<prop>-patch-<i>.diff on
a scratch copy. A silent check prints `silent`; every violation (a false alarm) or analysis error is listed in full."""
import glob
import os
import re
import shutil
import subprocess
import sys

HERE = os.path.dirname(os.path.dirname(os.path.abspath(__file__)))
sys.path.insert(0, HERE)
sys.dont_write_bytecode = True
from selftest.mutate import make_scratch, run_prop_on  # noqa: E402


def main(argv):
    d = argv[0]
    props = argv[1:]
    bad = 0
    for p in sorted(glob.glob(os.path.join(d, "C*-patch-*.diff")) + glob.glob(os.path.join(d, "C*-refactor-*.diff"))):
        m = re.match(r"(C\d\d)-(?:patch|refactor)-(\d+)\.diff", os.path.basename(p))
        if not m or (props and m.group(1) not in props):
            continue
        prop = m.group(1)
        scratch = make_scratch("/repo")
        try:
            r = subprocess.run(["patch", "-p1", "-s", "--no-backup-if-mismatch", "-i", p], cwd=scratch, capture_output=True, text=True)
            if r.returncode != 0:
                print(f"{os.path.basename(p):24s} PATCH-FAILED {r.stdout.strip()[:80]}")
                continue
            try:
                v, k = run_prop_on(prop, scratch)
                if v:
                    bad += 1
                    print(f"{os.path.basename(p):24s} FALSE-ALARM x{len(v)}")
                    for x in v:
                        print(f"      {x.rule}/{x.clause} {x.construct}\n          {x.msg[:300]}")
                else:
                    print(f"{os.path.basename(p):24s} silent")
            except Exception as e:
                bad += 1
                print(f"{os.path.basename(p):24s} ANALYSIS-ERROR {type(e).__name__}: {e}"[:400])
        finally:
            shutil.rmtree(scratch, ignore_errors=True)
    return 1 if bad else 0


if __name__ == "__main__":
    sys.exit(main(sys.argv[1:]))
