"""C08 SpecAugment: forwarding (G5/G1), parameter-tuple slot roles (G2), eval identity (G9),
mask-only path / fill value (G10/G16), time<->frequency sibling symmetry and draw forms (G12)."""
from __future__ import annotations

import ast
import copy
import re
from typing import Dict, Optional

from rules import fwd as R_fwd
from sa.astutil import call_name, guards_of, kwarg, parent_map, u
from sa.defuse import ReachingDefs
from sa.model import AnalysisError, own_calls, own_nodes
from sa.norm import Normalizer, pstr
from sa.paths import PathEnumerator
from sa.resolve import bind_args
from .common import Ctx, plumbing

MOD = "_img"
WRAPPERS = {"spec_augment_draw_parameters", "spec_augment_apply_parameters", "spec_augment", "warp_1d_grid",
            "polyharmonic_spline", "dense_image_warp", "sparse_image_warp"}


class _Strip(ast.NodeTransformer):
    """Remove shape/device no-ops so that tensor-valued and scalar-valued siblings compare: x.unsqueeze(k) -> x,
    x.to(device) -> x, torch.rand(...) -> RAND, clamp(x, lo, hi) -> min(max(x, lo), hi)."""

    def visit_Call(self, node):
        self.generic_visit(node)
        f = node.func
        if isinstance(f, ast.Attribute) and f.attr in ("unsqueeze", "to", "float") and not call_name(node).startswith("torch."):
            return f.value
        if call_name(node) in ("torch.rand",):
            return ast.Name(id="RAND", ctx=ast.Load())
        if isinstance(f, ast.Attribute) and f.attr == "clamp" and len(node.args) == 2 and not call_name(node).startswith("torch."):
            return ast.Call(func=ast.Name(id="min", ctx=ast.Load()), args=[
                ast.Call(func=ast.Name(id="max", ctx=ast.Load()), args=[f.value, node.args[0]], keywords=[]), node.args[1]], keywords=[])
        if call_name(node) == "torch.clamp" and node.args and kwarg(node, "max") is not None and kwarg(node, "min") is None:
            return ast.Call(func=ast.Name(id="min", ctx=ast.Load()), args=[node.args[0], kwarg(node, "max")], keywords=[])
        return node


def _canon(e: ast.AST, ren: Dict[str, str]) -> str:
    e2 = _Strip().visit(copy.deepcopy(e))
    ast.fix_missing_locations(e2)
    nz = Normalizer(rename=lambda s: ren.get(s, s))
    return nz.expr_str(e2)


def run(ctx: Ctx):
    col, pkg, res = ctx.col, ctx.pkg, ctx.res
    rel = pkg.module(MOD).relname
    draw = pkg.func(f"{MOD}::spec_augment_draw_parameters")
    app = pkg.func(f"{MOD}::spec_augment_apply_parameters")
    sa = pkg.func(f"{MOD}::spec_augment")
    fwd = pkg.func(f"{MOD}::SpecAugment.forward")

    # ---- S1 forwarding -------------------------------------------------------------------------------------
    R_fwd.g5_module_pairs(pkg, res, col, only=WRAPPERS, clause="S1")
    col.floor("g5_pairs", col.counts.get("g5_pairs", 0), 6)
    for f, callee in ((sa, draw), (sa, app)):
        cs = [c for c in own_calls(f.node) if call_name(c) == callee.name]
        if len(cs) != 1:
            raise AnalysisError(f"C08: spec_augment does not call {callee.name} once")
        b = bind_args(cs[0], callee, False)
        for p, a, _ in b.pairs:
            # (`params`: the drawn tuple, by name or as the draw call written in place)
            ok = u(a) == p.name or (p.name == "params" and (isinstance(a, ast.Name) or (isinstance(a, ast.Call) and call_name(a) == draw.name)))
            col.ob("G1", "S1", f"{rel}::spec_augment::{callee.name}({p.name}<-{u(a)})", ok,
                   f"`{p.name}` of {callee.name} receives `{u(a)}` (the ten configuration values are mutually "
                   f"transposable numbers)", rel, cs[0].lineno, sample=dict(formal=p.name, arg=u(a)))
    # SpecAugment.forward composes draw + apply like spec_augment (sibling): same callee sequence, same eval gate
    seq_f = [c.func.attr for c in own_calls(fwd.node) if isinstance(c.func, ast.Attribute) and u(c.func.value) == "self"
             and c.func.attr in ("draw_parameters", "apply_parameters")]
    col.ob("G5", "S1", f"{rel}::SpecAugment.forward::draw-then-apply", seq_f == ["draw_parameters", "apply_parameters"],
           f"SpecAugment.forward calls {seq_f}", rel, fwd.line)
    for c in own_calls(fwd.node):
        if isinstance(c.func, ast.Attribute) and c.func.attr == "draw_parameters":
            col.ob("G1", "S1", f"{rel}::SpecAugment.forward::draw_parameters(feats, lengths)", [u(a) for a in c.args] == ["feats", "lengths"],
                   f"draw_parameters called with {[u(a) for a in c.args]}", rel, c.lineno)
        if isinstance(c.func, ast.Attribute) and c.func.attr == "apply_parameters":
            col.ob("G1", "S1", f"{rel}::SpecAugment.forward::apply_parameters(feats, params, lengths)",
                   len(c.args) == 3 and u(c.args[0]) == "feats" and u(c.args[2]) == "lengths",
                   f"apply_parameters called with {[u(a) for a in c.args]}", rel, c.lineno)

    # ---- S2 parameter tuple: slot roles agree where drawn and where applied ---------------------------------------
    rdd = ReachingDefs(draw.node)
    ret = [st for st, _ in rdd.return_envs][-1]
    if not (isinstance(ret.value, ast.Tuple) and len(ret.value.elts) == 8):
        raise AnalysisError("C08: draw_parameters does not return an 8-tuple")
    want_src = [("max_time_warp", "max_freq_warp"), ("max_time_warp", "max_freq_warp"), ("max_freq_warp", "max_time_warp"),
                ("max_freq_warp", "max_time_warp"), ("max_time_mask", "max_freq_mask"), ("max_time_mask", "max_freq_mask"),
                ("max_freq_mask", "max_time_mask"), ("max_freq_mask", "max_time_mask")]
    slot_ok = []
    for i, e in enumerate(ret.value.elts):
        der = rdd.derives(e, value_flow=True)
        ps = der.params()
        slot_ok.append(want_src[i][0] in ps and want_src[i][1] not in ps)
    col.ob("G2", "S2", f"{rel}::spec_augment_draw_parameters::slot-sources", all(slot_ok),
           f"returned slots derive from the expected limits: {slot_ok} for (time warp x2, freq warp x2, time mask x2, freq "
           f"mask x2)", rel, ret.lineno, sample=[u(e) for e in ret.value.elts])
    # start is drawn given the width (start slot derives from the width slot) for masks
    for (s_i, w_i, tag) in ((4, 5, "time"), (6, 7, "freq")):
        ds = rdd.derives(ret.value.elts[s_i], value_flow=True)
        wn = u(ret.value.elts[w_i])
        col.ob("G2", "S2", f"{rel}::spec_augment_draw_parameters::{tag}-mask-(start, width)-order", any(d.name == wn for d in ds.defs),
               f"slot {s_i} (start) does not depend on slot {w_i} (width): the pair is in (width, start) order or the start "
               f"ignores the drawn width (the mask could leave the valid range)", rel, ret.lineno)
    rda = ReachingDefs(app.node)
    unp = [n for n in own_nodes(app.node) if isinstance(n, ast.Assign) and isinstance(n.targets[0], ast.Tuple)
           and len(n.targets[0].elts) == 8 and u(n.value) == "params"]
    if len(unp) != 1:
        raise AnalysisError("C08: apply_parameters does not unpack the 8-tuple")
    names = [u(t) for t in unp[0].targets[0].elts]
    def shape_names(f):
        for n in own_nodes(f.node):
            if isinstance(n, ast.Assign) and isinstance(n.targets[0], ast.Tuple) and u(n.value) == "feats.shape" and len(n.targets[0].elts) == 3:
                return [u(t) for t in n.targets[0].elts]
        raise AnalysisError(f"C08: N, T, F = feats.shape not found in {f.qualname}")
    _, Ta, Fa = shape_names(app)
    warps = sorted([c for c in own_calls(app.node) if call_name(c) == "warp_1d_grid"], key=lambda c: c.lineno)
    wgf = pkg.func(f"{MOD}::warp_1d_grid")

    def _wargs(c):  # (src, flow, lengths, max_length) of a warp_1d_grid call, positional or by keyword
        b_ = bind_args(c, wgf, False)
        return [u(b_.arg_for(p_.name)) if b_.arg_for(p_.name) is not None else None for p_ in wgf.params[:4]]
    okw = len(warps) == 2 and _wargs(warps[0])[:2] == names[0:2] and _wargs(warps[1])[:2] == names[2:4] \
        and _wargs(warps[0])[3] == Ta and _wargs(warps[1])[3] == Fa and _wargs(warps[0])[2] == "lengths"
    col.ob("G2", "S2", f"{rel}::spec_augment_apply_parameters::warp-slots", okw,
           f"warps use {[_wargs(c) for c in warps]}; expected (slot0, slot1, lengths, T) for time and "
           f"(slot2, slot3, F.., F) for frequency", rel, app.line)
    # interval masks: i >= start & i < start + width, over T with slots (4,5), over F with slots (6,7)
    mask_ok = {}
    for n in own_nodes(app.node):
        # (the conjunction may be a statement of its own or sit inside `(...).any(2)...`)
        if isinstance(n, ast.BinOp) and isinstance(n.op, ast.BitAnd) and all(isinstance(x, ast.Compare) for x in (n.left, n.right)):
            from sa.astutil import oriented
            # (index >= start) & (index < end): orient both comparisons on their common operand, in either order
            sides = [n.left, n.right]
            common = {u(x) for x in (sides[0].left, sides[0].comparators[0])} & {u(x) for x in (sides[1].left, sides[1].comparators[0])}
            if len(common) != 1:
                continue
            cx = common.pop()
            os_ = [oriented(x, lambda e: u(e) == cx) for x in sides]
            lo = [o for o in os_ if o and o[0] == "ge"]
            hi = [o for o in os_ if o and o[0] == "lt"]
            okshape = len(lo) == 1 and len(hi) == 1
            if not okshape:
                continue
            st = u(_Strip().visit(copy.deepcopy(lo[0][2])))
            en_x = _Strip().visit(copy.deepcopy(hi[0][2]))
            # the end of the band: `start + width`, by name (`t_1 = t_0 + t`) or written in place
            if isinstance(en_x, ast.Name):
                end_def = [d.value for d in rda.defs if d.name == en_x.id and d.kind == "assign"]
                en_x = end_def[0] if len(end_def) == 1 else None
            from sa.norm import Normalizer as _NzI, padd as _paddI
            for (s_i, w_i, tag) in ((4, 5, "time"), (6, 7, "freq")):
                if st == names[s_i]:
                    nzi = _NzI()
                    want_ = ast.parse(f"{names[s_i]} + {names[w_i]}", mode="eval").body
                    mask_ok[tag] = okshape and en_x is not None and not _paddI(nzi.poly(_Strip().visit(copy.deepcopy(en_x))), nzi.poly(want_), -1)
    col.ob("G12", "S2", f"{rel}::spec_augment_apply_parameters::interval-masks", mask_ok == {"time": True, "freq": True},
           f"interval masks (index >= start & index < start + width) built from the right slots: {mask_ok}", rel, app.line,
           sample=mask_ok)

    # ---- S3 evaluation mode returns the input -----------------------------------------------------------------------
    for f, flag in ((sa, "training"), (fwd, "self.training")):
        pm = parent_map(f.node)
        # returns taken when the flag is false: under `not flag` (true arm) or under `flag` (else arm)
        rets = [n for n in own_nodes(f.node) if isinstance(n, ast.Return) and any(
            (u(t) == f"not {flag}" and pol) or (u(t) == flag and not pol) for t, pol in guards_of(pm, n))]
        rd_ = ReachingDefs(f.node)
        ok = len(rets) == 1 and u(rets[0].value) == "feats" and all(d.kind == "param" for d in rd_.defs_of(rets[0].value))
        # ... and it depends on nothing else: a further enclosing test (`if lengths is None:`) leaves a path on which evaluation mode
        # falls through to the augmentation
        if ok:
            others = [t for t, pol in guards_of(pm, rets[0]) if u(t) not in (f"not {flag}", flag)]
            ok = not others
        if not ok:
            # by specialisation: with the flag false every test on it is folded away; what remains must be `return <the parameter>` on
            # every path (a single trailing return shared with the training arm, which re-binds the name only under the flag, included)
            from sa.specialise import specialise as _spec_ev
            try:
                ev_node, folded_ = _spec_ev(f.node, {flag: False}, inline_tests=True)
                rd_ev = ReachingDefs(ev_node)
                rets_ev = [n for n in own_nodes(ev_node) if isinstance(n, ast.Return)]
                ok = folded_ > 0 and bool(rets_ev) and all(isinstance(r_.value, ast.Name) and r_.value.id == "feats" and all(
                    d.kind == "param" for d in rd_ev.defs_of(r_.value)) for r_ in rets_ev) and not any(
                    isinstance(n, (ast.If, ast.While, ast.For)) and any(isinstance(x, ast.Return) for x in ast.walk(n)) for n in own_nodes(ev_node))
            except (ValueError, KeyError):
                ok = False
        col.ob("G9", "S3", f"{rel}::{f.qualname}::eval-identity", ok,
               f"in evaluation mode {f.qualname} does not return the parameter `feats` itself", rel, f.line)
    c = [c for c in own_calls(fwd.node)]
    # ---- S4 masking only touches masked cells --------------------------------------------------------------------
    def ev(n):
        if isinstance(n, ast.Call):
            cn = call_name(n)
            if cn.endswith("grid_sample"):
                return "RESAMPLE"
            if isinstance(n.func, ast.Attribute) and n.func.attr == "masked_fill":
                return f"FILL({u(n.args[1]) if len(n.args) > 1 else '?'})"
        if isinstance(n, ast.Assign) and any(u(t) == "new_feats" for t in n.targets) and not isinstance(n.value, ast.Call):
            return "ASSIGN(" + u(n.value) + ")"
        return None

    # the output variable: what the function returns
    rret = [st for st, _ in rda.return_envs][-1]
    outv = u(rret.value)

    def ev2(n):
        if isinstance(n, ast.Assign) and any(u(t) == outv for t in n.targets):
            v = n.value
            if isinstance(v, ast.Name):
                return f"ALIAS({v.id})"
            txt = u(v)
            if "grid_sample" in txt:
                return "RESAMPLE"
            if isinstance(v, ast.Call) and isinstance(v.func, ast.Attribute) and v.func.attr == "masked_fill" and u(v.func.value) == outv:
                return f"FILL({u(v.args[1])})"
            return "OTHER(" + txt[:40] + ")"
        return None

    paths = PathEnumerator(ev2, exc_edges=False).paths(app.node.body)
    col.floor("apply_paths", len(paths), 2)
    bad = None
    sigs = set()
    for p in paths:
        labs = p.labels()
        sigs.add(tuple(labs))
        if not labs or labs[0] != "ALIAS(feats)":
            bad = bad or (labs, "the output does not start as the input itself")
        rest = labs[1:]
        if any(l.startswith("OTHER") or l.startswith("ALIAS") for l in rest):
            bad = bad or (labs, "the features are modified by something other than resampling / masked fill")
        if "RESAMPLE" in rest and rest.index("RESAMPLE") != 0:
            bad = bad or (labs, "a mask is applied before the resampling (masked cells would be smeared)")
        if any(l.startswith("FILL") and l != "FILL(0.0)" for l in rest):
            bad = bad or (labs, "masked cells are not filled with 0.0")
        if sum(1 for l in rest if l.startswith("FILL")) > 1:
            bad = bad or (labs, "more than one fill on a path")
    col.ob("G10", "S4", f"{rel}::spec_augment_apply_parameters::only-resample-then-one-zero-fill", bad is None,
           f"{bad[1]}: {bad[0]}" if bad else "", rel, app.line, sample=sorted(map(list, sigs))[:6])
    # every drawn band is zeroed and nothing else (props/c08_masks.py): the apply function walked with abstract values for each of
    # the four (time masking drawn?) x (frequency masking drawn?) combinations; at every exit the masks handed to the zero fill
    # cover exactly the drawn bands - whether the masks are merged first, filled one after the other, or steered by flags.
    from .c08_masks import Undecided as _MUnd, mask_table
    try:
        mbad, mexits = mask_table(app.node, names)
        col.floor("apply_mask_exits", mexits, 4)
        col.ob("G10", "S4", f"{rel}::spec_augment_apply_parameters::every-built-mask-is-applied", not mbad,
               (f"with time masking {'drawn' if mbad[0][0]['time'] else 'off'} and frequency masking {'drawn' if mbad[0][0]['freq'] else 'off'} an exit is "
                f"reached where the zero fill covers {mbad[0][2] or 'nothing'} (masks built on the way: {mbad[0][1] or 'none'}): the drawn bands are "
                f"not exactly the zeroed ones in that combination") if mbad else "", rel, app.line, sample=dict(exits=mexits, bad=len(mbad)))
    except _MUnd as e:
        col.undecided(f"{rel}::spec_augment_apply_parameters: the masking part is outside the interpreted fragment ({e})")
    # resampling happens only when a warp was drawn (guard derives from the warp slots being non-empty)
    pma = parent_map(app.node)
    gs = [n for n in own_nodes(app.node) if isinstance(n, ast.Call) and call_name(n).endswith("grid_sample")]
    okg = len(gs) == 1
    if okg:
        # along every path the features are resampled exactly when a warp grid was built on that path, and a warp grid is
        # only built under a test of its own (centre, shift) slots - whether the 'a warp was drawn' fact is kept in a flag
        # or read off the grids being None
        def ev3(n):
            if isinstance(n, ast.Call) and call_name(n) == "warp_1d_grid":
                return "WARP"
            if isinstance(n, ast.Call) and call_name(n).endswith("grid_sample"):
                return "RESAMPLE"
            return None
        wpaths = PathEnumerator(ev3, exc_edges=False).paths(app.node.body)
        mism = [p_ for p_ in wpaths if p_.exit in ("return", "fall") and (("RESAMPLE" in p_.labels()) != ("WARP" in p_.labels()))]
        wcalls = [c for c in own_nodes(app.node) if isinstance(c, ast.Call) and call_name(c) == "warp_1d_grid"]
        slot_guarded = all(any(any(names[i] in u(t) for i in (0, 1, 2, 3)) for t, pol in guards_of(pma, c) if pol) for c in wcalls)
        okg = not mism and len(wcalls) == 2 and slot_guarded
    col.ob("G10", "S4", f"{rel}::spec_augment_apply_parameters::resample-only-if-a-warp-was-drawn", okg,
           "grid_sample is not guarded by a flag that is set exactly where a non-empty warp parameter is present (without a "
           "warp every unmasked entry must stay bit-identical)", rel, app.line)
    gk = {k.arg: u(k.value) for c_ in gs for k in c_.keywords}
    col.ob("G13", "S4", f"{rel}::spec_augment_apply_parameters::border-clamped-bilinear", gk.get("padding_mode") == "'border'" and gk.get("mode") == "'bilinear'"
           and gk.get("align_corners") == "False", f"grid_sample options are {gk}", rel, app.line, sample=gk)

    # ---- S5 the eight drawn parameters, as a table ------------------------------------------------------------------
    # (props/c08_draw.py: the draw function interpreted for one sequence / one mask slot over rationals and compared with the
    # documented formulas at a grid of lengths, sizes, limits, draws and mask indices - whatever the statement layout)
    from .c08_draw import SLOTS, Und as _DUnd, draw_table
    try:
        npts, badslots = draw_table(draw.node, [p.name for p in draw.params])
        for sname in SLOTS:
            bd = badslots.get(sname)
            col.ob("G12", "S5", f"{rel}::spec_augment_draw_parameters::drawn[{sname}]", bd is None,
                   f"the drawn {sname} is not the documented function of (length, limits, draw): {bd}", rel, draw.line,
                   sample=dict(points=npts))
    except _DUnd as ex_:
        col.undecided(f"{rel}::spec_augment_draw_parameters: outside the interpreted fragment ({ex_})")
    # apply: interval masks symmetric
    # ---- S6 every drawn (centre, shift) gives the warp three well-separated knots --------------------------------------
    _warp_knots(ctx, rel)
    _warp_knots_table(ctx, rel)
    _identity_grid_table(ctx, rel)
    _resample_dtype(ctx, rel)
    plumbing(ctx, "S1")
    return dict(
        explanation=(
            "Decides for C08: (S1) forwarding of all SpecAugment / warp Modules and of the ten configuration values through "
            "spec_augment; SpecAugment.forward composes draw + apply; (S2) the 8-slot parameter tuple has the same slot roles "
            "where drawn (each slot derives from its own limit, start drawn given width) and where applied (warp slots, "
            "interval masks index >= start & index < start + width); (S3) evaluation mode returns the input object; (S4) on "
            "every path the features are only resampled (only if a warp was drawn, before masking, border-clamped bilinear) "
            "and then filled once with the literal 0.0 under the mask; (S5) the eight drawn slots, interpreted for one "
            "sequence and one mask slot over rationals, equal the documented formulas RAND*(L-2H)+H, RAND*2H-H, "
            "long(RAND*(cap+1-eps)) (zero beyond the allowed number of masks), long(RAND*(L-width+1-eps)) with the documented "
            "half-ranges and caps at every grid point - from which the drawn-parameter bounds follow by real arithmetic; (S6) composing the draw's "
            "(centre, shift) terms with warp_1d_grid's knot terms, the moved knot stays strictly between the pinned knots "
            "by more than eps for every draw [known finding F25: it does not]. NOT decided: warp "
            "monotonicity / range / finiteness given well-separated knots (spline and grid_sample numerics), output shape."),
        decided=["S1", "S2", "S3", "S4", "S5", "S6"],
        not_decided=["warp monotone, within half a frame of the ends, finite", "interval masks cover exactly the drawn bands at tensor level", "output shape"],
        assumptions=["torch.rand in [0, 1)", ".long() truncates", "real-arithmetic idealisation of the eps tricks"],
    )


def _warp_knots_table(ctx: Ctx, rel: str):
    """S6 by value: `warp_1d_grid` interpreted over exact values (sa/interp.py + sa/teval.py) up to the spline, which is a leaf that
    records its control points. For centres inside, at the edges of and beyond the valid frames (also beyond them by a fraction of a
    frame, as drawn for sequences of length 1 or sub-frame warp limits), shifts of either sign and sequences shorter than the padded
    extent, the three control points must be: the first frame, the centre clamped to [0, L - 1] (source) / the shifted centre clamped to
    [0, L - 1] (destination), the last VALID frame L - 1 - each as 2 p + 1 over T minus 1, the outer ones moved out by eps. A centre
    clamped to L instead reads from the padding that follows the sequence."""
    import numpy as np
    from fractions import Fraction as Fr
    from sa.interp import Interp
    from sa.inteval import NotEvaluable
    from sa.teval import frac_array
    col, pkg = ctx.col, ctx.pkg
    f = pkg.func(f"{MOD}::warp_1d_grid")
    names = [p_.name for p_ in f.params]
    EPS = Fr(1, 10 ** 6)
    cases = [(Fr(5, 2), Fr(1), 6, 8), (Fr(1, 2), Fr(0), 1, 4), (Fr(7, 10), Fr(-1, 5), 1, 5), (Fr(9), Fr(2), 4, 8), (Fr(3), Fr(-5), 4, 4), (Fr(0), Fr(1, 2), 3, 3), (Fr(17, 5), Fr(0), 4, 6)]
    bad, n = None, 0
    try:
        for c_, s_, L, T in cases:
            seen = {}

            def leaf(x, env):
                if isinstance(x, ast.Call):
                    cn = call_name(x)
                    if cn == "_get_tensor_eps":
                        return EPS
                    if cn == "polyharmonic_spline" and len(x.args) + len(x.keywords) >= 3:
                        # (train points, train values: positionally or by keyword)
                        sp_ = pkg.func(f"{MOD}::polyharmonic_spline")
                        by_ = {p_.name: a_ for p_, a_, _ in bind_args(x, sp_, False).pairs}
                        pn_ = [p_.name for p_ in sp_.params[:2]]
                        if not all(k_ in by_ for k_ in pn_):
                            raise NotEvaluable("spline arguments")
                        seen["dst"], seen["src"] = (np.asarray(holder["it"].eval(by_[k_], env), dtype=object) for k_ in pn_)
                        return np.zeros((1, T, 1), dtype=object)
                return None
            holder = {}
            it = Interp(leaf=leaf, tensors=True)
            holder["it"] = it
            env = dict(zip(names, (frac_array([c_]), frac_array([s_]), frac_array([L]), T, 1)))
            kind, got = it.run(f.node, env)
            n += 1
            norm = lambda p_: (2 * p_ + 1) / Fr(T) - 1  # noqa: E731
            cs = max(min(c_, Fr(L - 1)), Fr(0))
            cd = max(min(cs + s_, Fr(L - 1)), Fr(0))
            want = {"src": [norm(Fr(0)) - EPS, norm(cs), norm(Fr(L - 1)) + EPS], "dst": [norm(Fr(0)) - EPS, norm(cd), norm(Fr(L - 1)) + EPS]}
            got_ = {k_: [Fr(v_) for v_ in np.asarray(v, dtype=object).reshape(-1).tolist()] for k_, v in seen.items()} if len(seen) == 2 else None
            if (kind != "return" or got_ != want) and bad is None:
                bad = ((c_, s_, L, T), {k_: [str(z_) for z_ in v_] for k_, v_ in (got_ or {}).items()} or f"{kind} {got}", {k_: [str(z_) for z_ in v_] for k_, v_ in want.items()})
    except (NotEvaluable, TypeError, ValueError):
        return
    col.count("warp_knot_table_rows", n)
    col.ob("G12", "S6", f"{rel}::warp_1d_grid::control-points-table", bad is None,
           (f"(centre, shift, length, padded extent) = {tuple(str(v_) for v_ in bad[0])}: the spline is handed the control points {bad[1]}; first frame / clamped centre "
            f"(source: [0, L-1]; destination: shifted, then [0, L-1]) / last valid frame give {bad[2]}") if bad else "", rel, f.line, sample=dict(rows=n))


def _identity_grid_table(ctx: Ctx, rel: str):
    """S8 by value: when only ONE axis is warped, the other axis of the sampling grid is the identity - for `grid_sample(...,
    align_corners=False)` the centre of pixel p of an axis of extent n is (2 p + 1) / n - 1. `spec_augment_apply_parameters` is
    interpreted over exact values (sa/interp.py + sa/teval.py) with `warp_1d_grid` and `grid_sample` as leaves (the latter records the grid
    it is handed): with a frequency warp only, the time coordinates of the grid are the pixel centres of T frames; with a time warp only,
    the frequency coordinates those of F coefficients. (The corner-aligned formula 2 p / (n - 1) - 1 stretches the un-warped axis.)
    Skipped when outside the interpreted fragment."""
    import numpy as np
    from fractions import Fraction as Fr
    from sa.interp import Interp
    from sa.inteval import NotEvaluable
    from sa.teval import frac_array
    col, pkg = ctx.col, ctx.pkg
    f = pkg.func(f"{MOD}::spec_augment_apply_parameters")
    names = [p_.name for p_ in f.params]
    N, T, F = 2, 4, 3
    feats = frac_array(np.arange(N * T * F).reshape(N, T, F).tolist())
    bad, rows = None, 0
    try:
        for which in ("freq", "time"):
            seen = {}
            holder = {}

            def leaf(x, env):
                if isinstance(x, ast.Call):
                    cn = call_name(x)
                    if cn == "warp_1d_grid":
                        wg_ = pkg.func(f"{MOD}::warp_1d_grid")  # (the padded extent: fourth formal, positionally or by keyword)
                        by_ = {p_.name: a_ for p_, a_, _ in bind_args(x, wg_, False).pairs}
                        a4_ = by_.get(wg_.params[3].name) if len(wg_.params) > 3 else None
                        n_ = int(holder["it"].eval(a4_, env)) if a4_ is not None else None
                        if n_ is None:
                            raise NotEvaluable("warp_1d_grid arguments")
                        return frac_array([[Fr(7 * i_ + j_, 100) for j_ in range(n_)] for i_ in range(N)])
                    if cn.endswith("grid_sample") and len(x.args) >= 2:
                        seen["grid"] = np.asarray(holder["it"].eval(x.args[1], env), dtype=object)
                        ac = kwarg(x, "align_corners")
                        seen["align"] = holder["it"].eval(ac, env) if ac is not None else None
                        return holder["it"].eval(x.args[0], env)
                    if isinstance(x.func, ast.Attribute) and x.func.attr == "to" and len(x.args) == 1 and not x.keywords:
                        return holder["it"].eval(x.func.value, env)
                if isinstance(x, ast.Attribute) and x.attr in ("device", "dtype"):
                    return "<" + x.attr + ">"
                return None
            it = Interp(leaf=leaf, tensors=True)
            holder["it"] = it
            one = frac_array([1] * N)
            params = (None, None, one, one, None, None, None, None) if which == "freq" else (one, one, None, None, None, None, None, None)
            env = {n_: None for n_ in names}
            env.update({names[0]: feats, names[1]: params})
            if len(names) > 2:
                env[names[2]] = 1
            kind, got = it.run(f.node, env)
            rows += 1
            if kind != "return" or "grid" not in seen:
                raise NotEvaluable(f"{kind}")
            g = seen["grid"]
            if g.shape != (N, T, F, 2):
                raise NotEvaluable("grid shape")
            if which == "freq":
                want = [[[Fr(2 * t_ + 1, T) - 1 for _ in range(F)] for t_ in range(T)] for _ in range(N)]
                col_ = g[..., 1].tolist()
            else:
                want = [[[Fr(2 * f_ + 1, F) - 1 for f_ in range(F)] for _ in range(T)] for _ in range(N)]
                col_ = g[..., 0].tolist()
            if (col_ != want or seen.get("align") not in (False, None)) and bad is None:
                bad = (which, [str(v_) for v_ in (np.asarray(col_, dtype=object)[0, :, 0] if which == "freq" else np.asarray(col_, dtype=object)[0, 0, :]).tolist()],
                       [str(v_) for v_ in (np.asarray(want, dtype=object)[0, :, 0] if which == "freq" else np.asarray(want, dtype=object)[0, 0, :]).tolist()], seen.get("align"))
    except (NotEvaluable, TypeError, ValueError, IndexError, KeyError):
        return
    col.count("identity_grid_table_rows", rows)
    col.ob("G12", "S8", f"{rel}::spec_augment_apply_parameters::un-warped-axis-is-the-identity-grid", bad is None,
           (f"with a {bad[0]} warp only, the {'time' if bad[0] == 'freq' else 'frequency'} coordinates handed to grid_sample (align_corners={bad[3]}) are "
            f"{bad[1]}; the pixel centres (2 p + 1) / n - 1 are {bad[2]}: the axis that was not warped is resampled as well") if bad else "", rel, f.line,
           sample=dict(rows=rows))


def _warp_knots(ctx: Ctx, rel: str):
    """S6: producer/consumer agreement of the time warp. spec_augment_draw_parameters draws (centre, shift); warp_1d_grid
    turns them into the three knots (first frame, moved frame, last valid frame) of the interpolating spline. The knot
    terms of both functions are extracted (centre = R1 * (L - 2W) + W, ...; knot = f(min(centre + shift, L - 1).clamp_min(0)),
    f(p) = (2p + 1) / T - 1, pinned knots f(0) - eps and f(L - 1) + eps) and composed; over a grid of lengths, limits and
    draws R in (0, 1) the moved knot must stay strictly between the pinned ones by more than the epsilon guard, i.e. the
    clamp that the draw relies on must never put it onto a pinned knot (where the spline system is singular up to eps)."""
    from fractions import Fraction
    from sa import minmax as MM
    from sa.specialise import NOT_NONE, specialise
    col, pkg = ctx.col, ctx.pkg
    draw = pkg.func("_img::spec_augment_draw_parameters")
    wg = pkg.func("_img::warp_1d_grid")
    # -- producer: terms of the first two returned slots under (lengths given, max_time_warp truthy)
    dnode, folded = specialise(draw.node, {"lengths": NOT_NONE, "max_time_warp": 1}, allow_reassigned=("lengths",))
    rdd = ReachingDefs(dnode)
    rleaves = []

    def d_leaf_def(d):
        if d.kind == "param":
            return {"lengths": "L", "max_time_warp": "MAXW"}.get(d.name)
        return None

    def d_hook(e, ex, depth):
        if isinstance(e, ast.Call) and call_name(e) == "_get_tensor_eps":
            return ("leaf", "EPS")
        if isinstance(e, ast.Call) and call_name(e) == "torch.rand":
            nm = f"R{e.lineno}_{e.col_offset}"
            if nm not in rleaves:
                rleaves.append(nm)
            return ("leaf", nm)
        return None
    exd = MM.Extractor(rdd, d_leaf_def, lambda e: None, term_hook=d_hook)
    rets = [n for n in ast.walk(dnode) if isinstance(n, ast.Return) and isinstance(n.value, ast.Tuple) and len(n.value.elts) == 8]
    if len(rets) != 1:
        raise AnalysisError("C08: spec_augment_draw_parameters does not return its 8 slots once")
    # -- consumer: the knots handed to the spline (first argument: destination knots)
    wnode, _ = specialise(wg.node, {"max_length": NOT_NONE})
    rdw = ReachingDefs(wnode)
    P = [p.name for p in wg.params]

    def w_leaf_def(d):
        if d.kind == "param":
            return {P[0]: "C", P[1]: "S", P[2]: "L", P[3]: "T"}.get(d.name)
        return None

    def w_hook(e, ex, depth):
        if isinstance(e, ast.Call) and call_name(e) == "_get_tensor_eps":
            return ("leaf", "EPS")
        if isinstance(e, ast.Call) and call_name(e) == "torch.full" and len(e.args) >= 2:
            return ex.term(e.args[1], depth + 1)
        return None
    exw = MM.Extractor(rdw, w_leaf_def, lambda e: None, term_hook=w_hook)
    sp = [c for c in ast.walk(wnode) if isinstance(c, ast.Call) and call_name(c) == "polyharmonic_spline"]
    try:
        tc, ts = exd.term(rets[0].value.elts[0]), exd.term(rets[0].value.elts[1])
        if len(sp) != 1:
            raise MM.Unknown("warp_1d_grid does not call polyharmonic_spline once")
        knots_e = sp[0].args[0]
        while isinstance(knots_e, ast.Call) and isinstance(knots_e.func, ast.Attribute) and knots_e.func.attr in MM.PASS_METHODS:
            knots_e = knots_e.func.value
        ds = list(rdw.defs_of(knots_e)) if isinstance(knots_e, ast.Name) else []
        if len(ds) != 1 or not (isinstance(ds[0].value, ast.Call) and call_name(ds[0].value) == "torch.stack"
                                 and isinstance(ds[0].value.args[0], (ast.List, ast.Tuple)) and len(ds[0].value.args[0].elts) == 3):
            raise MM.Unknown("destination knots are not a stack of three")
        k0, k1, k2 = (exw.term(x) for x in ds[0].value.args[0].elts)
    except MM.Unknown as e:
        col.undecided(f"C08: warp knots: {e}")
        return
    EPS = Fraction(1, 10 ** 6)
    bad = None
    n = 0
    grid_R = (Fraction(1, 100), Fraction(1, 2), Fraction(99, 100))
    if len(rleaves) != 2:
        col.undecided(f"C08: expected two uniform draws in the warp parameters, found {len(rleaves)}")
        return
    for T in (4, 7):
        for L in range(2, T + 1):
            for MAXW in (Fraction(1, 2), 1, 2, 80):
                for r1 in grid_R:
                    for r2 in grid_R:
                        envd = dict(L=L, MAXW=MAXW, EPS=EPS)
                        envd[rleaves[0]], envd[rleaves[1]] = r1, r2
                        c, s_ = MM.ev(tc, envd), MM.ev(ts, envd)
                        envw = dict(C=c, S=s_, L=L, T=T, EPS=EPS)
                        a, b, d = MM.ev(k0, envw), MM.ev(k1, envw), MM.ev(k2, envw)
                        n += 1
                        if not (b - a > 2 * EPS and d - b > 2 * EPS) and bad is None:
                            bad = dict(T=T, L=L, max_time_warp=str(MAXW), centre=float(c), shift=float(s_),
                                       knots=[float(a), float(b), float(d)])
    # the two pinned knots are the centres of the first and last valid frame ((2 i + 1) / T - 1 for i = 0, L - 1) up to the
    # regularising eps, in the destination AND the source stack: the spline is the identity at a pinned knot only if both
    # stacks hold the same value there, and frame 0 / L - 1 is read "within half a frame" only if the pin sits on its centre
    badpin = None
    npin = 0
    try:
        stacks = []
        for a_ in sp[0].args[:2]:
            ke = a_
            while isinstance(ke, ast.Call) and isinstance(ke.func, ast.Attribute) and ke.func.attr in MM.PASS_METHODS:
                ke = ke.func.value
            dsk = list(rdw.defs_of(ke)) if isinstance(ke, ast.Name) else []
            if len(dsk) != 1 or not (isinstance(dsk[0].value, ast.Call) and call_name(dsk[0].value) == "torch.stack"
                                      and isinstance(dsk[0].value.args[0], (ast.List, ast.Tuple)) and len(dsk[0].value.args[0].elts) == 3):
                raise MM.Unknown("knots are not a stack of three")
            stacks.append([exw.term(x) for x in dsk[0].value.args[0].elts])
        for T in (3, 4, 7, 16):
            for L in range(1, T + 1):
                envw = dict(C=Fraction(L, 3), S=Fraction(1, 4), L=L, T=T, EPS=EPS)
                for which, st_ in zip(("destination", "source"), stacks):
                    lo, hi = MM.ev(st_[0], envw), MM.ev(st_[2], envw)
                    npin += 1
                    if (abs(lo - (Fraction(1, T) - 1)) > 4 * EPS or abs(hi - (Fraction(2 * L - 1, T) - 1)) > 4 * EPS) and badpin is None:
                        badpin = dict(stack=which, T=T, L=L, pins=[float(lo), float(hi)],
                                      frame_centres=[float(Fraction(1, T) - 1), float(Fraction(2 * L - 1, T) - 1)])
    except MM.Unknown as e:
        col.undecided(f"C08: pinned warp knots: {e}")
    else:
        col.ob("G12", "S6", f"{rel}::warp_1d_grid::pinned-knots-are-the-first-and-last-frame-centres", badpin is None and npin > 0,
               f"the pinned knots `{MM.show(stacks[0][0])[:60]}` / `{MM.show(stacks[0][2])[:60]}` are not the centres of frame 0 and "
               f"frame L - 1 in grid coordinates ((2 i + 1) / T - 1): e.g. {badpin}; the first or last valid frame then moves "
               f"with the warp (by more than half a frame for a large shift) instead of staying fixed", rel, sp[0].lineno,
               sample=dict(points=npin, lower=MM.show(stacks[0][0])[:80], upper=MM.show(stacks[0][2])[:80]))
    col.ob("G12", "S6", f"{rel}::spec_augment_draw_parameters->warp_1d_grid::moved-knot-strictly-between-pinned-knots", bad is None,
           f"the drawn centre `{MM.show(tc)[:90]}` plus shift `{MM.show(ts)[:70]}` ranges over [0, L), but warp_1d_grid clamps "
           f"the moved knot to [0, L - 1] - exactly the positions of the two pinned knots (offset only by eps): e.g. {bad} puts "
           f"the moved knot within eps of a pinned one, the spline system is singular up to eps and the linear warp is no "
           f"longer monotone / within half a frame of the ends", rel, sp[0].lineno, sample=dict(points=n, centre=MM.show(tc)[:100], shift=MM.show(ts)[:80]))


def _resample_dtype(ctx: Ctx, rel: str):
    """S7: grid_sample requires the sampling grid to have the dtype of the input. The warp grids are built in float32
    (`warp_1d_grid` casts with .float(), the identity grids use dtype=torch.float), so unless the grid handed to grid_sample
    is cast to the features' dtype, every warp on float64 / float16 features raises."""
    from sa.defuse import ReachingDefs
    col, pkg = ctx.col, ctx.pkg
    app = pkg.func("_img::spec_augment_apply_parameters")
    rd = ReachingDefs(app.node)
    gs = [c for c in own_calls(app.node) if call_name(c).endswith("grid_sample")]
    if len(gs) != 1 or len(gs[0].args) < 2:
        raise AnalysisError("C08: spec_augment_apply_parameters does not call grid_sample(input, grid, ...) once")
    inp, grid = gs[0].args[0], gs[0].args[1]
    feats = app.params[0].name
    # walk back from the grid argument through shape-only methods and single definitions; a cast to the features' dtype
    # must be met before the grid's constructor (torch.stack)
    der = rd.derives(grid)
    fnames = rd.derives(inp).params() | {feats}
    casts = []
    cur, hops = grid, 0
    while cur is not None and hops < 12:
        hops += 1
        if isinstance(cur, ast.Call) and isinstance(cur.func, ast.Attribute):
            if cur.func.attr in ("to", "type_as", "type") and any(
                    isinstance(x, ast.Name) and (x.id in fnames or any(p in fnames for p in rd.derives(x).params()))
                    for a in list(cur.args) + [k.value for k in cur.keywords] for x in ast.walk(a)):
                casts.append(u(cur)[:80])
                break
            if cur.func.attr in ("unsqueeze", "expand", "contiguous", "view", "reshape", "to", "clone"):
                cur = cur.func.value
                continue
            break
        if isinstance(cur, ast.Name):
            ds = list(rd.defs_of(cur))
            cur = ds[0].value if len(ds) == 1 and ds[0].kind == "assign" else None
            continue
        break
    fixed = [u(k.value) for c in der.calls() for k in c.keywords if k.arg == "dtype" and u(k.value) in ("torch.float", "torch.float32")]
    col.ob("G13", "S7", f"{rel}::spec_augment_apply_parameters::sampling-grid-has-the-features'-dtype", bool(casts),
           f"the grid handed to grid_sample is built with fixed dtypes {sorted(set(fixed)) or ['float32 (warp_1d_grid)']} and never "
           f"cast to the dtype of `{feats}`: grid_sample raises 'expected scalar type Double but found Float' for every warp on "
           f"float64 (or float16) features, including the default configuration", rel, gs[0].lineno, sample=dict(casts=casts, fixed=fixed))


def _mutants():
    from selftest.mutate import Mutant as M
    I = "_img.py"
    return [
        M("freq-mask-cap-from-the-time-cap", "_img.py", "self.max_freq_mask = max_freq_mask", "self.max_freq_mask = max_time_mask", "G44"),
        M("lower-pin-at-image-edge", I, "lowers = torch.full((N,), 1 / T - 1 - eps, dtype=torch.float, device=device)", "lowers = torch.full((N,), -1.0 - eps, dtype=torch.float, device=device)", "pinned-knots-are-the-first-and-last-frame-centres"),
        M("upper-pin-one-frame-out", I, "uppers = (2 * lengths - 1) / T - 1.0 + eps", "uppers = (2 * lengths + 1) / T - 1.0 + eps", "pinned-knots-are-the-first-and-last-frame-centres"),
        M("grid-left-in-float32", "_img.py", "grid = grid.to(new_feats.dtype)\n", "", "sampling-grid-has-the-features'-dtype"),
        # a scratch copy in which the known finding F25 is repaired (moved knot clamped half a frame inside the pinned ones)
        # must be silent
        M("repaired:moved-knot-clamped-inside-the-pins", "_img.py", "src = torch.min(src, lengths - 1).clamp_min(0)\n    dst = torch.min(src + flow, lengths - 1).clamp_min(0)",
          "src = torch.min(src, lengths - 1.5).clamp_min(0.5)\n    dst = torch.min(src + flow, lengths - 1.5).clamp_min(0.5)", "", twin=True),
        M("apply-slots-swapped", I, "w_0, w, v_0, v, t_0, t, f_0, f = params", "w_0, w, v_0, v, t, t_0, f_0, f = params", "G"),
        M("draw-return-swapped", I, "return (w_0, w, v_0, v, t_0, t, f_0, f)", "return (w_0, w, v_0, v, f_0, f, t_0, t)", "slot-sources"),
        M("freq-start-ignores-width", I, "f_0 = (torch.rand([N, num_freq_mask], device=device) * (F - f + omeps)).long()", "f_0 = (torch.rand([N, num_freq_mask], device=device) * (F + omeps)).long()", "G"),
        M("time-start-off-by-one", I, "* (lengths.unsqueeze(1) - t + omeps)).long()", "* (lengths.unsqueeze(1) - t + 1 + omeps)).long()", "drawn[time-mask-start]"),
        M("freq-centre-bound", I, "v_0 = torch.rand([N], device=device) * (F - 2 * V) + V", "v_0 = torch.rand([N], device=device) * (F - V) + V", "drawn[freq-warp-centre]"),
        M("time-shift-one-sided", I, "w = torch.rand([N], device=device) * (2 * W) - W", "w = torch.rand([N], device=device) * (2 * W)", "drawn[time-warp-shift]"),
        M("eval-clone", I, "if not training:\n        return feats", "if not training:\n        return feats.clone()", "eval-identity"),
        M("layer-eval-augments", I, "if not self.training:\n            return feats", "if False:\n            return feats", "eval-identity"),
        M("fill-nonzero", I, "new_feats = new_feats.masked_fill(fmask, 0.0)", "new_feats = new_feats.masked_fill(fmask, 1e-05)", "only-resample-then-one-zero-fill"),
        M("mask-before-warp", I, "new_feats = feats\n", "new_feats = feats * 1.0\n", "only-resample-then-one-zero-fill"),
        M("always-resample", I, "if do_warp:\n        if time_grid is None:", "if True:\n        if time_grid is None:", "resample-only-if-a-warp-was-drawn"),
        M("padding-zeros", I, "padding_mode='border'", "padding_mode='zeros'", "border-clamped-bilinear"),
        M("interval-inclusive-end", I, "tmask = (tmask >= t_0.unsqueeze(1)) & (tmask < t_1.unsqueeze(1))", "tmask = (tmask >= t_0.unsqueeze(1)) & (tmask <= t_1.unsqueeze(1))", "interval-masks"),
        M("spec-augment-args-swapped", I, "max_time_mask, max_freq_mask, max_time_mask_proportion, num_time_mask, num_time_mask_proportion, num_freq_mask, lengths)\n    return spec_augment_apply_parameters",
          "max_freq_mask, max_time_mask, max_time_mask_proportion, num_time_mask, num_time_mask_proportion, num_freq_mask, lengths)\n    return spec_augment_apply_parameters", "G1"),
        M("freq-cap-dropped", I, "max_ = min(max_freq_mask, F)", "max_ = max_freq_mask", "drawn[freq-mask-width]"),
        M("twin:rename-grid", I, "time_grid", "tgrid", "", -1, twin=True),
    ]


def selftest(ctx: Ctx):
    from selftest.mutate import run_selftest
    return run_selftest("C08", ctx.pkg.repo, _mutants(), floor=13)


MANIFEST = dict(
    level_text=(
        "Static analysis (no execution): forwarding of the ten transposable configuration values, slot-role agreement of "
        "the 8-slot parameter tuple between the drawing and the applying function, evaluation-mode identity, a path rule on "
        "spec_augment_apply_parameters (only resampling - and only if a warp was drawn - followed by one masked fill with the "
        "literal 0.0), and the time<->frequency sibling symmetry plus the algebraic forms of the bounded draws in polynomial "
        "normal form, from which the drawn-parameter bounds follow by real arithmetic; and a producer/consumer composition "
        "of the time warp: the drawn (centre, shift) terms are fed into the knot terms of warp_1d_grid and the moved knot "
        "must stay more than the epsilon guard away from both pinned knots for every draw on a grid (a well-posed spline "
        "system is necessary for 'non-decreasing, within half a frame'). warp_1d_grid is also interpreted over exact values up to the "
        "spline (a leaf recording its control points): for centres inside, at the edges of and beyond the valid frames, shifts of either "
        "sign and sequences shorter than the padded extent the three control points are the first frame, the clamped (shifted) centre "
        "and the last VALID frame. Necessary conditions of C08; spline and grid_sample numerics are not decided. Generic G44: a constructor that keeps a value under the name of one of its formals fills it from that formal, not from a sibling formal. Evaluation mode returns the input itself: the return under `not training`, or - when both modes share one return - the function specialised on training = False. With one axis warped only, the other axis of the sampling grid is the identity grid of grid_sample(align_corners=False) (apply_parameters interpreted with warp_1d_grid / grid_sample as leaves)."),
    level_note="Trusted: python ast; torch.rand in [0,1), .long() truncation; real-arithmetic idealisation of the eps tricks. "
               "Known finding F25: centre + shift in (L-1, L) is clamped onto the pinned last-frame knot (singular up to eps).",
    technique="static analysis: abstract interpretation of the draw function over rationals compared with the documented formulas on a finite grid, slot-role dataflow, path typestate, eval-path identity, producer/consumer term composition over a finite grid; abstract interpretation of the mask application over {None, bool, set of bands} for the four masking combinations; warp control points by interpretation of warp_1d_grid over exact values up to the spline leaf",
    design_ref="DESIGN.md section 4 C08",
)
