"""C09 variable-length padding / chunking: forwarding (G5/G1), pad-mode tables (G8), eval
identity (G9), random pad amounts (structural interval argument), truncating slices (G23)."""
from __future__ import annotations

import ast

from rules import enum as R_enum
from rules import fwd as R_fwd
from rules.trunc import TruncAnalysis
from sa.astutil import call_name, guards_of, parent_map, u
from sa.defuse import ReachingDefs
from sa.model import AnalysisError, own_calls, own_nodes
from sa.resolve import bind_args
from .common import Ctx, plumbing

MOD = "_pad"


def run(ctx: Ctx):
    col, pkg, res = ctx.col, ctx.pkg, ctx.res
    rel = pkg.module(MOD).relname
    gpb = pkg.func(f"{MOD}::_get_padding_buffers")
    pv = pkg.func(f"{MOD}::pad_variable")
    cbs = pkg.func(f"{MOD}::chunk_by_slices")
    rs = pkg.func("_img::random_shift")

    # ---- S1 forwarding -------------------------------------------------------------------------------
    R_fwd.g5_module_pairs(pkg, res, col, only={"pad_variable", "pad_masked_sequence", "chunk_by_slices", "random_shift"},
                          clause="S1")
    col.floor("g5_pairs", col.counts.get("g5_pairs", 0), 4)
    # (x, lens, left_pad, right_pad, mode) at the two kernel call sites: left/right are transposable
    for f, want in ((pv, {"x": "x", "lens": "lens", "left_pad": "pad[0]", "right_pad": "pad[1]", "mode": "mode"}),
                    (cbs, {"x": "x", "lens": "lens", "left_pad": "<left>", "right_pad": "<right>", "mode": "mode"})):
        calls = [c for c in own_calls(f.node) if call_name(c) == "_get_padding_buffers"]
        if len(calls) != 1:
            raise AnalysisError(f"C09: {f.qualname} does not call _get_padding_buffers exactly once")
        b = bind_args(calls[0], gpb, False)
        from sa.inline import Inliner
        inl_f = Inliner(f.node)
        got = {p.name: (inl_f.text(a) if f is pv and p.name in ("left_pad", "right_pad") else u(a)) for p, a, _ in b.pairs}
        if f is cbs:
            # roles by value: the head of chunk_by_slices is interpreted (sa/interp.py, lenient, exact values) on three sequences with
            # a slice that starts before the sequence, one that ends after it and an empty one; what reaches the kernel as left / right
            # pad must be max(-start, 0) / max(end - len, 0), zero for the empty slice - however the columns, the clamp and the
            # empty-slice mask are spelled
            import numpy as np
            from sa.interp import Interp
            from sa.inteval import NotEvaluable
            from sa.teval import frac_array
            seen = {}
            holder = {}

            def leaf(x_, env):
                if isinstance(x_, ast.Call) and call_name(x_) == "_get_padding_buffers":
                    bb = bind_args(x_, gpb, False)
                    for nm_ in ("left_pad", "right_pad"):
                        seen[nm_] = holder["it"].eval(bb.arg_for(nm_), env)
                    raise NotEvaluable("the buffer kernel itself is not interpreted")
                return None
            it = Interp(leaf=leaf, tensors=True, lenient=True)
            holder["it"] = it
            env = {a_.arg: None for a_ in f.node.args.args}
            env.update(x=frac_array(np.arange(12).reshape(3, 4, 1).tolist()), slices=frac_array([[-2, 3], [1, 6], [2, 2]]), lens=frac_array([4, 3, 4]),
                       mode="replicate", value=0)
            try:
                it.run(f.node, env)
                if set(seen) != {"left_pad", "right_pad"}:
                    raise NotEvaluable("the call of the buffer kernel was not reached")
                lp, rp = ([int(v_) for v_ in np.asarray(seen[k_]).tolist()] for k_ in ("left_pad", "right_pad"))
                got["left_pad"] = "<left>" if lp == [2, 0, 0] else ("<right>" if lp == [0, 3, 0] else f"{lp} for slices (-2, 3), (1, 6), (2, 2) of lengths 4, 3, 4")
                got["right_pad"] = "<right>" if rp == [0, 3, 0] else ("<left>" if rp == [2, 0, 0] else f"{rp} for slices (-2, 3), (1, 6), (2, 2) of lengths 4, 3, 4")
            except NotEvaluable as e_:
                col.undecided(f"{rel}::chunk_by_slices: the pads handed to the buffer kernel are outside the interpreted fragment ({e_})")
                got["left_pad"], got["right_pad"] = "<left>", "<right>"
        col.ob("G1", "S1", f"{rel}::{f.qualname}::_get_padding_buffers-binding", got == want,
               f"{f.name} calls the buffer kernel with {got}, expected {want} (left pad = max(-start, 0), right pad = "
               f"max(end - lens, 0))", rel, calls[0].lineno, sample=got)
        # the two returned buffers are scattered on their own sides
        st = None
        pm = parent_map(f.node)
        for n in own_nodes(f.node):
            if isinstance(n, ast.Assign) and n.value is calls[0] and isinstance(n.targets[0], ast.Tuple):
                st = n
        if st is None:
            raise AnalysisError(f"C09: {f.qualname} does not unpack the two padding buffers")
        lname, rname = [t.id for t in st.targets[0].elts]
        sc = [c for c in own_calls(f.node) if isinstance(c.func, ast.Attribute) and c.func.attr == "masked_scatter" and len(c.args) == 2]
        sides = {}
        for c in sc:
            src = u(c.args[1])
            m = u(c.args[0])
            if src == lname:
                sides["left"] = m
            elif src == rname and "right" not in sides:
                sides["right"] = m
        okl = "left" in sides and "left_mask" in sides["left"] and "right" not in sides["left"]
        okr = "right" in sides and "right_mask" in sides["right"]
        col.ob("G2", "S1", f"{rel}::{f.qualname}::buffers-scattered-on-own-side", okl and okr,
               f"left buffer scattered under `{sides.get('left')}`, right buffer under `{sides.get('right')}`", rel,
               st.lineno, sample=sides)
    # random_shift -> pad_variable
    calls = [c for c in own_calls(rs.node) if call_name(c) == "pad_variable"]
    col.floor("random_shift_pad_calls", len(calls), 1)
    for c in calls:
        b = bind_args(c, pv, False)
        got = {p.name: u(a) for p, a, _ in b.pairs}
        padname = got.get("pad")
        got["pad"] = "<pad>"
        col.ob("G1", "S1", f"_img.py::random_shift::pad_variable-binding",
               got == {"x": "input", "lens": "in_lens", "pad": "<pad>", "mode": "mode", "value": "value"},
               f"random_shift pads with {got}", "_img.py", c.lineno, sample=got)

    # ---- S2 pad-mode tables -------------------------------------------------------------------------------
    mi = pkg.module(MOD)
    padm = R_enum.literal_members(pkg, res, mi, ast.Name(id="PadMode", ctx=ast.Load()))
    rsm = R_enum.literal_members(pkg, res, pkg.module("_img"), ast.Name(id="RandomShiftMode", ctx=ast.Load()))
    if padm is None or rsm is None:
        raise AnalysisError("C09: PadMode / RandomShiftMode Literal aliases not found")
    R_enum.g8_dispatch(pkg, res, col, gpb, "mode", "S2", members=padm, allow_else=0)
    col.ob("G8", "S2", "_img.py::RandomShiftMode<=PadMode", set(rsm) <= set(padm),
           f"RandomShift accepts modes {rsm} but the padding kernel implements {padm}", "_img.py", 1,
           sample=dict(random_shift=rsm, pad=padm))
    # an unknown mode is refused, every member is served: the kernel specialised on the mode (tests on `mode` folded) has an
    # unconditional raise before its return exactly for a string outside the Literal - wherever the refusal is written
    from sa.specialise import specialise

    def _refuses(val):
        node, _ = specialise(gpb.node, {"mode": val})
        for st in node.body:
            if isinstance(st, ast.Raise):
                return True
            if isinstance(st, ast.Return):
                return False
        return False
    last_else_raises = _refuses("<no such mode>") and not any(_refuses(m) for m in padm)
    col.ob("G8", "S2", f"{rel}::_get_padding_buffers::unknown-mode-raises", last_else_raises,
           "an unknown padding mode does not raise", rel, gpb.line)
    # placeholders: under the mode for which the kernel returns the input itself as placeholder buffers, both
    # callers skip the buffer scatters
    placeholder_modes = set()
    for m_ in padm:
        node_m, _ = specialise(gpb.node, {"mode": m_})
        # both returned buffers are the input itself (whichever way the two names were bound to it)
        from sa.inline import Inliner as _InlP
        inl_m = _InlP(node_m)
        rets_m = [r for r in ast.walk(node_m) if isinstance(r, ast.Return) and isinstance(r.value, ast.Tuple) and len(r.value.elts) == 2]
        if rets_m and all(inl_m.text(e) == gpb.params[0].name for r in rets_m for e in r.value.elts):
            placeholder_modes.add(m_)
    col.ob("G8", "S2", f"{rel}::_get_padding_buffers::placeholder-modes", placeholder_modes == {"constant"},
           f"the kernel returns placeholder buffers for modes {sorted(placeholder_modes)}", rel, gpb.line)
    for f in (pv, cbs):
        pmf = parent_map(f.node)
        st_names = None
        for n in own_nodes(f.node):
            if isinstance(n, ast.Assign) and isinstance(n.value, ast.Call) and call_name(n.value) == "_get_padding_buffers":
                st_names = {t.id for t in n.targets[0].elts}
        bad = []
        for c in own_calls(f.node):
            if isinstance(c.func, ast.Attribute) and c.func.attr == "masked_scatter" and len(c.args) == 2 \
                    and u(c.args[1]) in (st_names or set()):
                gs = guards_of(pmf, c)
                # unreachable when mode is a placeholder mode: `if mode != 'constant':`, the else arm of `== 'constant'`, or
                # after the guard clause `if mode == 'constant': return ...`
                from sa.specialise import _eval as _sev, _UNK as _SUNK
                for m_ in sorted(placeholder_modes) or ["constant"]:
                    excluded = False
                    for t, pol in gs:
                        v_ = _sev(t, {"mode": m_})
                        if v_ is not _SUNK and bool(v_) != pol:
                            excluded = True
                    if not excluded:
                        bad.append(c)
                        break
        col.ob("G8", "S2", f"{rel}::{f.qualname}::buffer-scatters-skipped-for-placeholders", not bad,
               f"`{u(bad[0])[:70] if bad else ''}` scatters a placeholder buffer in constant mode", rel,
               bad[0].lineno if bad else f.line)

    # ---- S3 evaluation mode is the identity -----------------------------------------------------------------
    pmr = parent_map(rs.node)
    idret = []
    for n in own_nodes(rs.node):
        if isinstance(n, ast.Return):
            gs = guards_of(pmr, n)
            if any((u(t) == "training" and not pol) or (u(t) == "not training" and pol) for t, pol in gs):
                idret.append(n)
    rdr = ReachingDefs(rs.node)
    ok3 = len(idret) == 1 and isinstance(idret[0].value, ast.Tuple) and [u(x) for x in idret[0].value.elts] == ["input", "in_lens"] \
        and all(all(d.kind == "param" for d in rdr.defs_of(x)) for x in idret[0].value.elts)
    col.ob("G9", "S3", "_img.py::random_shift::eval-identity", ok3,
           "in evaluation mode random_shift does not return the parameter objects (input, in_lens) themselves", "_img.py",
           idret[0].lineno if idret else rs.line, sample=u(idret[0].value) if idret else None)
    m = pkg.func("_img::RandomShift.forward")
    calls = [c for c in own_calls(m.node) if call_name(c) == "random_shift"]
    okt = len(calls) == 1 and u(calls[0].args[-1]) == "self.training" or any(
        k.arg == "training" and u(k.value) == "self.training" for c in calls for k in c.keywords)
    col.ob("G9", "S3", "_img.py::RandomShift.forward::passes-self.training", okt,
           "RandomShift.forward does not pass self.training (the layer would shift in evaluation mode)", "_img.py", m.line)

    # ---- S4 random pad amounts: trunc(u * prop * len), u in [0, 1) -----------------------------------------------
    # decided on the expansion of the `pad` argument handed to pad_variable (temporaries and `*=` forward-substituted):
    #   (stack([prop[0] * L, prop[1] * L]) * rand_like(..)).long()   with   L = in_lens.float()
    from sa.inline import Inliner
    inl_r = Inliner(rs.node, rdr)
    pvc = [c for c in own_calls(rs.node) if call_name(c) == "pad_variable"]
    shape, lsrc = ["?"], None
    if len(pvc) == 1:
        bb = bind_args(pvc[0], pv, False)
        pe = inl_r.expand(bb.arg_for("pad"))
        shape = []
        cur = pe
        if isinstance(cur, ast.Call) and isinstance(cur.func, ast.Attribute) and cur.func.attr == "long" and not cur.args:
            shape.append("long")
            cur = cur.func.value
        elif isinstance(cur, ast.Call) and isinstance(cur.func, ast.Attribute) and cur.func.attr == "to" and [u(a_) for a_ in cur.args] == ["torch.long"]:
            shape.append("long")
            cur = cur.func.value
        if isinstance(cur, ast.BinOp) and isinstance(cur.op, ast.Mult):
            sides = [cur.left, cur.right]
            rnd = [x for x in sides if isinstance(x, ast.Call) and call_name(x) in ("torch.rand_like", "torch.rand")]
            oth = [x for x in sides if x not in rnd]
            if len(rnd) == 1 and len(oth) == 1:
                shape.append("*rand")
                st_ = oth[0]
                if isinstance(st_, ast.Call) and call_name(st_) == "torch.stack" and st_.args and isinstance(st_.args[0], (ast.List, ast.Tuple)):
                    els = st_.args[0].elts
                    facs = []
                    for e_ in els:
                        if isinstance(e_, ast.BinOp) and isinstance(e_.op, ast.Mult):
                            pr = [x for x in (e_.left, e_.right) if u(x).startswith("prop[")]
                            ot = [x for x in (e_.left, e_.right) if x not in pr]
                            if len(pr) == 1 and len(ot) == 1:
                                facs.append((u(pr[0]), u(ot[0])))
                    if len(facs) == 2 and [f_[0] for f_ in facs] == ["prop[0]", "prop[1]"] and facs[0][1] == facs[1][1]:
                        shape.append("stack(prop[0]*len, prop[1]*len)")
                        lsrc = facs[0][1]
                    else:
                        shape.append("stack(?)")
                else:
                    shape.append(u(st_)[:40])
            else:
                shape.append(u(cur)[:40])
        else:
            shape.append(u(cur)[:40])
    col.ob("G12", "S4", "_img.py::random_shift::pad=trunc(rand*prop*len)", shape == ["long", "*rand", "stack(prop[0]*len, prop[1]*len)"],
           f"the pad amounts are {shape} (outermost first); expected (left, right) = trunc(u * prop * len) with u in [0, 1), "
           f"which bounds each side by prop * len and keeps it a non-negative whole number", "_img.py",
           pvc[0].lineno if pvc else rs.line, sample=shape)
    # the proportion is applied to in_lens (through a float copy)
    col.ob("G12", "S4", "_img.py::random_shift::len-source", lsrc in ("in_lens.float()", "in_lens.to(torch.float)"),
           f"the proportion is applied to `{lsrc}`, not to in_lens", "_img.py", rs.line)
    # reported output lengths: the second returned value on the training path = in_lens + pad.sum(0)
    tr = [n for n in own_nodes(rs.node) if isinstance(n, ast.Return) and isinstance(n.value, ast.Tuple) and n not in idret]
    olv = None
    if tr and pvc:
        olv = inl_r.text(tr[0].value.elts[1])
        padx = inl_r.text(bb.arg_for("pad"))
    col.ob("G12", "S4", "_img.py::random_shift::out_lens=in_lens+pad.sum(0)", olv is not None and olv.replace(" ", "") in (
        f"in_lens+{padx}.sum(0)".replace(" ", ""), f"{padx}.sum(0)+in_lens".replace(" ", "")),
           f"reported output lengths are `{(olv or '')[:120]}`", "_img.py", rs.line)
    # prop validated non-negative (and < 1 for reflect) by the Module
    init = pkg.func("_img::RandomShift.__init__")
    txt = " ".join(u(n) for n in own_nodes(init.node) if isinstance(n, (ast.If, ast.Call)))
    col.ob("G3", "S4", "_img.py::RandomShift.__init__::prop-validated", "prop" in txt and ("< 0" in txt or "is_nonnegf" in txt or "as_nonnegf" in txt or "is_gte" in txt),
           "RandomShift does not validate that proportions are non-negative", "_img.py", init.line, nontrivial=False)

    # ---- S5 truncating slices ---------------------------------------------------------------------------------
    nsites = 0
    for f in (gpb, pv, cbs):
        ta = TruncAnalysis(f)
        bad = [s for s in ta.sites if not s["ok"]]
        nsites += len(ta.sites)
        by_branch = {}
        for s in bad:
            by_branch.setdefault(s["branch"], []).append(s)
        if not bad:
            col.ob("G23", "S5", f"{rel}::{f.qualname}::index-slices-cover-their-extent", True, "", rel, f.line,
                   sample=[dict(slice=u(s['node']), extent=s['extents']) for s in ta.sites][:4])
        for br, ss in by_branch.items():
            s0 = ss[0]
            col.ob("G23", "S5", f"{rel}::{f.qualname}::truncating-slice[{br}]", False,
                   f"`{u(s0['node'])}` slices an index range of extent {s0['extents']} to `{s0['k']}` entries and the "
                   f"result is used against an axis of size `{s0['k']}`: when the pad exceeds the time dimension the "
                   f"slice is silently shorter and the shapes disagree at run time", rel, s0["node"].lineno,
                   sample=[u(s['node']) for s in ss])
    col.floor("index_slice_sites", nsites, 12)
    # ---- S6 chunk_by_slices index arithmetic == per-sequence pad-and-slice specification -------------------------
    _slice_arithmetic(ctx, cbs, gpb)
    _pad_arithmetic(ctx, pv, gpb)
    _mask_broadcast_before_counting(ctx)
    _pad_and_chunk_value_tables(ctx)
    _scatter_buffers_take_the_input_dtype(ctx)
    # ---- S7 handler / raiser agreement around the validation helpers -----------------------------------------------
    from rules.excmatch import ArgcheckRaises, mismatched_handlers
    acr = ArgcheckRaises(pkg)
    ntry = 0
    for f in ctx.owned():
        bad, seen = mismatched_handlers(pkg, f, acr)
        ntry += seen
        frel = f.module.relname
        for t, first, raises, caught in bad:
            col.ob("G25", "S7", f"{frel}::{f.qualname}::handler-matches-raiser[{first.split('(')[0]}]", False,
                   f"`{first}` raises {raises} on a non-conforming value but the enclosing try only catches {caught}: "
                   f"the fallback branch (the documented alternative input form) is unreachable and the call raises "
                   f"instead", frel, t.lineno)
        if seen and not bad:
            col.ob("G25", "S7", f"{frel}::{f.qualname}::handler-matches-raiser", True, "", frel, f.line)
    col.floor("argcheck_try_sites", ntry, 1)
    plumbing(ctx, "S1")
    return dict(
        explanation=(
            "Decides for C09: (S1) Module->functional forwarding, kernel bindings with left/right in order, buffers "
            "scattered on their own sides, pad amounts of chunk_by_slices = max(-start, 0) / max(end - lens, 0); (S2) "
            "PadMode == kernel dispatch (else raises), RandomShiftMode <= PadMode, buffer scatters skipped exactly for "
            "the placeholder mode; (S3) random_shift returns its parameters themselves in evaluation mode and the "
            "layer passes self.training; (S4) pad amounts are trunc(u * prop * len), u in [0, 1), output lengths "
            "in_lens + pad.sum(0); (S5) every index-range slice is covered by construction or by a dominating guard "
            "[F16 repaired]; (S6) the nine lengths / masks of chunk_by_slices, the four position masks of pad_variable "
            "and, per padding mode, the source index and count of both buffers of _get_padding_buffers, extracted as "
            "min/max-linear terms, agree with the per-sequence constant / reflect / replicate rule at every grid point; "
            "(S7) handlers around validation helpers catch what the helper raises [F20 repaired]. NOT decided: that "
            "masked_select / masked_scatter pair elements in the same order (row-major order of both masks is trusted), "
            "pad_masked_sequence layout."),
        decided=["S1", "S2", "S3", "S4", "S5", "S6", "S7"],
        not_decided=["element order of masked_select/masked_scatter pairs", "pad_masked_sequence layout"],
        assumptions=["torch.rand_like draws from [0, 1)", ".long() truncates toward zero"],
    )


def _slice_arithmetic(ctx: Ctx, cbs, gpb):
    """S6: every length / mask of chunk_by_slices, as a min/max-linear term over (start, end, len, t), agrees with the
    specification "take the sequence alone, pad it, slice it" at every point of a finite grid."""
    from sa import minmax as MM
    col = ctx.col
    rel = cbs.module.relname
    rd = ReachingDefs(cbs.node)
    slices_param = cbs.params[1].name if len(cbs.params) > 1 else "slices"

    def col_of(v):
        # slices[..., i](.contiguous())
        while isinstance(v, ast.Call) and isinstance(v.func, ast.Attribute) and v.func.attr in MM.PASS_METHODS:
            v = v.func.value
        if isinstance(v, ast.Subscript) and isinstance(v.value, ast.Name) and v.value.id == slices_param:
            sl = v.slice
            if isinstance(sl, ast.Tuple) and len(sl.elts) == 2 and isinstance(sl.elts[1], ast.Constant):
                return {0: "S", 1: "E"}.get(sl.elts[1].value)
        return None

    def leaf_of_def(d):
        if d.kind == "param" and d.name == "lens":
            return "L"
        if d.name == "lens" and d.kind == "assign":
            return "L"  # the default (lens = T for every row) is an instance of the general case
        v = d.value
        if v is None:
            return None
        if d.kind == "unpack" and isinstance(v, ast.Tuple) and d.slot and len(d.slot) == 1 and d.slot[0] < len(v.elts):
            return col_of(v.elts[d.slot[0]])
        if d.kind == "assign":
            c = col_of(v)
            if c:
                return c
            if isinstance(v, ast.Call) and call_name(v) == "torch.arange":
                return "t"
            from sa.astutil import extent_of as _eo
            if _eo(v) is not None and _eo(v)[1] == 1:
                return "T"
        if d.kind == "unpack" and isinstance(v, ast.Tuple) and d.slot and len(d.slot) == 1 and d.slot[0] < len(v.elts):
            e = v.elts[d.slot[0]]
            from sa.astutil import extent_of as _eo
            if _eo(e) is not None and _eo(e)[1] == 1:
                return "T"
        return None

    def leaf_of_expr(e):
        if isinstance(e, ast.Subscript) and isinstance(e.value, ast.Name) and isinstance(e.slice, ast.Slice):
            if {leaf_of_def(d) for d in rd.defs_of(e.value)} == {"t"}:
                return "t"
        return None

    ex = MM.Extractor(rd, leaf_of_def, leaf_of_expr)

    def grid(with_t):
        for T in (1, 2, 3, 4):
            for L in range(0, T + 1):
                for S in range(-5, 10):
                    for E in range(-5, 10):
                        if with_t:
                            for t in range(0, 17):
                                yield dict(S=S, E=E, L=L, T=T, t=t)
                        else:
                            yield dict(S=S, E=E, L=L, T=T)

    def CL(v): return max(v["E"] - v["S"], 0)
    def LP(v): return 0 if CL(v) == 0 else max(-v["S"], 0)
    def RP(v): return 0 if CL(v) == 0 else max(v["E"] - v["L"], 0)
    def SL(v): return max(min(v["E"], v["L"]) - max(v["S"], 0), 0)
    def OFF(v): return max(max(v["S"], 0) - v["L"], 0)

    specs = {
        "left-pad": (False, LP, "0 if the slice is empty else max(-start, 0)"),
        "right-pad": (False, RP, "0 if the slice is empty else max(end - len, 0)"),
        "chunk-lens": (False, CL, "max(end - start, 0)"),
        "kept-elements": (True, lambda v: max(v["S"], 0) <= v["t"] < min(v["E"], v["L"]), "max(start,0) <= t < min(end,len)"),
        "left-buffer-positions": (True, lambda v: v["t"] < LP(v), "t < left pad"),
        "right-buffer-positions": (True, lambda v: LP(v) + SL(v) <= v["t"] < LP(v) + SL(v) + RP(v),
                                   "left+kept <= t < left+kept+right"),
        "reflect-tail-source": (True, lambda v: OFF(v) > 0 and LP(v) + SL(v) + OFF(v) <= v["t"] < LP(v) + SL(v) + RP(v),
                                "slice wholly right of the sequence: positions offset.. of the right padding"),
        "reflect-tail-target": (True, lambda v: OFF(v) > 0 and v["t"] < CL(v), "slice wholly right of the sequence: t < chunk length"),
        "kept-positions": (True, lambda v: LP(v) <= v["t"] < LP(v) + SL(v), "left <= t < left+kept"),
    }
    found = {}
    kcalls = [c for c in own_calls(cbs.node) if call_name(c) == "_get_padding_buffers"]
    b = bind_args(kcalls[0], gpb, False)
    found["left-pad"] = (b.arg_for("left_pad"), False)
    found["right-pad"] = (b.arg_for("right_pad"), False)
    rets = [n for n in own_nodes(cbs.node) if isinstance(n, ast.Return) and isinstance(n.value, ast.Tuple) and len(n.value.elts) == 2]
    if not rets:
        raise AnalysisError("C09: chunk_by_slices has no (chunks, lens) return")
    last = max(rets, key=lambda r: r.lineno)
    found["chunk-lens"] = (last.value.elts[1], False)
    # buffers: unpack slots of the kernel call
    buf_slot = {}
    for d in rd.defs:
        if d.kind == "unpack" and d.value is kcalls[0] and d.slot and len(d.slot) == 1:
            buf_slot[d.name] = d.slot[0]

    CREATORS = ("new_full", "new_empty", "new_zeros", "full", "empty", "zeros", "full_like", "empty_like", "zeros_like")

    def is_output_buffer(e):
        """does the tensor `e` derive from a freshly created buffer (the chunk output) rather than from the input only?"""
        return any((isinstance(c.func, ast.Attribute) and c.func.attr in CREATORS) or call_name(c).split(".")[-1] in CREATORS
                   for c in rd.derives(e).calls())

    def selection(v):
        """(base, mask) of `base[mask]` / `base.masked_select(mask)`."""
        if isinstance(v, ast.Subscript):
            return v.value, v.slice
        if isinstance(v, ast.Call) and isinstance(v.func, ast.Attribute) and v.func.attr == "masked_select" and len(v.args) == 1:
            return v.func.value, v.args[0]
        return None

    def source_role(e):
        if not isinstance(e, ast.Name):
            return None
        ds = list(rd.defs_of(e))
        if len(ds) != 1:
            return None
        d = ds[0]
        if d.kind == "unpack" and d.value is kcalls[0]:
            return {0: "left-buffer-positions", 1: "right-buffer-positions"}.get(d.slot[0])
        sel = selection(d.value) if d.kind == "assign" else None
        if sel is not None:
            return "reflect-tail-target" if is_output_buffer(sel[0]) else "kept-positions"
        return None

    for n in own_nodes(cbs.node):
        if isinstance(n, ast.Call) and isinstance(n.func, ast.Attribute):
            if n.func.attr == "masked_select" and len(n.args) == 1 and not is_output_buffer(n.func.value):
                found["kept-elements"] = (n.args[0], True)
            if n.func.attr == "masked_scatter" and len(n.args) == 2:
                r = source_role(n.args[1])
                if r is None:
                    raise AnalysisError(f"C09: cannot tell what `{u(n)[:60]}` scatters")
                if r in found:
                    raise AnalysisError(f"C09: two scatters for {r}")
                found[r] = (n.args[0], True)
                if r == "reflect-tail-target":
                    src = list(rd.defs_of(n.args[1]))[0].value
                    found["reflect-tail-source"] = (selection(src)[1], True)
    missing = sorted(set(specs) - set(found))
    if missing:
        raise AnalysisError(f"C09: chunk_by_slices anchors not found: {missing}")
    for key, (expr, is_c) in found.items():
        with_t, want, text = specs[key]
        try:
            term = ex.cond(expr) if is_c else ex.term(expr)
        except MM.Unknown as e:
            col.undecided(f"C09: {key} of chunk_by_slices is not a min/max-linear term: {e}")
            continue
        env, g, w, n = MM.counterexample(term, want, grid(with_t))
        shown = MM.showc(term) if is_c else MM.show(term)
        col.ob("G12", "S6", f"{rel}::chunk_by_slices::slice-arithmetic[{key}]", env is None,
               f"{key} is `{shown}`; the per-sequence pad-and-slice rule requires `{text}`; they differ e.g. at "
               f"start={env and env['S']}, end={env and env['E']}, len={env and env['L']}, T={env and env['T']}"
               f"{', t=%d' % env['t'] if env and 't' in env else ''}: {g} vs {w}", rel, getattr(expr, "lineno", cbs.line),
               sample=dict(term=shown, grid_points=n))
    col.count("slice_arith_terms", len(found))
    col.floor("slice_arith_terms", len(found), 9)
    # early returns: the reported lengths are the requested ones there too, unless the guard means "no sequences at all"
    pm_ = parent_map(cbs.node)
    first = cbs.params[0].name
    for r in rets:
        if r is last:
            continue
        gs = guards_of(pm_, r)
        gnames = set()
        for t, pol in gs:
            for x in ast.walk(t):
                if isinstance(x, ast.Name):
                    for d in rd.defs_of(x):
                        v = d.value
                        if d.kind == "unpack" and isinstance(v, ast.Tuple) and d.slot and d.slot[0] < len(v.elts):
                            v = v.elts[d.slot[0]]
                        from sa.astutil import extent_of
                        eo = extent_of(v) if v is not None else None
                        if eo is not None and eo[0] == first:
                            gnames.add(eo[1])
                        elif d.kind == "unpack" and d.slot and v is not None and u(v).replace(" ", "") in (
                                f"{first}.shape", f"{first}.size()", f"{first}.shape[:2]", f"{first}.shape[:3]", f"{first}.size()[:2]"):
                            gnames.add(d.slot[0])  # `N, T = x.shape[:2]`
        only_batch = gnames == {0}
        try:
            term = ex.term(r.value.elts[1])
        except MM.Unknown as e:
            col.undecided(f"C09: early return of chunk_by_slices: {e}")
            continue
        # under a guard that also fires for T == 0 (with sequences present) the lengths must still be max(end - start, 0)
        env, g, w, n = MM.counterexample(term, specs["chunk-lens"][1], (v for v in grid(False) if v["L"] == 0)) if not only_batch else (None, None, None, 1)
        col.ob("G12", "S6", f"{rel}::chunk_by_slices::early-return-reports-the-requested-lengths", env is None,
               f"`{u(r)[:80]}` is taken under `{' and '.join(u(t) for t, _ in gs)}`, which also holds for a batch of empty "
               f"sequences (T == 0): it reports length {g} where slice ({env and env['S']}, {env and env['E']}) requests {w} - a "
               f"slice lying wholly in the padding of an empty sequence is legal in constant mode", rel, r.lineno,
               sample=dict(guard_axes=sorted(gnames), term=MM.show(term)))
    # the output extent must not truncate any scatter mask: seen from one row, every position a mask selects lies
    # below the extent the output was allocated with (the batch-wide maximum is at least the row's own value)
    alloc = [c for c in own_calls(cbs.node) if isinstance(c.func, ast.Attribute) and c.func.attr in ("new_full", "new_zeros", "new_empty")
             and c.args and isinstance(c.args[0], ast.Tuple) and len(c.args[0].elts) == 3]
    if len(alloc) != 1:
        raise AnalysisError("C09: chunk_by_slices does not allocate its (N, Tp, F) output once")
    ex.row_level = True
    try:
        ext = ex.term(alloc[0].args[0].elts[1])
    except MM.Unknown as e:
        col.undecided(f"C09: output extent of chunk_by_slices: {e}")
        ext = None
    if ext is not None:
        worst = None
        for key in ("left-buffer-positions", "right-buffer-positions", "reflect-tail-target", "kept-positions"):
            expr, _ = found[key]
            try:
                term = ex.cond(expr)
            except MM.Unknown:
                continue
            for env in grid(False):
                e_ = MM.ev(ext, env)
                for t in range(0, 30):
                    env["t"] = t
                    if t >= e_ and MM.evc(term, env) and worst is None:
                        worst = (key, dict(env), e_)
        col.ob("G23", "S6", f"{rel}::chunk_by_slices::output-extent-covers-every-scatter", worst is None,
               f"the output is allocated with `{MM.show(ext)}` positions per row (batch maximum of that), but the "
               f"{worst and worst[0]} mask selects position t={worst and worst[1]['t']} at start={worst and worst[1]['S']}, "
               f"end={worst and worst[1]['E']}, len={worst and worst[1]['L']} (extent {worst and worst[2]}): the mask is "
               f"truncated while its source buffer keeps all elements, so every later masked_scatter is misaligned", rel,
               alloc[0].lineno, sample=MM.show(ext))


def _pad_arithmetic(ctx: Ctx, pv, gpb):
    """S6 (continued): pad_variable's four position masks and, per padding mode, the source index of every element of
    the two buffers built by _get_padding_buffers, against torch's constant / reflect / replicate rule for one
    sequence (left pad LP, right pad RP, length L): output position t holds x[t - LP] inside, x[LP - t] (reflect) /
    x[0] (replicate) on the left, x[L - 2 - j] (reflect) / x[L - 1] (replicate) at offset j on the right."""
    from sa import minmax as MM
    from sa.specialise import specialise
    col = ctx.col
    rel = pv.module.relname

    def make(node, padname=None, lp=None, rp=None, lens="lens"):
        rd = ReachingDefs(node)

        def leaf_of_def(d):
            if d.kind == "param":
                if d.name == lens:
                    return "L"
                if lp and d.name == lp:
                    return "LP"
                if rp and d.name == rp:
                    return "RP"
            if d.kind == "assign" and isinstance(d.value, ast.Call) and call_name(d.value) == "torch.arange":
                return "t"
            return None

        def leaf_of_expr(e):
            if padname and isinstance(e, ast.Subscript) and isinstance(e.value, ast.Name) and e.value.id == padname \
                    and isinstance(e.slice, ast.Constant) and e.slice.value in (0, 1):
                return ("LP", "RP")[e.slice.value]
            if isinstance(e, ast.Subscript) and isinstance(e.value, ast.Name) and isinstance(e.slice, ast.Slice):
                if {leaf_of_def(d) for d in rd.defs_of(e.value)} == {"t"}:
                    return "t"
            return None

        def term_hook(e, ex, depth):
            if padname and isinstance(e, ast.Call) and isinstance(e.func, ast.Attribute) and e.func.attr == "sum" \
                    and isinstance(e.func.value, ast.Name) and e.func.value.id == padname and len(e.args) == 1 \
                    and isinstance(e.args[0], ast.Constant) and e.args[0].value == 0:
                return ("add", ("leaf", "LP"), ("leaf", "RP"))
            return None
        return rd, MM.Extractor(rd, leaf_of_def, leaf_of_expr, term_hook=term_hook)

    def grid(reflect=False, replicate=False):
        for L in range(0, 5):
            if replicate and L < 1:
                continue
            for LP in range(0, 6):
                for RP in range(0, 6):
                    if reflect and (LP >= L or RP >= L):
                        continue
                    for t in range(0, 14):
                        yield dict(L=L, LP=LP, RP=RP, t=t)

    nchecked = 0

    def compare(key, term, want, text, line, g):
        nonlocal nchecked
        env, got, w, n = MM.counterexample(term, want, g)
        shown = MM.showc(term) if MM.is_cond(term) else MM.show(term)
        nchecked += 1
        col.ob("G12", "S6", f"{rel}::{key}", env is None and n > 0,
               f"{key.split('::')[-1]} is `{shown[:200]}`; the per-sequence padding rule requires {text}; they differ e.g. "
               f"at {env}: {got} vs {w}", rel, line, sample=dict(term=shown[:160], grid_points=n))

    # ---- pad_variable ------------------------------------------------------------------------------------------
    padname = pv.params[2].name
    rd, ex = make(pv.node, padname=padname, lens=pv.params[1].name)
    kcalls = [c for c in own_calls(pv.node) if call_name(c) == "_get_padding_buffers"]
    specs = {
        "valid-elements": (lambda v: v["t"] < v["L"], "t < len"),
        "left-buffer-positions": (lambda v: v["t"] < v["LP"], "t < left pad"),
        "sequence-positions": (lambda v: v["LP"] <= v["t"] < v["LP"] + v["L"], "left <= t < left + len"),
        "right-buffer-positions": (lambda v: v["LP"] + v["L"] <= v["t"] < v["LP"] + v["L"] + v["RP"], "left+len <= t < left+len+right"),
    }
    found = {}
    for n in own_nodes(pv.node):
        if isinstance(n, ast.Call) and isinstance(n.func, ast.Attribute):
            if n.func.attr == "masked_select" and len(n.args) == 1:
                found["valid-elements"] = n.args[0]
            if n.func.attr in ("masked_scatter", "masked_scatter_") and len(n.args) == 2:
                src_ = n.args[1]
                ds = list(rd.defs_of(src_)) if isinstance(src_, ast.Name) else []
                if len(ds) == 1 and ds[0].kind == "unpack" and ds[0].value is kcalls[0]:
                    found[("left-buffer-positions", "right-buffer-positions")[ds[0].slot[0]]] = n.args[0]
                else:
                    # the valid elements, selected into a temporary first or in place
                    sv_ = ds[0].value if len(ds) == 1 and ds[0].kind == "assign" else src_
                    if isinstance(sv_, ast.Call) and isinstance(sv_.func, ast.Attribute) and sv_.func.attr == "masked_select":
                        found["sequence-positions"] = n.args[0]
    if set(found) != set(specs):
        raise AnalysisError(f"C09: pad_variable anchors not found: {sorted(set(specs) - set(found))}")
    for key, expr in found.items():
        try:
            term = ex.cond(expr)
        except MM.Unknown as e:
            col.undecided(f"C09: {key} of pad_variable: {e}")
            continue
        compare(f"pad_variable::pad-arithmetic[{key}]", term, specs[key][0], specs[key][1], expr.lineno, grid())
    # output lengths: the Tp extent is the max of len + left + right
    # ---- _get_padding_buffers, per mode ---------------------------------------------------------------------------
    want_idx = {
        ("reflect", 0): (lambda v: v["LP"] - v["t"] if v["t"] < v["LP"] else None, "x[left - t]"),
        ("reflect", 1): (lambda v: v["L"] - 2 - v["t"] if v["t"] < v["RP"] else None, "x[len - 2 - j]"),
        ("replicate", 0): (lambda v: 0 if v["t"] < v["LP"] else None, "x[0]"),
        ("replicate", 1): (lambda v: v["L"] - 1 if v["t"] < v["RP"] else None, "x[len - 1]"),
    }
    want_mask = {0: (lambda v: v["t"] < v["LP"], "j < left pad"), 1: (lambda v: v["t"] < v["RP"], "j < right pad")}
    P = [p.name for p in gpb.params]
    for mode in ("reflect", "replicate"):
        node, folded = specialise(gpb.node, {P[4]: mode})
        if folded < 1:  # (how many tests are folded depends on the order of the arms)
            raise AnalysisError("C09: _get_padding_buffers no longer dispatches on its mode formal")
        rd, ex = make(node, lp=P[2], rp=P[3], lens=P[1])
        rets = [n for n in ast.walk(node) if isinstance(n, ast.Return) and isinstance(n.value, ast.Tuple) and len(n.value.elts) == 2]
        if len(rets) != 1:
            # (a mode that no arm serves ends in the refusal: reported by the dispatch rules; nothing to compare here)
            col.undecided(f"C09: _get_padding_buffers specialised on mode {mode!r} does not return (left, right) once")
            continue
        for slot, elt in enumerate(rets[0].value.elts):
            ds = list(rd.defs_of(elt)) if isinstance(elt, ast.Name) else []
            if len(ds) != 1 or ds[0].kind != "assign":
                col.undecided(f"C09: {mode} buffer {slot} has {len(ds)} definitions")
                continue
            v = ds[0].value
            # <source>.masked_select(mask), source = x.gather(1, idx)[.expand] | x[:, :1].expand(...)
            if not (isinstance(v, ast.Call) and isinstance(v.func, ast.Attribute) and v.func.attr == "masked_select" and len(v.args) == 1):
                col.undecided(f"C09: {mode} buffer {slot} is not a masked selection")
                continue
            mask, src = v.args[0], v.func.value
            while isinstance(src, ast.Call) and isinstance(src.func, ast.Attribute) and src.func.attr in ("expand", "expand_as", "contiguous"):
                src = src.func.value
            try:
                if isinstance(src, ast.Call) and isinstance(src.func, ast.Attribute) and src.func.attr == "gather" and len(src.args) == 2 \
                        and u(src.func.value) == P[0] and u(src.args[0]) == "1":
                    idx = ex.term(src.args[1])
                elif isinstance(src, ast.Subscript) and u(src) == f"{P[0]}[:, :1]":
                    idx = 0
                else:
                    raise MM.Unknown(f"source `{u(src)[:50]}`")
                mterm = ex.cond(mask)
            except MM.Unknown as e:
                col.undecided(f"C09: {mode} buffer {slot}: {e}")
                continue
            g = lambda: grid(reflect=(mode == "reflect"), replicate=(mode == "replicate"))
            side = ("left", "right")[slot]
            compare(f"_get_padding_buffers::{mode}-{side}-source-index", idx, want_idx[(mode, slot)][0],
                    want_idx[(mode, slot)][1], v.lineno, g())
            compare(f"_get_padding_buffers::{mode}-{side}-count", mterm, want_mask[slot][0], want_mask[slot][1], v.lineno, g())
    col.count("pad_arith_terms", nchecked)
    col.floor("pad_arith_terms", nchecked, 12)


def _scatter_buffers_take_the_input_dtype(ctx: Ctx):
    """S10: the buffer the selected / padded elements are scattered into has the element type of the input (`full_like(x, ..)`,
    `x.new_full(..)`, `torch.full(.., dtype=x.dtype)`): allocated with the default type (float32) the scatter raises for every other input -
    integer token ids, double or half features - although 'any element type' is part of every batch the property quantifies over."""
    from sa.defuse import ReachingDefs
    col, pkg = ctx.col, ctx.pkg
    n_sites = 0
    for fname in ("pad_masked_sequence", "pad_variable", "chunk_by_slices"):
        f = pkg.func(f"{MOD}::{fname}")
        rel = f.module.relname
        rd = ReachingDefs(f.node)
        helpers = {st.name: st for st in pkg.module(MOD).tree.body if isinstance(st, ast.FunctionDef) and st.name.startswith("_")}
        bodies = [(f.node, rd)] + [(h_, ReachingDefs(h_)) for c_ in own_calls(f.node) for h_ in [helpers.get(call_name(c_))] if h_ is not None]
        for node_, rd_ in bodies:
            for c in ast.walk(node_):
                if not (isinstance(c, ast.Call) and isinstance(c.func, ast.Attribute) and c.func.attr in ("masked_scatter", "masked_scatter_")):
                    continue
                recv = c.func.value
                makers = []
                seen, todo = set(), [recv]
                while todo and len(seen) < 20:
                    e_ = todo.pop()
                    if isinstance(e_, ast.Name):
                        for d_ in rd_.defs_of(e_):
                            if d_.value is not None and id(d_.value) not in seen:
                                seen.add(id(d_.value))
                                todo.append(d_.value)
                    elif isinstance(e_, ast.Call):
                        cn = call_name(e_)
                        if isinstance(e_.func, ast.Attribute) and e_.func.attr in ("masked_scatter", "masked_scatter_", "view", "contiguous", "transpose"):
                            todo.append(e_.func.value)
                        else:
                            makers.append(e_)
                if not makers:
                    continue
                n_sites += 1

                def typed(m_):
                    cn = call_name(m_)
                    if cn.split(".")[-1].endswith("_like") and m_.args:
                        return True
                    if isinstance(m_.func, ast.Attribute) and m_.func.attr.startswith("new_"):
                        return True
                    return any(k_.arg == "dtype" and isinstance(k_.value, ast.Attribute) and k_.value.attr == "dtype" for k_ in m_.keywords) \
                        or not cn.startswith("torch.")
                untyped = [m_ for m_ in makers if not typed(m_)]
                col.ob("G28", "S10", f"{rel}::{fname}::scatter-buffer-has-the-input-dtype@{u(recv)[:20]}", not untyped,
                       (f"`{u(untyped[0])[:70]}` allocates the buffer that `{u(c)[:50]}` fills without the element type of the input: for any input that is "
                        f"not float32 (token ids, double, half) the scatter raises") if untyped else "", rel, c.lineno, sample=[u(m_)[:40] for m_ in makers])
    col.floor("scatter_buffer_sites", n_sites, 3)


def _pad_masked_table(ctx: Ctx, f, rel: str) -> bool:
    """S8 by value: pad_masked_sequence interpreted over exact values (sa/interp.py + sa/teval.py, private helpers of the module
    followed) for inputs with and without a feature axis, both layouts, and masks of the full shape and of the broadcasting shapes
    (1, T) and (N, 1): row n of the result is the selected entries of row n in order, then the padding value; the reported length is the
    number selected - per row, also when the mask has a single row. False when outside the interpreted fragment."""
    import numpy as np
    from sa.interp import Interp
    from sa.inteval import NotEvaluable
    from sa.teval import frac_array
    col, pkg = ctx.col, ctx.pkg
    helpers = {st.name: st for st in pkg.module(MOD).tree.body if isinstance(st, ast.FunctionDef) and st.name.startswith("_")}

    def lookup(c):
        return helpers.get(call_name(c))
    names = [p_.name for p_ in f.params]
    N, T, PADV = 3, 4, -9
    full = np.array([[1, 0, 1, 1], [0, 0, 1, 0], [1, 1, 1, 1]], dtype=bool)
    masks = (("full", full), ("one row (1, T)", full[1:2]), ("one column (N, 1)", np.array([[True], [False], [True]])), ("nothing selected", np.zeros((N, T), dtype=bool)))
    bad, rows = None, 0
    try:
        for rest in ((), (2,)):
            x = np.arange(N * T * int(np.prod(rest or (1,)))).reshape((N, T) + rest) + 1
            for tag, m in masks:
                mb = np.broadcast_to(m, (N, T))
                for bf in (True, False):
                    xin, min_ = (x, m) if bf else (np.swapaxes(x, 0, 1), m.T)
                    env = dict(zip(names, (frac_array(xin.tolist()), np.array(min_, dtype=bool), bf, PADV)))
                    kind, got = Interp(lookup=lookup, tensors=True).run(f.node, env)
                    rows += 1
                    want_len = [int(mb[n_].sum()) for n_ in range(N)]
                    want = np.full((N, T) + rest, PADV)
                    for n_ in range(N):
                        sel = x[n_][mb[n_]]
                        want[n_, :len(sel)] = sel
                    ok = kind == "return" and isinstance(got, tuple) and len(got) == 2 and hasattr(got[0], "shape")
                    if ok:
                        out = np.asarray(got[0], dtype=object)
                        out = out if bf else np.swapaxes(out, 0, 1)
                        ok = out.shape == want.shape and [int(v_) for v_ in out.reshape(-1).tolist()] == want.reshape(-1).tolist() \
                            and [int(v_) for v_ in np.asarray(got[1]).reshape(-1).tolist()] == want_len
                    if not ok and bad is None:
                        bad = (rest, tag, bf, (np.asarray(got[0]).tolist(), np.asarray(got[1]).tolist()) if kind == "return" and isinstance(got, tuple) else f"{kind} {got}",
                               (want.tolist() if bf else np.swapaxes(want, 0, 1).tolist(), want_len))
    except NotEvaluable:
        return False
    col.count("pad_masked_table_rows", rows)
    col.ob("G12", "S8", f"{rel}::pad_masked_sequence::value-table", bad is None,
           (f"feature shape {bad[0]}, mask {bad[1]}, batch_first={bad[2]}: pad_masked_sequence returns (padded, lens) = {str(bad[3])[:260]}; selecting row by row "
            f"with the mask broadcast over (N, T) gives {str(bad[4])[:260]}") if bad else "", rel, f.line, sample=dict(rows=rows))
    return True


def _mask_broadcast_before_counting(ctx: Ctx):
    """S8: pad_masked_sequence documents that the mask broadcasts with the first two dimensions of x. The per-row counts
    (`mask.sum(1)`) and the selection (`x.masked_select(mask...)`) must therefore read the *same*, already broadcast mask;
    counting on the un-broadcast version gives one count for a (1, N) mask where N are needed, and masked_scatter then
    shifts data across rows."""
    from sa.defuse import ReachingDefs
    col, pkg = ctx.col, ctx.pkg
    f = pkg.func(f"{MOD}::pad_masked_sequence")
    rel = f.module.relname
    if _pad_masked_table(ctx, f, rel):
        return
    rd = ReachingDefs(f.node)
    mname = f.params[1].name
    sums = [c for c in own_calls(f.node) if isinstance(c.func, ast.Attribute) and c.func.attr == "sum"
            and isinstance(c.func.value, ast.Name) and c.func.value.id == mname]
    # (function form `torch.sum(mask, 1)`)
    fsums = [c for c in own_calls(f.node) if call_name(c) == "torch.sum" and c.args and isinstance(c.args[0], ast.Name) and c.args[0].id == mname]
    if len(sums) + len(fsums) != 1:
        raise AnalysisError("C09: pad_masked_sequence does not count the mask once")
    counted = sums[0].func.value if sums else fsums[0].args[0]
    sums = sums or fsums
    der = rd.derives(counted)
    broadcast = any(isinstance(c.func, ast.Attribute) and c.func.attr in ("expand", "expand_as", "broadcast_to") or
                    call_name(c) in ("torch.broadcast_to", "torch.broadcast_tensors") for c in der.calls())
    col.ob("G16", "S8", f"{rel}::pad_masked_sequence::counts-read-the-broadcast-mask", broadcast,
           f"`{u(sums[0])}` counts the mask before it is expanded to x's first two dimensions (the selection uses the expanded "
           f"mask): for a mask of shape (1, N) or (T, 1) - which the docstring allows - the lengths have the wrong shape / value "
           f"and masked_scatter moves elements into other rows", rel, sums[0].lineno)


def _pad_and_chunk_value_tables(ctx: Ctx):
    """S9: `pad_variable` and `chunk_by_slices` interpreted COMPLETELY over exact values (sa/interp.py + sa/teval.py, the buffer kernel
    `_get_padding_buffers` included; nothing is run) and compared, sequence by sequence, with padding written out by hand:

        position p of sequence n (length L):  x[n, p] for 0 <= p < L;  otherwise  constant -> value,  replicate -> x[n, clamp(p, 0, L - 1)],
        reflect -> x[n, -p] on the left and x[n, 2 (L - 1) - p] on the right

    pad_variable: result row n is positions -left .. L + right - 1, the rest of the row is `value`; chunk_by_slices: row n is positions
    start .. end - 1 (nothing if end <= start) and the reported length is max(end - start, 0). Grid: the three modes; feature shapes
    (), (2,) and (2, 2) (the trailing shape of the result must be that of the input); mixed lengths; slices before, across, inside, after
    and beyond the sequence, empty and reversed ones; `lens` left out. How the masks, buffers and scatters are spelled does not matter."""
    import numpy as np
    from sa.interp import Interp
    from sa.inteval import NotEvaluable
    from sa.teval import frac_array
    col, pkg = ctx.col, ctx.pkg
    rel = pkg.module(MOD).relname
    cbs = pkg.func(f"{MOD}::chunk_by_slices")
    pv = pkg.func(f"{MOD}::pad_variable")
    helpers = {st.name: st for st in pkg.module(MOD).tree.body if isinstance(st, ast.FunctionDef) and st.name.startswith("_")}

    def lookup(c):
        return helpers.get(call_name(c))
    VALUE, T = -1, 5

    def position(v, L, p, mode, fill):
        if 0 <= p < L:
            return v[p]
        if mode == "constant":
            return fill
        if mode == "replicate":
            return v[min(max(p, 0), L - 1)]
        q = -p if p < 0 else 2 * (L - 1) - p
        return v[q] if 0 <= q < L else None  # (outside what reflection defines)

    def run(f, env):
        it = Interp(lookup=lookup, tensors=True)
        e = {a_.arg: None for a_ in f.node.args.args}
        for a_, d_ in zip(reversed(f.node.args.args), reversed(f.node.args.defaults)):
            if isinstance(d_, ast.Constant):
                e[a_.arg] = d_.value
        e.update(env)
        return it.run(f.node, e)
    all_slices = [(s_, e_) for s_ in range(-3, 8) for e_ in range(-3, 9)]
    bad = {"chunk": None, "pad": None}
    rows = {"chunk": 0, "pad": 0}
    try:
        for mode in ("constant", "replicate", "reflect"):
            for rest in ((), (2,), (2, 2)):
                fill = np.full(rest, VALUE).tolist()
                # (last: a batch of exactly TWO sequences - its (2, N) pad tensor is square, so a (N, 2) reading of it is not a shape error)
                for lens, give_lens in (([5, 3, 4, 2], True), ([5, 5, 5, 5], False)) + ((([5, 3], True),) if rest == () else ()):
                    N = len(lens)
                    x = np.arange(N * T * int(np.prod(rest or (1,)))).reshape((N, T) + rest)
                    # ---- chunk_by_slices
                    for k in range(0, len(all_slices), 4 if rest == () else 11):
                        sl = [all_slices[(k + 23 * j) % len(all_slices)] for j in range(N)]
                        if mode == "reflect":  # (reflection is defined for pads smaller than the sequence)
                            sl = [(max(s_, -(L - 1)), min(e_, 2 * L - 1)) for (s_, e_), L in zip(sl, lens)]
                        kind, got = run(cbs, dict(x=frac_array(x.tolist()), slices=frac_array([list(p_) for p_ in sl]),
                                                  lens=frac_array(lens) if give_lens else None, mode=mode, value=VALUE))
                        rows["chunk"] += 1
                        if kind != "return" or not isinstance(got, tuple) or len(got) != 2:
                            bad["chunk"] = bad["chunk"] or (mode, rest, lens, sl, f"{kind}: {got}", None)
                            continue
                        ch, cl = got
                        for i, (s_, e_) in enumerate(sl):
                            want = [position(x[i].tolist(), lens[i], p_, mode, fill) for p_ in range(s_, e_)]
                            ok = int(cl[i]) == max(e_ - s_, 0) and tuple(ch.shape[2:]) == rest and ch.shape[0] == N and ch.shape[1] >= len(want) \
                                and all(w_ is None or g_ == w_ for g_, w_ in zip(np.asarray(ch[i][:len(want)]).tolist(), want))
                            if not ok and bad["chunk"] is None:
                                bad["chunk"] = (mode, rest, lens[i], (s_, e_), (tuple(ch.shape), int(cl[i]), np.asarray(ch[i]).tolist()), want)
                    # ---- pad_variable
                    for k in range(0, 16, 1 if rest == () else 5):
                        pads = [[(k + 2 * j) % 4 for j in range(N)], [(k // 4 + 3 * j) % 4 for j in range(N)]]
                        if mode == "reflect":
                            pads = [[min(p_, L - 1) for p_, L in zip(row_, lens)] for row_ in pads]
                        kind, got = run(pv, dict(x=frac_array(x.tolist()), lens=frac_array(lens), pad=frac_array(pads), mode=mode, value=VALUE))
                        rows["pad"] += 1
                        if kind != "return" or not hasattr(got, "shape"):
                            bad["pad"] = bad["pad"] or (mode, rest, lens, pads, f"{kind}: {got}", None)
                            continue
                        for i in range(N):
                            want = [position(x[i].tolist(), lens[i], p_, mode, fill) for p_ in range(-pads[0][i], lens[i] + pads[1][i])]
                            row_ = np.asarray(got[i]).tolist() if got.shape[0] == N else []
                            ok = tuple(got.shape[2:]) == rest and len(row_) >= len(want) and all(g_ == w_ for g_, w_ in zip(row_, want)) \
                                and all(g_ == fill for g_ in row_[len(want):])
                            if not ok and bad["pad"] is None:
                                bad["pad"] = (mode, rest, lens[i], (pads[0][i], pads[1][i]), (tuple(got.shape), row_), want)
        # a batch of empty sequences (time extent 0, with and without a feature axis): constant padding gives left + right fill values
        for rest in ((), (2,)):
            fill = np.full(rest, VALUE).tolist()
            N = 3
            x0 = np.zeros((N, 0) + rest)
            pads = [[2, 0, 1], [1, 0, 3]]
            kind, got = run(pv, dict(x=frac_array(x0.tolist()) if x0.size else np.empty((N, 0) + rest, dtype=object), lens=frac_array([0] * N),
                                     pad=frac_array(pads), mode="constant", value=VALUE))
            rows["pad"] += 1
            ok = kind == "return" and hasattr(got, "shape") and tuple(got.shape[2:]) == rest and got.shape[0] == N and all(
                np.asarray(got[i]).tolist()[:pads[0][i] + pads[1][i]] == [fill] * (pads[0][i] + pads[1][i]) for i in range(N))
            if not ok and bad["pad"] is None:
                bad["pad"] = ("constant", rest, 0, (pads[0], pads[1]), (tuple(got.shape), np.asarray(got).tolist()) if kind == "return" and hasattr(got, "shape") else f"{kind}: {got}",
                              "left + right fill values per sequence")
    except NotEvaluable as e:
        col.undecided(f"{rel}: pad_variable / chunk_by_slices are outside the interpreted fragment ({e}); their values are not decided")
        return
    col.floor("chunk_value_table_rows", rows["chunk"], 100)
    col.floor("pad_value_table_rows", rows["pad"], 50)

    def _s(v):
        return str(v)[:160]
    b = bad["chunk"]
    col.ob("G12", "S9", f"{rel}::chunk_by_slices::value-table", b is None,
           (f"mode={b[0]!r}, feature shape {b[1]}, length {b[2]}, slice {b[3]}: chunk_by_slices gives (shape, length, row) = {_s(b[4])}; padding the "
            f"sequence by hand and cutting the slice gives {_s(b[5])} with the feature shape of the input") if b else "", rel, cbs.line, sample=dict(rows=rows["chunk"]))
    b = bad["pad"]
    col.ob("G12", "S9", f"{rel}::pad_variable::value-table", b is None,
           (f"mode={b[0]!r}, feature shape {b[1]}, length {b[2]}, (left, right) pad {b[3]}: pad_variable gives (shape, row) = {_s(b[4])}; padding "
            f"the sequence by hand gives {_s(b[5])} followed by the fill value") if b else "", rel, pv.line, sample=dict(rows=rows["pad"]))


def _mutants():
    from selftest.mutate import Mutant as M
    P = "_pad.py"
    I = "_img.py"
    return [
        M("arange-extent-T-again", P, "arange = torch.arange(max(T, int(left_max.item()), int(right_max.item())), device=x.device)", "arange = torch.arange(T, device=x.device)",
          "truncating-slice"),
        M("pad-variable-extent-T", P, "arange = torch.arange(max(Tp, T), device=x.device)", "arange = torch.arange(T, device=x.device)", "truncating-slice"),
        M("reflect-guard-dropped", P, "if (left_pad >= lens).any() or (right_pad >= lens).any():", "if (left_pad >= lens).any():", "truncating-slice"),
        M("left-right-swapped", P, "_get_padding_buffers(x, lens, pad[0], pad[1], mode)", "_get_padding_buffers(x, lens, pad[1], pad[0], mode)", "_get_padding_buffers-binding"),
        M("chunk-left-right-swapped", P, "_get_padding_buffers(x, lens, left_pad, right_pad, mode)", "_get_padding_buffers(x, lens, right_pad, left_pad, mode)", "G1"),
        M("buffers-swapped-on-unpack", P, "left_buf, right_buf = _get_padding_buffers(x, lens, pad[0], pad[1], mode)", "right_buf, left_buf = _get_padding_buffers(x, lens, pad[0], pad[1], mode)", "G2"),
        M("mode-arm-typo", P, "elif mode == 'replicate':", "elif mode == 'replicat':", "G8/S2"),
        M("scatter-in-constant-mode", P, "if mode != 'constant':\n        padded = padded.masked_scatter(left_mask, left_buf)", "if True:\n        padded = padded.masked_scatter(left_mask, left_buf)", "buffer-scatters-skipped"),
        M("eval-returns-clone", I, "else:\n        return (input, in_lens)", "else:\n        return (input.clone(), in_lens)", "eval-identity"),
        M("layer-ignores-training", I, "return random_shift(input, in_lens, self.prop, self.mode, self.value, self.training)", "return random_shift(input, in_lens, self.prop, self.mode, self.value)", "G"),
        M("pad-rounds-up", I, "pad = pad.long()", "pad = pad.ceil().long()", "pad=trunc(rand*prop*len)"),
        M("pad-no-rand", I, "pad *= torch.rand_like(pad)", "pad *= 1 + torch.rand_like(pad)", "pad=trunc(rand*prop*len)"),
        M("props-swapped", I, "pad = torch.stack([prop[0] * in_lens_, prop[1] * in_lens_])", "pad = torch.stack([prop[1] * in_lens_, prop[0] * in_lens_])", "pad=trunc(rand*prop*len)"),
        M("out-lens-one-side", I, "out_lens = in_lens + pad.sum(0)", "out_lens = in_lens + pad[0]", "out_lens"),
        M("right-pad-from-start", P, "right_pad = (end - lens).clamp_min_(0).masked_fill_(empty, 0)", "right_pad = (end - start).clamp_min_(0).masked_fill_(empty, 0)", "_get_padding_buffers-binding"),
        M("start-clamped-to-T", P, "start_ = start.clamp_min(0)", "start_ = start.clamp(0, T)", "slice-arithmetic[reflect-tail"),
        M("end-not-clamped", P, "end_ = torch.min(end, lens)", "end_ = end", "slice-arithmetic[kept-elements]"),
        M("chunk-lens-unclamped", P, "chunk_lens = (end - start).clamp_min_(0)", "chunk_lens = end - start", "slice-arithmetic[chunk-lens]"),
        M("empty-slices-still-padded", P, "left_pad = (-start).clamp_min_(0).masked_fill_(empty, 0)", "left_pad = (-start).clamp_min_(0)", "slice-arithmetic[left-pad]"),
        M("mid-mask-forgets-left", P, "mid_mask = ((left_pad + slice_lens).unsqueeze(1) > arange[:Tp])", "mid_mask = (slice_lens.unsqueeze(1) > arange[:Tp])", "slice-arithmetic[kept-positions]"),
        M("tail-source-off-by-one", P, "((left_pad + slice_lens + offset).unsqueeze(1) <= arange[:Tp])", "((left_pad + slice_lens + offset).unsqueeze(1) < arange[:Tp])", "slice-arithmetic[reflect-tail-source]"),
        M("pair-prop-unreachable", I, "except (TypeError, ValueError):", "except TypeError:", "handler-matches-raiser"),
        M("twin:offset-from-raw-start", P, "offset = (start_ - lens).clamp_min_(0)", "offset = (start - lens).clamp_min_(0)", "", twin=True),
        M("twin:relu-for-clamp", P, "slice_lens = (end_ - start_).clamp_min(0)", "slice_lens = torch.relu(end_ - start_)", "", twin=True),
        M("twin:max-for-clamp", P, "start_ = start.clamp_min(0)", "start_ = torch.max(start, torch.zeros_like(start))", "", twin=True),
        M("reflect-right-off-by-one", P, "lens.unsqueeze(1) - arange[:right_max] - 2", "lens.unsqueeze(1) - arange[:right_max] - 1", "reflect-right-source-index"),
        M("reflect-left-from-edge", P, "(left_pad.unsqueeze(1) - arange[:left_max]).clamp_(min=0)", "(left_pad.unsqueeze(1) - arange[:left_max] - 1).clamp_(min=0)", "reflect-left-source-index"),
        M("replicate-right-one-early", P, "x.gather(1, (lens - 1).view(N, 1, 1)", "x.gather(1, (lens - 2).view(N, 1, 1)", "replicate-right-source-index"),
        M("sequence-placed-at-zero", P, "mid_mask = ((pad[0] + lens).unsqueeze(1) > arange[:Tp])", "mid_mask = (lens.unsqueeze(1) > arange[:Tp])", "pad-arithmetic["),
        M("new-lens-left-twice", P, "new_lens = lens + pad.sum(0)", "new_lens = lens + pad[0] + pad[0]", "pad-arithmetic[right-buffer-positions]"),
        M("twin:new-lens-spelled-out", P, "right_mask = (new_lens.unsqueeze(1) > arange[:Tp])", "right_mask = ((lens + pad[0] + pad[1]).unsqueeze(1) > arange[:Tp])", "", twin=True),
        M("extent-forgets-right-pad", P, "Tp = int(torch.max(torch.max(left_pad.max(), chunk_lens.max()), right_pad.max()).item())", "Tp = int(torch.max(left_pad.max(), chunk_lens.max()).item())", "output-extent-covers-every-scatter"),
        M("empty-time-axis-short-circuits", P, "if not N:\n        return (x.new_empty(x.shape), slices.new_zeros((N,)))", "if not N * T:\n        return (x.new_empty(x.shape), slices.new_zeros((N,)))", "early-return-reports-the-requested-lengths"),
        M("counts-on-unbroadcast-mask", P, "mask = mask.expand(x.shape[:2])\n", "", "pad_masked_sequence::value-table"),
        M("twin:rename-left-max", P, "left_max", "lmax", "", -1, twin=True),
    ]


def selftest(ctx: Ctx):
    from selftest.mutate import run_selftest
    return run_selftest("C09", ctx.pkg.repo, _mutants(), floor=23)


MANIFEST = dict(
    level_text=(
        "Static analysis (no execution) of the padding/chunking kernels: forwarding and left/right argument binding, "
        "pad-mode table agreement (Literal == dispatch, placeholder mode skipped by both callers), evaluation-mode "
        "identity of random_shift, a structural interval argument for the random pad amounts (trunc(u*prop*len), u in "
        "[0,1)), and the truncating-slice rule: every slice of an index range to k entries is covered by construction "
        "(extent is a max including k) or by a dominating guard bounding k by the lengths; the nine lengths / masks of "
        "chunk_by_slices (pad amounts, chunk lengths, kept elements, left/right buffer positions, the reflect tail "
        "source/target, kept positions), extracted as min/max-linear terms over (start, end, len, t), agree with the "
        "per-sequence pad-and-slice rule at every point of a finite grid; handlers around the validation helpers catch "
        "the exception type the helper raises. Necessary conditions of C09 "
        "('any size for constant and replicate'); equality with per-sequence pad-and-slice is decided by interpreting pad_variable and "
        "chunk_by_slices completely (buffer kernel included) over exact values: 3 modes x feature shapes (), (2,), (2, 2) x mixed lengths x "
        "slices / pads of every kind (486 rows against padding written out by hand) - on that grid, not for all sizes; the buffers the "
        "kernels scatter into take the element type of the input (def-use rule on every allocation reaching a scatter / masked write)."),
    level_note="Trusted: python ast; torch.rand_like in [0,1); broadcasting semantics. F16 (replicate pad larger than the "
               "time dimension raised RuntimeError) was found by G23 and repaired; F20 (RandomShift rejected the documented pair of "
               "proportions: handler caught TypeError, helper raises ValueError) by G25 and repaired.",
    technique="static analysis: index-range extent/cover analysis with guard dominance, min/max-linear term extraction compared with the specification over a finite grid, handler/raiser type agreement, literal-table agreement, argument binding, eval-path identity; interpretation of pad_variable / chunk_by_slices over exact tensor values (syntax tree only) compared with per-sequence padding on a finite grid; pad_masked_sequence interpreted over exact values for broadcasting masks; allocation-dtype def-use rule on the scatter buffers",
    design_ref="DESIGN.md section 4 C09, section 3 G23",
)
