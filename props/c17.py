"""C17: structural clauses (see DESIGN.md section 4)."""
from __future__ import annotations

from rules import fwd as R_fwd
from .common import Ctx, plumbing


def run(ctx: Ctx):
    plumbing(ctx, 'S1')
    R_fwd.g7_cli(ctx.pkg, ctx.res, ctx.col, clause='S1')
    ctx.col.floor('g7_commands', ctx.col.counts.get('g7_commands', 0), 16)
    return dict(explanation='plumbing clauses only (work in progress)', decided=['S1'], not_decided=[])
