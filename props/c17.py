"""C17 command-line conversions: affix kinds and strip-what-you-matched (G4), option
consumption (G7), worker dispatch bindings (G1), worker-count independence as an effect /
unordered-flow analysis (G11), units (G14), batch-size independence (structural, G16)."""
from __future__ import annotations

import ast
from typing import List, Optional, Set

from rules import fwd as R_fwd
from sa.astutil import call_name, guards_of, kwarg, parent_map, u
from sa.defuse import ReachingDefs
from sa.inline import Inliner
from sa.model import AnalysisError, FuncInfo, own_calls, own_nodes
from sa.resolve import bind_args
from .c11 import UnitError, unit_of
from .common import Ctx, plumbing

MOD = "command_line"
UNORDERED_CALLS = {"os.listdir", "os.scandir", "glob.glob", "glob.iglob"}
GEN = "_multiprocessor_pattern_generator"
SENSITIVE_METHODS = {"write", "writelines", "append", "extend", "insert", "writerow"}


def _is_unordered_source(e: ast.AST) -> Optional[str]:
    if isinstance(e, ast.Call):
        cn = call_name(e)
        if cn in UNORDERED_CALLS:
            return cn
        if cn == GEN:
            return GEN
        if isinstance(e.func, ast.Attribute) and e.func.attr == "imap_unordered":
            return "imap_unordered"
    return None


def _body_sensitive_sinks(body: List[ast.stmt], loop_vars: Set[str], rd: ReachingDefs, after_loop=None) -> List[ast.AST]:
    """Order-sensitive effects inside a loop body that consumes an unordered stream."""
    out = []
    for st in body:
        for n in ast.walk(st):
            if isinstance(n, ast.Call):
                cn = call_name(n)
                if cn == "print":
                    out.append(n)
                elif isinstance(n.func, ast.Attribute) and n.func.attr in SENSITIVE_METHODS:
                    recv = n.func.value
                    # appending to a container that is created inside the loop body is per-item
                    if isinstance(recv, ast.Name) and all(
                            d.stmt is not None and any(d.stmt is s or d.stmt in list(ast.walk(s)) for s in body)
                            for d in rd.defs_of(recv)) and rd.defs_of(recv):
                        continue
                    if isinstance(recv, ast.Name) and n.func.attr in ("append", "extend", "add") and after_loop is not None \
                            and _sorted_before_use(after_loop, recv.id):
                        continue  # collected in listing order, but put in order before anything reads it
                    out.append(n)
    return out


def _sorted_before_use(stmts: List[ast.stmt], name: str) -> bool:
    """Is the first statement after the loop that mentions `name` an in-place sort of it (`name.sort(...)`), or does every
    later mention wrap it in sorted() / set() / len()?"""
    mentions = [st for st in stmts if any(isinstance(x, ast.Name) and x.id == name for x in ast.walk(st))]
    if not mentions:
        return False
    first = mentions[0]
    if isinstance(first, ast.Expr) and isinstance(first.value, ast.Call) and isinstance(first.value.func, ast.Attribute) \
            and first.value.func.attr == "sort" and u(first.value.func.value) == name:
        return True
    pm = parent_map(ast.Module(body=list(stmts), type_ignores=[]))
    for st in mentions:
        for x in ast.walk(st):
            if isinstance(x, ast.Name) and x.id == name and isinstance(x.ctx, ast.Load):
                par = pm.get(x)
                if not (isinstance(par, ast.Call) and call_name(par) in ("sorted", "set", "frozenset", "len")):
                    return False
    return True


def run(ctx: Ctx):
    col, pkg, res = ctx.col, ctx.pkg, ctx.res
    rel = pkg.module(MOD).relname
    mi = pkg.module(MOD)

    # ---- S1 affixes and options (G4/G7) ------------------------------------------------------------
    R_fwd.g7_cli(pkg, res, col, clause="S1")
    col.floor("g7_commands", col.counts.get("g7_commands", 0), 16)

    # ---- S3 worker-count independence ----------------------------------------------------------------
    # (a) the dispatcher applies the same worker to the same argument tuple in the serial and pooled branch
    gen = pkg.func(f"{MOD}::{GEN}")
    wf = pkg.func(f"{MOD}::_worker_func")
    wi = pkg.func(f"{MOD}::_worker_init")
    # the serial application: do_work_func(<item>, *args) for every <item> of x, as a generator expression or a loop
    serial = [n for n in own_nodes(gen.node) if isinstance(n, ast.GeneratorExp)]
    oks = False
    if len(serial) == 1 and isinstance(serial[0].generators[0].target, ast.Name):
        it_ = serial[0].generators[0].target.id
        oks = u(serial[0].elt) == f"do_work_func({it_}, *args)" and u(serial[0].generators[0].iter) == "x"
    for lp in own_nodes(gen.node):
        if isinstance(lp, ast.For) and isinstance(lp.target, ast.Name) and u(lp.iter) == "x":
            ys = [y for st_ in lp.body for y in ast.walk(st_) if isinstance(y, ast.Yield) and y.value is not None]
            if len(ys) == 1 and u(ys[0].value) == f"do_work_func({lp.target.id}, *args)":
                oks = True
                serial = serial or [lp]
    pool = [c for c in own_calls(gen.node) if isinstance(c.func, ast.Attribute) and c.func.attr in ("imap_unordered", "imap", "map")]
    okp = len(pool) == 1 and u(pool[0].args[0]) == "_worker_func" and u(pool[0].args[1]) == "x"
    ctor = [c for c in own_calls(gen.node) if isinstance(c.func, ast.Attribute) and c.func.attr == "Pool"]
    okc = len(ctor) == 1 and len(ctor[0].args) >= 3 and u(ctor[0].args[1]) == "_worker_init" and u(ctor[0].args[2]) == "(do_work_func, *args)"
    rets = [n for n in own_nodes(wf.node) if isinstance(n, ast.Return)]
    okw = len(rets) == 1 and u(rets[0].value) == "_mp_func(x_n, *_mp_args)"
    inits = {u(n.targets[0]): u(n.value) for n in own_nodes(wi.node) if isinstance(n, ast.Assign)}
    oki = inits == {"_mp_args": "args", "_mp_func": "func"}
    col.ob("G13", "S3", f"{rel}::{GEN}::serial==pooled-application", oks and okp and okc and okw and oki,
           "the serial branch and the pooled branch do not apply the same worker to (item, *args): "
           f"serial={oks} pool={okp} init={okc}/{oki} worker={okw}", rel, gen.line,
           sample=dict(serial=u(serial[0]) if serial else None, pooled=u(pool[0]) if pool else None))
    # the branch is chosen by num_workers only
    from sa.astutil import strip_not
    tests = [u(strip_not(n.test)[0]) for n in own_nodes(gen.node) if isinstance(n, ast.If)]
    col.ob("G13", "S3", f"{rel}::{GEN}::branch-on-num-workers", tests == ["options.num_workers"],
           f"the dispatcher branches on {tests}", rel, gen.line)

    # (b) every consumer of an unordered stream is order-insensitive
    n_src = 0
    for f in pkg.all_functions():
        if f.module is not mi:
            continue
        rd = None
        pm = None
        for n in own_nodes(f.node):
            src = _is_unordered_source(n)
            if src is None:
                continue
            if f.name == GEN and src == "imap_unordered":
                continue  # the generator itself: its consumers are checked at their call sites
            n_src += 1
            if rd is None:
                rd = ReachingDefs(f.node)
                pm = parent_map(f.node)
            where = f"{rel}::{f.qualname}"
            par = pm.get(n)
            verdict, why = None, ""
            # directly wrapped
            if isinstance(par, ast.Call) and call_name(par) in ("sorted", "set", "len", "frozenset", "sum", "any", "all", "min", "max", "iter"):
                if call_name(par) == "iter":
                    par2 = pm.get(par)
                    verdict = isinstance(par2, ast.Call) and "deque" in call_name(par2)
                    why = "results are drained without being used" if verdict else "iter() of an unordered stream"
                else:
                    verdict, why = True, f"wrapped in {call_name(par)}()"
            elif isinstance(par, ast.comprehension) and par.iter is n:
                comp = pm.get(par)
                cpar = pm.get(comp)
                if isinstance(cpar, ast.Call) and call_name(cpar) in ("sorted", "set", "frozenset", "sum", "any", "all", "min", "max", "dict"):
                    verdict, why = True, f"comprehension wrapped in {call_name(cpar)}()"
                elif isinstance(comp, ast.SetComp):
                    verdict, why = True, "set comprehension"
                elif isinstance(comp, ast.GeneratorExp) and isinstance(pm.get(comp), ast.For) and pm.get(comp).iter is comp:
                    # a lazily filtered listing looped over directly: judged like a loop over the listing itself
                    par_ = pm.get(comp)
                    lv = {x.id for x in ast.walk(par_.target) if isinstance(x, ast.Name)}
                    blk = pm.get(par_)
                    after = None
                    for fld in ("body", "orelse", "finalbody"):
                        b_ = getattr(blk, fld, None)
                        if isinstance(b_, list) and any(x is par_ for x in b_):
                            after = b_[[i for i, x in enumerate(b_) if x is par_][0] + 1:]
                    sinks = _body_sensitive_sinks(par_.body, lv, rd, after)
                    verdict = not sinks
                    why = (f"loop body has order-sensitive effect `{u(sinks[0])[:60]}`" if sinks else "loop body only folds / appends to a list that is sorted")
                elif isinstance(comp, ast.GeneratorExp):
                    # a lazy stream of items: must be handed to the dispatcher (one output per item) or folded
                    st = pm.get(comp)
                    while st is not None and not isinstance(st, ast.stmt):
                        st = pm.get(st)
                    tgt = st.targets[0].id if isinstance(st, ast.Assign) and isinstance(st.targets[0], ast.Name) else None
                    uses = [c for c in own_calls(f.node) if call_name(c) in ("_multiprocessor_pattern", GEN)
                            and c.args and u(c.args[0]) == tgt] if tgt else []
                    verdict = bool(uses)
                    why = "item stream handed to the per-item dispatcher" if verdict else "generator over an unordered listing is consumed elsewhere"
                else:
                    verdict, why = False, "list built in listing order"
            elif isinstance(par, ast.For) and par.iter is n:
                lv = {x.id for x in ast.walk(par.target) if isinstance(x, ast.Name)}
                blk = pm.get(par)
                after = None
                for fld in ("body", "orelse", "finalbody"):
                    b_ = getattr(blk, fld, None)
                    if isinstance(b_, list) and any(x is par for x in b_):
                        after = b_[[i for i, x in enumerate(b_) if x is par][0] + 1:]
                sinks = _body_sensitive_sinks(par.body, lv, rd, after)
                yields = any(isinstance(x, (ast.Yield, ast.YieldFrom)) for s in par.body for x in ast.walk(s))
                verdict = not sinks
                why = (f"loop body has order-sensitive effect `{u(sinks[0])[:60]}`" if sinks else
                       ("items re-yielded to the per-item dispatcher" if yields else "loop body only folds (+=) / tests"))
            elif isinstance(par, ast.YieldFrom):
                verdict, why = True, "stream passed through (generator)"
            elif isinstance(par, ast.Assign) and len(par.targets) == 1 and isinstance(par.targets[0], ast.Name):
                # stored in a variable: every read of it must be an order-insensitive consumer
                vname = par.targets[0].id
                uses = [x for x in own_nodes(f.node) if isinstance(x, ast.Name) and x.id == vname and isinstance(x.ctx, ast.Load)
                        and any(d.stmt is par for d in rd.defs_of(x))]
                okuses = bool(uses)
                for x in uses:
                    px = pm.get(x)
                    if isinstance(px, ast.Call) and (call_name(px) in ("sorted", "set", "len", "frozenset", "sum", "any", "all", "min", "max")
                                                      or ("deque" in call_name(px) and kwarg(px, "maxlen") is not None)):
                        continue
                    okuses = False
                verdict, why = okuses, ("stored, then only drained / folded / sorted" if okuses else "unordered listing stored in a variable")
            elif isinstance(par, ast.Assign):
                verdict, why = False, "unordered listing stored in a variable"
            if verdict is None:
                verdict, why = False, f"unrecognised consumer `{type(par).__name__}`"
            col.ob("G11", "S3", f"{where}::{src}@consumer", verdict,
                   f"results of `{src}` (arbitrary order: directory listing / worker completion order) reach an "
                   f"order-sensitive consumer: {why}", rel, n.lineno, sample=dict(source=src, consumer=why))
    col.floor("unordered_sources", n_src, 9)

    # (c) worker functions: no globals, no mutation of shared arguments, outputs only to per-item paths
    workers = set()
    for f in pkg.all_functions():
        if f.module is not mi:
            continue
        for c in own_calls(f.node):
            if call_name(c) in ("_multiprocessor_pattern", GEN) and len(c.args) > 2 and isinstance(c.args[2], ast.Name) \
                    and c.args[2].id in mi.functions:
                workers.add(c.args[2].id)
    col.floor("worker_functions", len(workers), 6)
    for wname in sorted(workers):
        w = pkg.func(f"{MOD}::{wname}")
        where = f"{rel}::{w.qualname}"
        item = w.params[0].name
        rdw = ReachingDefs(w.node)
        globs = [n for n in own_nodes(w.node) if isinstance(n, (ast.Global, ast.Nonlocal))]
        col.ob("G11", "S3", f"{where}::no-global-state", not globs,
               "a worker declares global/nonlocal state: results depend on which process handled which items", rel,
               globs[0].lineno if globs else w.line)
        shared = {p.name for p in w.params[1:]}
        muts = []
        for n in own_nodes(w.node):
            if isinstance(n, (ast.Subscript, ast.Attribute)) and isinstance(n.ctx, (ast.Store, ast.Del)):
                root = n
                while isinstance(root, (ast.Subscript, ast.Attribute)):
                    root = root.value
                if isinstance(root, ast.Name) and root.id in shared and all(d.kind == "param" for d in rdw.defs_of(root) or [None] if d):
                    muts.append(n)
            if isinstance(n, ast.Call) and isinstance(n.func, ast.Attribute) and isinstance(n.func.value, ast.Name) \
                    and n.func.value.id in shared and n.func.attr in ("append", "update", "add", "pop", "clear", "extend", "setdefault", "write"):
                if all(d.kind == "param" for d in rdw.defs_of(n.func.value)):
                    muts.append(n)
        col.ob("G11", "S3", f"{where}::no-shared-argument-mutation", not muts,
               f"`{u(muts[0])[:60] if muts else ''}` mutates an argument shared by all items (with several workers "
               f"each process mutates its own copy)", rel, muts[0].lineno if muts else w.line)
        # file outputs: path derives from the item
        for c in own_calls(w.node):
            cn = call_name(c)
            path = None
            if cn == "torch.save" and len(c.args) > 1:
                path = c.args[1]
            elif cn in ("shutil.copy", "shutil.copyfile", "os.link", "os.symlink", "shutil.copy2") and len(c.args) > 1:
                path = c.args[1]
            elif cn.endswith("write_textgrid") and len(c.args) > 1:
                path = c.args[1]
            elif cn == "open" and len(c.args) > 1 and isinstance(c.args[1], ast.Constant) and any(ch in c.args[1].value for ch in "wax"):
                path = c.args[0]
            if path is None:
                continue
            der = rdw.derives(path)
            ok = item in der.params()
            col.ob("G11", "S3", f"{where}::output({cn})-path-derives-from-item", ok,
                   f"`{u(c)[:80]}` writes to a path that does not depend on the work item: items handled in parallel "
                   f"overwrite each other", rel, c.lineno, sample=u(path)[:80])

    # ---- S4 units in the TextGrid worker ----------------------------------------------------------------
    tw = pkg.func(f"{MOD}::_torch_token_data_dir_to_textgrids_do_work")
    n_u = 0
    for n in own_nodes(tw.node):
        if isinstance(n, ast.Assign) and isinstance(n.targets[0], ast.Name) and "frame_shift_ms" in u(n.value) \
                and isinstance(n.value, ast.BinOp):
            n_u += 1
            env = {n.targets[0].id: {"frame": 1}, "frame_shift_ms": {"ms": 1, "frame": -1}}
            try:
                got = unit_of(n.value, env)
                ok, msg = got == {"s": 1}, f"`{u(n)}` has unit {got}, expected seconds"
            except UnitError as e:
                ok, msg = False, f"`{u(n)}`: {e}"
            col.ob("G14", "S4", f"{rel}::{tw.qualname}::length-in-seconds", ok, msg, rel, n.lineno, sample=u(n))
    col.floor("textgrid_length_conversions", n_u, 1)
    # the conversion pair is called with the same frame shift on both directions of the paired commands
    for spec, fn in (("_save_transcripts_to_dir_do_work", "transcript_to_token"), ("_torch_token_data_dir_to_textgrids_do_work", "token_to_transcript")):
        w = pkg.func(f"{MOD}::{spec}")
        cs = [c for c in own_calls(w.node) if call_name(c).endswith(fn)]
        okk = bool(cs) and all("frame_shift_ms" in u(c) for c in cs)
        col.ob("G14", "S4", f"{rel}::{w.qualname}::{fn}(frame_shift_ms)", okk,
               f"{spec} does not pass frame_shift_ms to {fn}", rel, w.line)

    # ---- S5 batch-size independence (structural) -----------------------------------------------------------
    er = pkg.func(f"{MOD}::compute_torch_token_data_dir_error_rates")
    where = f"{rel}::{er.qualname}"
    slices = {}
    rd_er = ReachingDefs(er.node)

    def _bsz(e):  # does the bound come from the batch size (directly, or as `start` / `start + batch_size` of a stepped range)?
        if e is None:
            return False
        return ".batch_size" in u(e) or any(".batch_size" in u(x) for x in rd_er.derives(e).exprs)
    for n in own_nodes(er.node):
        if isinstance(n, ast.Subscript) and isinstance(n.value, ast.Name) and isinstance(n.slice, ast.Slice) and ".batch_size" in u(n.slice):
            slices.setdefault(n.value.id, set()).add(u(n.slice).split(".")[-1] if ":" not in u(n.slice).split(".")[-1] else u(n.slice))
        elif isinstance(n, ast.Subscript) and isinstance(n.value, ast.Name) and isinstance(n.slice, ast.Slice) and (_bsz(n.slice.lower) or _bsz(n.slice.upper)):
            # a window [start:end] of a stepped range: counts as the pair of bounds it replaces
            slices.setdefault(n.value.id, set()).update({"window-lower:" + u(n.slice.lower or ""), "window-upper:" + u(n.slice.upper or "")})
    # a local closure applied to both lists (`encode(ref_transcripts)`, `encode(hyp_transcripts)`) slices its formal: the slice is
    # attributed to the list it is called with
    for g in ast.walk(er.node):
        if isinstance(g, (ast.FunctionDef, ast.Lambda)) and g is not er.node:
            formals = [a.arg for a in g.args.args]
            inner = {}
            for n in ast.walk(g):
                if isinstance(n, ast.Subscript) and isinstance(n.value, ast.Name) and n.value.id in formals and isinstance(n.slice, ast.Slice) \
                        and ".batch_size" in u(n.slice):
                    inner.setdefault(n.value.id, set()).add(u(n.slice).split(".")[-1] if ":" not in u(n.slice).split(".")[-1] else u(n.slice))
            gname = getattr(g, "name", None)
            if inner and gname:
                for c in own_calls(er.node):
                    if isinstance(c.func, ast.Name) and c.func.id == gname:
                        for fm, a in zip(formals, c.args):
                            if fm in inner and isinstance(a, ast.Name):
                                slices.setdefault(a.id, set()).update(inner[fm])
    vals = list(slices.values())
    col.ob("G16", "S5", f"{where}::ref-and-hyp-consumed-with-the-same-bounds",
           len(slices) == 2 and vals[0] == vals[1] and len(vals[0]) == 2,
           f"reference and hypothesis lists are batched with {slices}", rel, er.line, sample={k: sorted(v) for k, v in slices.items()})
    # totals are folds of per-utterance values; the printed figure uses only folds / the per-utterance table
    rde = ReachingDefs(er.node)
    outw = [c for c in own_calls(er.node) if isinstance(c.func, ast.Attribute) and c.func.attr == "write" and u(c.func.value).endswith(".out")]
    col.floor("error_rate_output_sites", len(outw), 2)
    pme = parent_map(er.node)
    loops = [n for n in own_nodes(er.node) if isinstance(n, (ast.While, ast.For)) and any(
        call_name(c) == "error_rate" for c in ast.walk(n) if isinstance(c, ast.Call))]
    # the outermost such loop (the call may sit in the header of an inner per-utterance loop)
    loops = [n for n in loops if not any(n is not m and any(x is n for x in ast.walk(m)) for m in loops)]
    if len(loops) != 1:
        raise AnalysisError("C17: batching loop of the error-rate command not found")
    inside = {id(x) for x in ast.walk(loops[0])}
    for c in outw:
        bad = []
        for x in ast.walk(c):
            if isinstance(x, ast.Name) and isinstance(x.ctx, ast.Load):
                ds = rde.defs_of(x)
                if ds and all(d.stmt is not None and id(d.stmt) in inside and d.kind not in ("aug", "item") for d in ds):
                    bad.append(x.id)
        col.ob("G16", "S5", f"{where}::printed-figure-uses-only-totals@{c.lineno - er.line > 0 and 'out'}[{len(bad)}]", not bad,
               f"the printed figure depends on batch-local values {bad}", rel, c.lineno, sample=u(c)[:100])
    # error_rate keyword bindings: costs[0/1/2] -> ins/del/sub
    ec = [c for c in own_calls(er.node) if call_name(c) == "error_rate"]
    col.floor("error_rate_calls", len(ec), 1)
    for c in ec:
        kw = {k.arg: u(k.value) for k in c.keywords}
        ok = tuple((kw.get(k) or "").split(".", 1)[-1] for k in ("ins_cost", "del_cost", "sub_cost")) == ("costs[0]", "costs[1]", "costs[2]") \
            and kw.get("norm") == "False" and kw.get("include_eos") == "False"
        col.ob("G1", "S2", f"{where}::error_rate(costs)", ok,
               f"error_rate is called with {kw}; --costs is documented as INS DEL SUB", rel, c.lineno, sample=kw)
    _per_utterance_divisors(ctx)
    _inferred_length_nonnegative(ctx)
    _segments_and_list_lines(ctx)
    _token_tables_and_segments(ctx)
    _optional_parts_disabled_by_their_own_test(ctx)
    _option_values_reach_their_formals(ctx)
    plumbing(ctx, "S1")
    return dict(
        explanation=(
            "Decides for C17: (S1) every declared option is consumed, prefix/suffix filters have the right kind and "
            "ids are obtained by slicing off exactly the matched affixes [F2 repaired]; (S2) worker arities and "
            "bindings through the dispatcher, error_rate cost keywords; (S3) worker-count independence: the serial "
            "and pooled branches apply the same worker to the same tuple, every consumer of an unordered stream "
            "(os.listdir, imap_unordered) is an order-insensitive fold / sorted / per-item output, workers keep no "
            "global state, mutate no shared argument and write only to per-item paths; (S4) frames->seconds units in "
            "the TextGrid worker and frame_shift_ms passed to both converters; (S5) reference/hypothesis lists "
            "batched with identical bounds, printed figures depend only on folds (no batch-local value after the "
            "loop). NOT decided: that conversions are mutual inverses on data, pooled moments, error totals."),
        decided=["S1", "S2", "S3", "S4", "S5"],
        not_decided=["command inverse pairs on data", "pooled moments values", "error totals values"],
        assumptions=["Pool.imap_unordered returns each result exactly once", "integer sums are order-insensitive"],
    )


def _segments_and_list_lines(ctx: Ctx):
    """S8: (a) a stored token segment is valid when 0 <= start <= end: a zero-length segment (a point-tier mark, a 0-duration ctm
    entry) has both boundaries and length 0 and belongs to the pooled length moments; a strict `start < end` drops it, warns about
    a token that is complete, and makes --strict refuse well-formed data. (b) Lines of a list file are stripped with strip(): a
    slice `[:-1]` cuts the last character of the last id when the file does not end in a newline, and the id then silently matches
    nothing."""
    from sa.astutil import oriented
    col, pkg = ctx.col, ctx.pkg
    f = pkg.func("command_line::_print_torch_ref_data_dir_length_moments")
    rel = f.module.relname

    def col_of(e):
        if isinstance(e, ast.Subscript) and isinstance(e.slice, ast.Tuple) and len(e.slice.elts) == 2 and isinstance(e.slice.elts[1], ast.Constant):
            return e.slice.elts[1].value
        return None
    ords = []
    from sa.inline import Inliner as _InlSeg
    _inl_seg = _InlSeg(f.node)
    for n in own_nodes(f.node):
        if isinstance(n, ast.Compare) and len(n.ops) == 1:
            n = _inl_seg.expand(n)  # named columns (`starts, ends = ref[:, 1], ref[:, 2]`) are looked through
            a, b = n.left, n.comparators[0]
            if {col_of(a), col_of(b)} == {1, 2} and u(getattr(a, "value", a)) == u(getattr(b, "value", b)):
                o = oriented(n, lambda e: col_of(e) == 1)
                if o:
                    ords.append((n, o[0]))
    col.floor("segment_order_tests", len(ords), 1)
    bad = [n for n, op in ords if op not in ("le",)]
    col.ob("G12", "S8", f"{rel}::_print_torch_ref_data_dir_length_moments::zero-length-segments-are-segments", not bad,
           (f"`{u(bad[0])}` requires start < end: a token whose start equals its end (a point, a 0-duration entry) is dropped from the "
            f"moments, reported as having missing boundaries, and refused under --strict") if bad else "", rel,
           bad[0].lineno if bad else f.line, sample=[op for _, op in ords])
    # (b) over all commands
    n_lines, cut = 0, []
    mod = pkg.module("command_line")
    for g in pkg.all_functions():
        if g.module is not mod:
            continue
        for n in own_nodes(g.node):
            gens = []
            if isinstance(n, (ast.GeneratorExp, ast.ListComp, ast.SetComp)):
                gens = [(gen.target, gen.iter, [n.elt]) for gen in n.generators]
            elif isinstance(n, ast.For):
                gens = [(n.target, n.iter, n.body)]
            for tgt, it, body in gens:
                if not (isinstance(tgt, ast.Name) and "file" in u(it)):
                    continue
                n_lines += 1
                for b_ in body:
                    for x in ast.walk(b_):
                        if isinstance(x, ast.Subscript) and isinstance(x.value, ast.Name) and x.value.id == tgt.id and isinstance(x.slice, ast.Slice) \
                                and x.slice.lower is None and u(x.slice.upper or ast.Constant(value=None)) == "-1":
                            cut.append((g, x))
    col.count("list_file_line_loops", n_lines)
    col.ob("G4", "S8", "command_line.py::list-file-lines-are-stripped-not-sliced", not cut,
           (f"`{u(cut[0][1])}` in {cut[0][0].qualname} removes the line terminator by slicing off the last character: the last line of a file "
            f"without a trailing newline loses a real character and the utterance it names is silently not selected") if cut else "",
           "command_line.py", cut[0][1].lineno if cut else 1, sample=n_lines)


def _per_utterance_divisors(ctx: Ctx):
    """S6: an utterance's reference may be empty (or consist only of ignored tokens). A per-utterance figure that divides by
    the reference length must guard that length; the corpus-level figure does not even need the per-utterance ratio, so an
    unguarded division aborts the whole report for one silence-only utterance."""
    from sa.defuse import ReachingDefs
    col, pkg = ctx.col, ctx.pkg
    f = pkg.func("command_line::compute_torch_token_data_dir_error_rates")
    rel = f.module.relname
    pm = parent_map(f.node)
    rd = ReachingDefs(f.node)
    sites = []
    for n in own_nodes(f.node):
        if isinstance(n, ast.BinOp) and isinstance(n.op, ast.Div):
            rexprs = [n.right, Inliner(f.node, rd).expand(n.right)]  # (`denom = 1 if ... else ref_len; ref_len = len(transcript)`)
            for x in ast.walk(n.right):
                if isinstance(x, ast.Name):
                    rexprs += [d.value for d in rd.defs_of(x) if d.kind == "assign" and d.value is not None]
            lens_ = [c for e in rexprs for c in ast.walk(e) if isinstance(c, ast.Call) and call_name(c) == "len" and c.args
                     and isinstance(c.args[0], ast.Name)]
            # only lengths of loop-bound (per-utterance) sequences
            per_utt = []
            for c in lens_:
                cur = n
                while cur is not None:
                    cur = pm.get(cur)
                    if isinstance(cur, ast.For) and any(isinstance(x, ast.Name) and x.id == c.args[0].id for x in ast.walk(cur.target)):
                        per_utt.append(c)
                        break
            if per_utt:
                sites.append((n, per_utt[0]))
    bad = []
    for n, c in sites:
        nm = c.args[0].id
        guarded = False
        cur = n
        while cur is not None:
            par = pm.get(cur)
            if isinstance(par, ast.IfExp) and par.body is cur and any(isinstance(x, ast.Name) and x.id in (nm,) or
                                                                      (isinstance(x, ast.Name) and x.id != nm and False) for x in ast.walk(par.test)):
                guarded = True
            if isinstance(par, ast.IfExp) and par.body is cur:
                # a test on a name that was assigned the divisor
                tn = {x.id for x in ast.walk(par.test) if isinstance(x, ast.Name)}
                dn = {x.id for x in ast.walk(n.right) if isinstance(x, ast.Name)}
                if tn & dn:
                    guarded = True
            cur = par
        dn_ = {x.id for x in ast.walk(n.right) if isinstance(x, ast.Name)}
        for t, pol in guards_of(pm, n):
            # an enclosing `if` on the sequence itself or on the name that holds the divisor (`if denom: ... / denom`)
            if any(isinstance(x, ast.Name) and (x.id == nm or x.id in dn_) for x in ast.walk(t)):
                guarded = True
        clamp = any(isinstance(x, ast.Call) and call_name(x) == "max" for x in ast.walk(n.right)) or \
            any(isinstance(x, ast.BoolOp) and isinstance(x.op, ast.Or) for x in ast.walk(n.right))
        if not (guarded or clamp):
            bad.append(n)
    col.ob("G12", "S6", f"{rel}::compute_torch_token_data_dir_error_rates::per-utterance-length-divisor-guarded", bool(sites) and not bad,
           f"`{u(bad[0])[:90] if bad else ''}` divides an utterance's error count by its reference length with no guard: one empty "
           f"(or all-ignored) reference raises ZeroDivisionError and no figure is printed at all, although --distances on the same "
           f"data works", rel, bad[0].lineno if bad else f.line, sample=[u(n)[:80] for n, _ in sites])


def _inferred_length_nonnegative(ctx: Ctx):
    """S7: -1 marks a missing boundary in the (R, 3) token layout. The TextGrid worker infers the utterance length as the
    maximum over the boundary columns; when every boundary is missing that maximum is the marker itself, and it is
    multiplied by the frame shift: a negative xmax is written. The inferred length must be clamped at 0 or taken under a
    test that some boundary is present (the docstring promises 'length 0 and a warning')."""
    from sa.defuse import ReachingDefs
    col, pkg = ctx.col, ctx.pkg
    f = pkg.func("command_line::_torch_token_data_dir_to_textgrids_do_work")
    rel = f.module.relname
    pm = parent_map(f.node)
    sites = []
    for n in own_nodes(f.node):
        if isinstance(n, ast.Assign) and isinstance(n.value, ast.Call) and isinstance(n.value.func, ast.Attribute) \
                and n.value.func.attr == "max" and isinstance(n.value.func.value, ast.Subscript):
            sub = n.value.func.value
            if any(isinstance(x, ast.Slice) for x in (sub.slice.elts if isinstance(sub.slice, ast.Tuple) else [sub.slice])):
                sites.append(n)
    if len(sites) != 1:
        raise AnalysisError(f"C17: expected one length inference from the boundary columns, found {len(sites)}")
    n = sites[0]
    base = u(n.value.func.value.value)
    guarded = False
    for t, pol in guards_of(pm, n):
        for c in ast.walk(t):
            cs = None
            if isinstance(c, ast.Compare) and len(c.ops) == 1:
                l, r, op = c.left, c.comparators[0], c.ops[0]
                txt = u(c)
                if base in txt and (("0" in (u(l), u(r))) or ("-1" in (u(l), u(r)))) and isinstance(op, (ast.GtE, ast.Gt, ast.LtE, ast.Lt, ast.NotEq)):
                    guarded = True
    clamped = False
    tgt = n.targets[0]
    if isinstance(tgt, ast.Name):
        for m in own_nodes(f.node):
            if isinstance(m, ast.Call) and (call_name(m) == "max" or (isinstance(m.func, ast.Attribute) and m.func.attr in ("clamp_min", "clamp"))) \
                    and any(isinstance(x, ast.Name) and x.id == tgt.id for x in ast.walk(m)):
                clamped = True
    col.ob("G20", "S7", f"{rel}::_torch_token_data_dir_to_textgrids_do_work::inferred-length-is-not-the-missing-marker", guarded or clamped,
           f"`{u(n)}` takes the utterance length from the boundary columns with no test that any boundary is present: for a "
           f"transcript whose boundaries are all -1 (the default output of trn-to-torch-token-data-dir) --infer writes xmax = "
           f"-frame_shift and an interval ending before it starts, which textgrids-to-torch-token-data-dir cannot read back",
           rel, n.lineno)



def _option_values_reach_their_formals(ctx: Ctx):
    """S10: (a) a command that hands `options.<name>` to a method which HAS a formal called <name> binds it to that formal: passed by
    position into another slot (`mvn.store(options.bessel)` fills `delete_stats`) the flag is accepted and ignored. The callee is
    found by its method name among the classes of the package (unique names only). (b) the reference and the hypothesis side of a
    comparison are loaded the same way: two calls of one loader helper in one command differ in their first argument (the
    directory) only - an option given to one side and not the other (`strip_timing`) makes the two sides incomparable."""
    col, pkg = ctx.col, ctx.pkg
    rel = pkg.module(MOD).relname
    methods = {}
    for f_ in pkg.all_functions():
        if f_.cls is not None and f_.parent is None and not f_.name.startswith("__"):
            methods.setdefault(f_.name, []).append(f_)
    n_a = n_b = 0
    for f in ctx.owned():
        if f.parent is not None or f.module.relname != rel:
            continue
        by_helper = {}
        for c in own_calls(f.node):
            if isinstance(c.func, ast.Attribute) and isinstance(c.func.value, ast.Name) and c.func.value.id not in ("options", "self", "os", "torch", "data", "np", "math", "warnings") \
                    and len(methods.get(c.func.attr, [])) == 1:
                g = methods[c.func.attr][0]
                formals = [p_.name for p_ in g.params if p_.name != "self"]
                for i_, a_ in enumerate(c.args):
                    if isinstance(a_, ast.Attribute) and isinstance(a_.value, ast.Name) and a_.value.id == "options" and a_.attr in formals and i_ < len(formals):
                        n_a += 1
                        col.ob("G1", "S10", f"{rel}::{f.qualname}::{g.qualname}({a_.attr}<-options.{a_.attr})", formals[i_] == a_.attr,
                               f"`{u(c)[:90]}` passes `options.{a_.attr}` by position into `{formals[i_]}` although {g.qualname} has a formal `{a_.attr}`: "
                               f"the flag is accepted and has no effect", rel, c.lineno)
            if isinstance(c.func, ast.Name) and c.func.id.startswith("_load_") and c.args:
                by_helper.setdefault(c.func.id, []).append(c)
        for hn, cs in by_helper.items():
            if len(cs) != 2:
                continue
            n_b += 1
            sig = [([u(a_) for a_ in c_.args[1:]], sorted((k.arg, u(k.value)) for k in c_.keywords)) for c_ in cs]
            col.ob("G13", "S10", f"{rel}::{f.qualname}::{hn}::both-sides-loaded-alike", sig[0] == sig[1],
                   f"the two calls of {hn} in {f.qualname} differ beyond the directory: {sig[0]} vs {sig[1]} - one side keeps what the other strips, "
                   f"so equal transcripts no longer compare equal", rel, cs[1].lineno)
    col.floor("paired_loader_calls", n_b, 1)


def _optional_parts_disabled_by_their_own_test(ctx: Ctx):
    """S9: a command that treats parts of a data directory as optional (`ali/`, `ref/`) switches a part off by setting its option to
    None under a test of THAT part (does its directory exist). Switching off part A under the test of part B drops A's files from the
    output although they exist (and keeps B, which does not): the selected utterances are no longer carried over with all their
    files. Decided per assignment `options.A = None`: the options named in its innermost test that are themselves switched off
    somewhere in the function must include A."""
    col, pkg = ctx.col, ctx.pkg
    rel = pkg.module(MOD).relname
    n_sites = 0
    for f in ctx.owned():
        if f.parent is not None or f.module.relname != rel:
            continue
        offs = []
        for n in own_nodes(f.node):
            if isinstance(n, ast.Assign) and isinstance(n.value, ast.Constant) and n.value.value is None:
                for t in n.targets:
                    if isinstance(t, ast.Attribute) and isinstance(t.value, ast.Name):
                        offs.append((n, t.value.id, t.attr))
        if not offs:
            continue
        switchable = {(o, a) for _, o, a in offs}
        pm = parent_map(f.node)
        inl = Inliner(f.node, keep=tuple({o for _, o, _ in offs}))  # (named tests are looked through; the options object is not)
        for n, o, a in offs:
            g = guards_of(pm, n)
            if not g:
                continue
            test = inl.expand(g[-1][0])
            named = {(x.value.id, x.attr) for x in ast.walk(test) if isinstance(x, ast.Attribute) and isinstance(x.value, ast.Name)} & switchable
            if not named:
                continue  # (switched off by a flag such as --only, not by a test of a part)
            n_sites += 1
            other = sorted(x[1] for x in named)
            col.ob("G17", "S9", f"{rel}::{f.qualname}::{o}.{a}-switched-off-by-its-own-test", (o, a) in named,
                   f"`{u(n)}` runs under the test `{u(g[-1][0])[:80]}`, which is about {other} and not about `{a}`: the part is dropped from the "
                   f"output whenever another part is missing (its files exist and are silently not carried over), while the missing part stays "
                   f"switched on", rel, n.lineno, sample=dict(assigned=a, tested=other))
    col.floor("optional_part_switches", n_sites, 2)


def _token_tables_and_segments(ctx: Ctx):
    """S8 (a) A token table is (R, 3): column 0 is the token id, columns 1 and 2 are the boundaries with -1 = missing. A sign
    test that decides 'boundaries missing' must read the boundary columns only; applied to the whole table it also rejects a
    negative token id (alignments may label frames -1, and ali -> token -> ali must give them back).
    (b) Segment lengths are the run lengths of the STORED alignment; excluded ids drop whole runs afterwards. Dropping the
    excluded frames first fuses the two runs around an excluded stretch into one longer segment."""
    col, pkg = ctx.col, ctx.pkg
    rel = pkg.module(MOD).relname
    n_tab = 0
    for f in ctx.owned():
        if f.parent is not None or f.module.relname != rel:
            continue
        rd = None
        # 3-column tables: a name loaded from disk that is read both at column 0 and at a boundary column
        cols = {}
        for n in own_nodes(f.node):
            if isinstance(n, ast.Subscript) and isinstance(n.value, ast.Name) and isinstance(n.slice, ast.Tuple) and len(n.slice.elts) == 2:
                last = n.slice.elts[1]
                k = None
                if isinstance(last, ast.Constant) and isinstance(last.value, int):
                    k = "id" if last.value == 0 else "bound"
                elif isinstance(last, ast.Slice) and isinstance(last.lower, ast.Constant) and last.lower.value == 1:
                    k = "bound"
                if k:
                    cols.setdefault(n.value.id, set()).add(k)
        tables = {nm for nm, ks in cols.items() if ks == {"id", "bound"}}
        if not tables:
            continue
        from sa.defuse import ReachingDefs
        rd = ReachingDefs(f.node)
        for n in own_nodes(f.node):
            if not (isinstance(n, ast.Compare) and len(n.ops) == 1 and isinstance(n.ops[0], (ast.Lt, ast.GtE))
                    and isinstance(n.comparators[0], ast.Constant) and n.comparators[0].value == 0):
                continue
            left = n.left
            if isinstance(left, ast.Name) and left.id in tables and any(
                    isinstance(d.value, ast.Call) and call_name(d.value) == "torch.load" for d in rd.defs_of(left)):
                n_tab += 1
                col.ob("G14", "S8", f"{rel}::{f.qualname}::sign-test-reads-the-boundary-columns", False,
                       f"`{u(n)}` tests the sign of the whole token table `{left.id}`: column 0 is the token id, whose sign means "
                       f"nothing - a negative label (alignments use -1 for unlabelled frames) is reported as a missing boundary",
                       rel, n.lineno)
            elif isinstance(left, ast.Subscript) and isinstance(left.value, ast.Name) and left.value.id in tables:
                n_tab += 1
    col.count("token_table_sign_tests", n_tab)
    col.floor("token_table_sign_tests", n_tab, 2)
    _ali_moments_table(ctx)
    _ali_token_round_trip_table(ctx)
    _plain_workers_tables(ctx)
    _serial_worker_count_is_admitted(ctx)
    f = pkg.func(f"{MOD}::_print_torch_ali_data_dir_length_moments")
    from sa.defuse import ReachingDefs
    rd = ReachingDefs(f.node)
    excl = [p.name for p in f.params if "exclude" in p.name]
    ucs = [c for c in own_calls(f.node) if isinstance(c.func, ast.Attribute) and c.func.attr == "unique_consecutive"]
    if len(ucs) != 1 or len(excl) != 1:
        col.undecided(f"{rel}::_print_torch_ali_data_dir_length_moments: run-length computation not recognised")
        return
    dep = rd.derives(ucs[0].func.value).params()
    col.ob("G16", "S8", f"{rel}::_print_torch_ali_data_dir_length_moments::runs-of-the-stored-alignment", excl[0] not in dep,
           f"`{u(ucs[0])[:60]}` computes the runs of a tensor that already depends on `{excl[0]}`: removing excluded frames before "
           f"forming runs joins the segments on both sides of an excluded stretch (3 3 3 sil sil 3 3 3 counts as one segment of "
           f"length 6); whole runs must be dropped after they are formed", rel, ucs[0].lineno)


def _ali_token_round_trip_table(ctx: Ctx):
    """S10 by value: the per-file workers of the ali -> token and token -> ali commands are interpreted over exact tensors (sa/interp.py
    + sa/teval.py; torch.load / torch.save / os.path.join are the modelled leaves: a dictionary of files). For several alignments the
    token file must list each maximal run as (label, start, end) with contiguous boundaries from 0 to the number of frames, and the
    alignment written back from it must be the original; a token file with a gap, a missing boundary, a start after 0 or an end that
    disagrees with the feature length is refused (ValueError)."""
    import numpy as np
    from sa.interp import Interp
    from sa.inteval import NotEvaluable
    from sa.teval import frac_array
    col, pkg = ctx.col, ctx.pkg
    a2t = pkg.func(f"{MOD}::_torch_ali_dir_to_torch_token_dir_do_work")
    t2a = pkg.func(f"{MOD}::_torch_token_data_dir_to_torch_ali_dir_do_work")
    rel = a2t.module.relname

    def run(f, files, *args):
        holder = {}

        def leaf(x, env):
            it = holder["it"]
            if isinstance(x, ast.Call):
                cn = call_name(x)
                if cn == "os.path.join":
                    return "/".join(str(it.eval(a_, env)) for a_ in x.args)
                if cn == "torch.load" and x.args:
                    p_ = it.eval(x.args[0], env)
                    if p_ not in files:
                        raise NotEvaluable(f"load of a file that was not written: {p_}")
                    return files[p_]
                if cn == "torch.save" and len(x.args) >= 2:
                    files[it.eval(x.args[1], env)] = it.eval(x.args[0], env)
                    return "saved"
            return None
        it = Interp(leaf=leaf, tensors=True, effects=("torch.save",))
        holder["it"] = it
        names = [p_.name for p_ in f.params]
        env = dict(zip(names, args))
        for p_ in f.params[len(args):]:
            env[p_.name] = None
        return it.run(f.node, env)
    alis = ([3, 3, 3, 0, 0, 5, 3, 3], [7], [1, 2, 1, 2, 2], [0, 0, 0, 0])
    bad, n = None, 0
    try:
        for ali in alis:
            files = {"ali/u.pt": frac_array(ali), "feat/u.pt": frac_array([[0]] * len(ali))}
            kind, _ = run(a2t, files, "u.pt", "ali", "ref")
            n += 1
            runs = []
            for i_, v_ in enumerate(ali):
                if runs and runs[-1][0] == v_:
                    runs[-1][2] = i_ + 1
                else:
                    runs.append([v_, i_, i_ + 1])
            ref = files.get("ref/u.pt")
            if kind != "return" or ref is None or [[int(z_) for z_ in r_] for r_ in np.asarray(ref).tolist()] != runs:
                bad = bad or ("ali -> token", ali, np.asarray(ref).tolist() if ref is not None else f"{kind}", runs)
                continue
            for feat_dir in (None, "feat"):
                kind, got = run(t2a, files, "u.pt", "ref", "back", feat_dir)
                back = files.get("back/u.pt")
                if kind != "return" or back is None or [int(z_) for z_ in np.asarray(back).tolist()] != list(ali):
                    bad = bad or ("ali -> token -> ali", ali, np.asarray(back).tolist() if back is not None else f"{kind} {got}", list(ali))
        # malformed token files are refused
        for tag, ref in (("a gap between tokens", [[1, 0, 2], [2, 3, 4]]), ("a missing boundary", [[1, 0, 2], [2, -1, -1]]), ("a start after frame 0", [[1, 1, 3]]),
                         ("an end that disagrees with the features", [[1, 0, 2], [2, 2, 5]])):
            files = {"ref/u.pt": frac_array(ref), "feat/u.pt": frac_array([[0]] * 4)}
            kind, got = run(t2a, files, "u.pt", "ref", "back", "feat")
            n += 1
            if kind != "raise" or "ValueError" not in str(got):
                bad = bad or ("token -> ali", ref, f"{tag} is accepted ({kind})", "ValueError")
    except NotEvaluable:
        return
    col.count("ali_token_round_trip_rows", n)
    col.ob("G12", "S10", f"{rel}::ali<->token::round-trip-table", bad is None,
           (f"{bad[0]} on {bad[1]}: got {str(bad[2])[:160]}; expected {str(bad[3])[:160]}") if bad else "", rel, a2t.line, sample=dict(rows=n))


def _serial_worker_count_is_admitted(ctx: Ctx):
    """S3: 'zero, one or many worker processes' starts at zero - the dispatcher's serial branch is the test `num_workers == 0`, so the
    validator the shared `--num-workers` option is parsed with must admit 0. The option table entry's `type` is resolved in argcheck
    (`as_x = _cast_factory(cast, check)`); the admitted range is read off the check's name from a closed table (no check / non-negative:
    0 admitted; positive / natural: not) - an unknown validator is undecided, never passed."""
    col, pkg = ctx.col, ctx.pkg
    mi = pkg.module(MOD)
    rel = mi.relname
    table = next((st.value for st in mi.tree.body if isinstance(st, ast.Assign) and len(st.targets) == 1 and u(st.targets[0]) == "_COMMON_ARGS"
                  and isinstance(st.value, ast.Dict)), None)
    entry = None
    if table is not None:
        for k_, v_ in zip(table.keys, table.values):
            if isinstance(k_, ast.Constant) and k_.value == "--num-workers" and isinstance(v_, ast.Dict):
                entry = v_
    if entry is None:
        col.undecided(f"{rel}: the shared --num-workers option entry was not found")
        return
    typ = next((v_ for k_, v_ in zip(entry.keys, entry.values) if isinstance(k_, ast.Constant) and k_.value == "type"), None)
    tname = u(typ).split(".")[-1] if typ is not None else "str"
    admits = None
    if tname in ("int", "as_int"):
        admits = True
    else:
        am = pkg.module("argcheck")
        for st in am.tree.body:
            if isinstance(st, ast.Assign) and len(st.targets) == 1 and u(st.targets[0]) == tname and isinstance(st.value, ast.Call) \
                    and call_name(st.value) == "_cast_factory" and st.value.args:
                chk_node = st.value.args[1] if len(st.value.args) > 1 else kwarg(st.value, "check")  # (positional or by keyword)
                chk = u(chk_node) if chk_node is not None and not (isinstance(chk_node, ast.Constant) and chk_node.value is None) else None
                admits = {None: True, "is_nonneg": True, "is_nonnegi": True, "is_pos": False, "is_posi": False, "is_nat": False,
                          "is_neg": False, "is_negi": False}.get(chk, None)
    if admits is None:
        col.undecided(f"{rel}: the validator `{tname}` of --num-workers is not in the table of known ranges")
        return
    col.ob("G8", "S3", f"{rel}::_COMMON_ARGS[--num-workers]::serial-worker-count-is-admitted", admits,
           f"--num-workers is parsed with `{tname}`, which refuses 0: the serial branch of the dispatcher (num_workers == 0, 'zero worker processes') "
           f"cannot be asked for - every command returns a usage error for it", rel, typ.lineno if typ is not None else entry.lineno, sample=tname)


def _plain_workers_tables(ctx: Ctx):
    """S11 by value (sa/pyinterp.py): (a) the moment printer `_do_mv_printing` for pooled (sum, sum of squares, count) with counts 0, 1,
    2 and 5, with and without Bessel's correction and --std: a single counted segment has mean = its length and variance 0 (n/a only for
    the corrected variance), nothing counted prints n/a for both; (b) the per-utterance worker of the subsetting command against a
    modelled directory in which the alignment of the utterance is missing: features (and the reference) are copied / linked, the missing
    file is skipped - no exception, no dangling link."""
    import math
    from sa.pyinterp import PyInterp, Obj, Raised
    from sa.inteval import NotEvaluable
    col, pkg = ctx.col, ctx.pkg
    rel = pkg.module(MOD).relname
    # ---- (a)
    f = pkg.func(f"{MOD}::_do_mv_printing")
    bad, n = None, 0
    try:
        for s_, ss_, c_ in ((0, 0, 0), (5, 25, 1), (6, 20, 2), (20, 110, 5)):
            for bessel in (False, True):
                for std in (False, True):
                    buf = []
                    opts = Obj(precision=3, bessel=bessel, std=std, out=Obj(write=buf.append))
                    kind, _ = PyInterp().run(f.node, dict(zip([p_.name for p_ in f.params], (s_, ss_, c_, opts))))
                    n += 1
                    if c_ == 0:
                        want = "n/a (n/a)\n"
                    else:
                        mean = s_ / c_
                        var = ss_ / c_ - mean ** 2
                        if bessel and c_ == 1:
                            v_txt = "n/a"
                        else:
                            if bessel:
                                var *= c_ / (c_ - 1)
                            v_txt = "{:0.03f}".format(math.sqrt(var) if std else var)
                        want = "{:0.03f} ({})\n".format(mean, v_txt)
                    got = "".join(buf) if kind == "return" else f"{kind}"
                    if got != want and bad is None:
                        bad = ((s_, ss_, c_), bessel, std, got, want)
        col.count("moment_printer_rows", n)
        col.ob("G12", "S11", f"{rel}::_do_mv_printing::moments-line-table", bad is None,
               (f"pooled (sum, sum of squares, count) = {bad[0]}, bessel={bad[1]}, std={bad[2]}: the command prints {bad[3]!r}; the pooled moments are {bad[4]!r}") if bad else "",
               rel, f.line, sample=dict(rows=n))
    except NotEvaluable:
        pass
    # ---- (b)
    g = pkg.func(f"{MOD}::_copy_spect_data_dir_do_work")
    names = [p_.name for p_ in g.params]
    bad, n = None, 0
    try:
        for cp in (0, 1, 2):
            fs = {"src/feat/u.pt": "F", "src/ref/u.pt": "R", "src/ali/other.pt": "A"}
            ops = []
            holder = {}

            def leaf(e, env):
                it = holder["it"]
                if isinstance(e, ast.Call):
                    cn = call_name(e)
                    if cn == "os.path.join":
                        return "/".join(str(it.eval(a_, env)) for a_ in e.args)
                    if cn == "os.path.exists":
                        return ("yes",) if it.eval(e.args[0], env) in fs else ()
                    if cn == "os.path.dirname":
                        return str(it.eval(e.args[0], env)).rsplit("/", 1)[0]
                    if cn == "os.path.relpath":
                        return "<rel>" + str(it.eval(e.args[0], env))
                if isinstance(e, ast.Attribute) and u(e) in ("shutil.copy", "shutil.copy2", "os.link", "os.symlink", "shutil.copyfile"):
                    kind_ = u(e)

                    def op(src, dst, kind_=kind_):
                        real = src[5:] if src.startswith("<rel>") else src
                        if kind_ != "os.symlink" and real not in fs:
                            raise Raised("FileNotFoundError")
                        ops.append((kind_, real, dst, real in fs))
                        return dst
                    return op
                return None
            it = PyInterp(leaf=leaf)
            holder["it"] = it
            kind, val = it.run(g.node, dict(zip(names, ("u.pt", "src", "dst", cp, "feat", "ali", "ref"))))
            n += 1
            made = sorted(d_ for _, _, d_, _ in ops)
            dangling = [d_ for _, _, d_, ok_ in ops if not ok_]
            ok = kind == "return" and made == ["dst/feat/u.pt", "dst/ref/u.pt"] and not dangling
            if not ok and bad is None:
                bad = (("copy", "symlink", "hard link")[cp], f"raises {val}" if kind != "return" else f"creates {made}" + (f", dangling: {dangling}" if dangling else ""))
        col.count("subset_worker_rows", n)
        col.ob("G12", "S11", f"{rel}::_copy_spect_data_dir_do_work::missing-optional-file-is-skipped", bad is None,
               (f"with {bad[0]} and an utterance whose alignment file does not exist the worker {bad[1]}; documented: features and reference are "
                f"carried over, the missing file is ignored") if bad else "", rel, g.line, sample=dict(rows=n))
    except NotEvaluable:
        pass


def _ali_moments_table(ctx: Ctx):
    """S8 by value: the per-file worker of print-torch-ali-data-dir-length-moments interpreted over exact values (sa/interp.py +
    sa/teval.py; torch.load answered with the alignment): the returned (sum, sum of squares, count) are those of the lengths of the
    maximal runs whose label is none of the excluded ids - for no, one, a repeated, two and three excluded ids (a run is dropped
    when its label equals ANY of them)."""
    from sa.interp import Interp
    from sa.inteval import NotEvaluable
    from sa.teval import frac_array
    col, pkg = ctx.col, ctx.pkg
    f = pkg.func(f"{MOD}::_print_torch_ali_data_dir_length_moments")
    rel = f.module.relname
    names = [p_.name for p_ in f.params]
    alis = ([0, 0, 0, 5, 5, 9, 9, 9, 9, 0, 7, 7, 5], [3], [0, 0, 0, 0])
    excls = (None, [0], [0, 0], [0, 9], [9, 0, 42], [5, 7, 9])
    bad, n = None, 0
    try:
        for ali in alis:
            for ex in excls:
                def leaf(x, env, ali=ali):
                    if isinstance(x, ast.Call) and call_name(x) == "torch.load":
                        return frac_array(ali)
                    return None
                kind, got = Interp(leaf=leaf, tensors=True).run(f.node, dict(zip(names, ("<file>", frac_array(ex) if ex is not None else None))))
                n += 1
                runs = []
                for v_ in ali:
                    if runs and runs[-1][0] == v_:
                        runs[-1][1] += 1
                    else:
                        runs.append([v_, 1])
                lens = [l_ for v_, l_ in runs if ex is None or v_ not in ex]
                want = (sum(lens), sum(l_ * l_ for l_ in lens), len(lens))
                ok = kind == "return" and isinstance(got, tuple) and len(got) == 3 and tuple(int(g_) for g_ in got) == want
                if not ok and bad is None:
                    bad = (ali, ex, got if kind == "return" else f"raises {got}", want)
    except (NotEvaluable, TypeError, ValueError):
        return
    col.count("ali_moments_table_rows", n)
    col.ob("G12", "S8", f"{rel}::_print_torch_ali_data_dir_length_moments::moments-table", bad is None,
           (f"for the alignment {bad[0]} with excluded ids {bad[1]} the worker returns (sum, sum of squares, count) = {tuple(str(g_) for g_ in bad[2]) if isinstance(bad[2], tuple) else bad[2]}; "
            f"the lengths of the runs whose label is not excluded give {bad[3]}") if bad else "", rel, f.line, sample=dict(rows=n))


def _mutants():
    from selftest.mutate import Mutant as M
    C = "command_line.py"
    return [
        M("num-workers-natural", "command_line.py", "'type': argcheck.as_nonnegi", "'type': argcheck.as_nat", "serial-worker-count-is-admitted"),
        M("cursor-advances-after-a-removal", "command_line.py", "                raise ValueError(msg)\n        else:\n            idx += 1\n    assert len(ref_transcripts) == len(hyp_transcripts)", "                raise ValueError(msg)\n        idx += 1\n    assert len(ref_transcripts) == len(hyp_transcripts)", "delete-at-cursor-keeps-the-cursor"),
        M("excluded-frames-dropped-before-the-runs", "command_line.py", "    counts, lens = x.unique_consecutive(return_counts=True)\n    if exclude_ids is not None:\n        not_excluded = (counts.unsqueeze(1) != exclude_ids).all(1)\n        lens = lens[not_excluded]", "    if exclude_ids is not None:\n        not_excluded = (x.unsqueeze(1) != exclude_ids).all(1)\n        x = x[not_excluded]\n    _, lens = x.unique_consecutive(return_counts=True)", "runs-of-the-stored-alignment"),
        M("missing-test-reads-the-id-column", "command_line.py", "if (ref[:, 1:] < 0).any():\n        raise ValueError(f'{err_msg} some token boundaries missing')", "if (ref < 0).any():\n        raise ValueError(f'{err_msg} some token boundaries missing')", "sign-test-reads-the-boundary-columns"),
        M("length-from-missing-boundaries", "command_line.py", "elif has_segment_index and ref.size(0) and (ref[..., 1:] >= 0).any():", "elif has_segment_index:", "inferred-length-is-not-the-missing-marker"),
        M("per-utt-rate-divides-by-empty-reference", "command_line.py", "error_rates[utt_id] = er.item() / denom if denom else float(er.item() > 0)", "error_rates[utt_id] = er.item() / denom", "per-utterance-length-divisor-guarded"),
        M("id-slice-negative-zero", "command_line.py", "x[fpl:len(x) - fsl]", "x[fpl:-fsl]", "no-negative-zero-slice-bound"),
        M("endswith-prefix-again", C, "if x.startswith(options.file_prefix) and x.endswith(options.file_suffix))\n    os.makedirs(options.ali_dir",
          "if x.startswith(options.file_prefix) and x.endswith(options.file_prefix))\n    os.makedirs(options.ali_dir", "G"),
        M("print-in-unordered-loop", C, "s += s_\n        ss += ss_\n        c += c_\n    _do_mv_printing(s, ss, c, options)\n\ndef _print_torch_ref",
          "s += s_\n        options.out.write(str(s_))\n        ss += ss_\n        c += c_\n    _do_mv_printing(s, ss, c, options)\n\ndef _print_torch_ref", "@consumer"),
        M("listing-to-list", C, "utt_ids = (x[len(options.file_prefix):len(x) - len(options.file_suffix)] for x in os.listdir(options.dir)",
          "utt_ids = [x[len(options.file_prefix):len(x) - len(options.file_suffix)] for x in os.listdir(options.dir)", "@consumer"),
        M("dataset-unsorted", C, "self.utt_ids = sorted((x[fpl:len(x) - fsl] for x in os.listdir(dir_) if x.startswith(file_prefix) and x.endswith(file_suffix)))",
          "self.utt_ids = list((x[fpl:len(x) - fsl] for x in os.listdir(dir_) if x.startswith(file_prefix) and x.endswith(file_suffix)))", "@consumer"),
        M("worker-global", C, "def _print_torch_ali_data_dir_length_moments(file_name, exclude_ids):\n    x = torch.load(file_name)",
          "def _print_torch_ali_data_dir_length_moments(file_name, exclude_ids):\n    global _seen\n    x = torch.load(file_name)", "no-global-state"),
        M("worker-shared-output", C, "torch.save(tok, os.path.join(dir_, basename))", "torch.save(tok, os.path.join(dir_, 'last.pt'))", "path-derives-from-item"),
        M("serial-drops-args", C, "yield from (do_work_func(x_n, *args) for x_n in x)", "yield from (do_work_func(x_n) for x_n in x)", "serial==pooled"),
        M("batch-bounds-differ", C, "for utt, transcript in hyp_transcripts[:options.batch_size]]", "for utt, transcript in hyp_transcripts[:options.batch_size + 1]]", "same-bounds"),
        M("total-uses-last-batch", C, "tot_errs / (len(error_rates) if options.distances else total_ref_tokens)", "tot_errs / (len(batch_ref_transcripts) if options.distances else total_ref_tokens)", "G16"),
        M("costs-swapped", C, "ins_cost=options.costs[0], del_cost=options.costs[1]", "ins_cost=options.costs[1], del_cost=options.costs[0]", "error_rate(costs)"),
        M("textgrid-length-in-ms", C, "T = T * frame_shift_ms / 1000", "T = T * frame_shift_ms", "length-in-seconds"),
        M("splitext-id", C, "file_name[:len(file_name) - len(options.textgrid_suffix)]", "os.path.splitext(file_name)[0]", "reduce(file_name)"),
        M("strip-other-suffix", C, "x[:len(x) - len(options.file_suffix)] for x in os.listdir(options.ref_dir)", "x[:len(x) - len(options.textgrid_suffix)] for x in os.listdir(options.ref_dir)", "strip("),
        M("option-unread", C, "options.tier_name,\n        options.precision", "'transcript',\n        options.precision", "option(tier_name)"),
        M("dispatch-arity", C, "options.tier_name, options.precision, options.quiet, options.force_method)", "options.tier_name, options.precision, options.quiet)", "worker-arity"),
        M("twin:rename-x", C, "for s_, ss_, c_ in", "for a_, ss_, c_ in", "", -1, twin=True),
    ]


def selftest(ctx: Ctx):
    from selftest.mutate import run_selftest
    return run_selftest("C17", ctx.pkg.repo, _mutants(), floor=12, jobs=12)


MANIFEST = dict(
    level_text=(
        "Static analysis (no execution) of the 16 console commands: option-consumption and affix-kind rules over every "
        "declared flag and every file-name filter, argument binding through the worker dispatcher, and an unordered-"
        "flow / effect analysis that decides worker-count independence for every completion order at once: each "
        "unordered source (directory listing, imap_unordered) reaches only order-insensitive folds, sorted containers "
        "or per-item outputs; workers are free of global state and shared-argument mutation; the serial and pooled "
        "branches are the same application. Plus the structural part of batch-size independence and unit kinds. "
        "Necessary conditions of C17; that paired commands invert each other on data is not decided. The validator of the shared --num-workers option admits 0, the value the dispatcher's serial branch tests for (validator resolved in argcheck, admitted range from a closed table of its checks)."),
    level_note="Trusted: python ast; multiprocessing.Pool semantics (each item processed once). F2 (suffix filter used "
               "the prefix; --file-suffix unread) was found by G4/G7 and repaired.",
    technique="static analysis: unordered-source to order-sensitive-sink flow analysis, effect analysis of worker functions, option-consumption and affix-kind lints, argument binding; interpretation of the ali length-moments worker over exact tensors for 0-3 excluded ids; ali <-> token workers interpreted against a modelled directory (round trip and refusals); option-validator range table against the dispatcher's serial test",
    design_ref="DESIGN.md section 4 C17",
)
