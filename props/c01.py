"""C01 edit distance: forwarding (G5/G1), mode table (G13), batch independence (G17)."""
from __future__ import annotations

from sa.astutil import under_flag as _uflag

import ast

from rules import fwd as R_fwd
from sa.astutil import call_name, u
from sa.model import own_calls, own_nodes
from . import string_common as SC
from .common import Ctx, plumbing


def run(ctx: Ctx):
    col, pkg, res = ctx.col, ctx.pkg, ctx.res
    R_fwd.g5_module_pairs(pkg, res, col, only={"edit_distance", "prefix_edit_distances"}, clause="S1")
    col.floor("g5_pairs", col.counts.get("g5_pairs", 0), 2)
    SC.mode_table(ctx, ["edit_distance", "prefix_edit_distances"], "S2")
    SC.batch_independence(ctx, "S3")
    SC.no_eos_mask_uses_its_own_extent(ctx, "S3")
    # equal costs: the DP runs with unit costs and both result forms are rescaled by the common cost exactly once
    SC.equal_cost_shortcut(ctx, "S2")
    SC.lens_helper_total(ctx, "S3")
    SC.lens_helper_table(ctx, "S3")
    SC.tokens_compared_as_integers(ctx, "S3")
    kernel_decided = SC.kernel_value_table(ctx, "S5", "distance")
    SC.distance_buffers_are_floating(ctx, "S3")
    # normalisation divides by the reference length (not the hypothesis length), in both result forms
    f = pkg.func("_string::_string_matching")
    rel = f.module.relname
    from sa.astutil import guards_of, parent_map
    pm = parent_map(f.node)
    # roles recovered by dataflow: the length vectors are the results of _lens_from_eos(<ref|hyp>, eos, 0)
    lens = {}
    for n in own_nodes(f.node):
        if isinstance(n, ast.Assign) and isinstance(n.value, ast.Call) and call_name(n.value) == "_lens_from_eos" \
                and isinstance(n.targets[0], ast.Name) and n.value.args and u(n.value.args[0]) in ("ref", "hyp"):
            lens[u(n.value.args[0])] = n.targets[0].id
    if set(lens) != {"ref", "hyp"}:
        from sa.model import AnalysisError
        raise AnalysisError("C01: the reference / hypothesis length vectors (results of _lens_from_eos) were not found")
    RL, HL = lens["ref"], lens["hyp"]
    divs = [n for n in own_nodes(f.node) if isinstance(n, ast.Assign) and isinstance(n.value, ast.BinOp)
            and isinstance(n.value.op, ast.Div) and u(n.targets[0]) == u(n.value.left)]
    ok = len(divs) == 2 and all(u(n.value.right).startswith(RL + ".to(") for n in divs)
    col.ob("G16", "S2", f"{rel}::_string_matching::norm-by-reference-length", ok,
           f"normalisation divides by {[u(n.value.right) for n in divs]}; expected the reference length in both the "
           f"final and the per-prefix form", rel, f.line, sample=[u(n) for n in divs])
    col.ob("G16", "S2", f"{rel}::_string_matching::norm-only-on-request",
           all(__import__("sa.astutil", fromlist=["under_flag"]).under_flag(guards_of(pm, n), "norm", True) for n in divs),
           "a division by the reference length happens without norm=True", rel, f.line)
    # lengths: include_eos adds exactly one where there is an eos - as a table (props/string_common.py::length_table)
    SC.length_table(ctx, "S2")
    # (decided by value when the kernel table ran: its per-prefix rows - with and without the full prefix - hold the padding positions;
    #  the def-use form below is the fallback for a kernel outside the interpreted fragment)
    if not kernel_decided:
        # ---- S4 prefix form: the padding value is the last thing written -------------------------------------------
        from sa.defuse import ReachingDefs
        from sa.model import AnalysisError
        rd = ReachingDefs(f.node)
        LAYOUT = {"t", "transpose", "contiguous", "permute", "clone"}
        rets = [n for n in own_nodes(f.node) if isinstance(n, ast.Return) and n.value is not None
                and _uflag(guards_of(pm, n), "return_prf_dsts", True)]
        if not rets:
            raise AnalysisError("C01: the per-prefix return of _string_matching was not found")
        fills, bad = [], []

        def unwind(e, depth=0):
            if depth > 12:
                bad.append(e)
            elif isinstance(e, ast.Name):
                ds = list(rd.defs_of(e))
                if not ds:
                    bad.append(e)
                for d in ds:
                    if d.kind == "assign" and d.value is not None:
                        unwind(d.value, depth + 1)
                    else:
                        bad.append(e)
            elif isinstance(e, ast.Call) and isinstance(e.func, ast.Attribute) and e.func.attr in LAYOUT:
                unwind(e.func.value, depth + 1)
            elif isinstance(e, ast.Call) and isinstance(e.func, ast.Attribute) and e.func.attr in ("masked_fill", "masked_fill_") \
                    and len(e.args) == 2 and isinstance(e.args[1], ast.Name) and e.args[1].id == "padding" \
                    and all(d.kind == "param" for d in rd.defs_of(e.args[1])):
                fills.append(e)
            else:
                bad.append(e)
        for r in rets:
            unwind(r.value)
        col.ob("G16", "S4", f"{rel}::_string_matching::prefix-padding-written-last", bool(fills) and not bad,
               f"between writing the padding value and returning the per-prefix table the value passes through "
               f"{[u(b)[:60] for b in bad]}: positions past the hypothesis's own length would no longer hold the padding "
               f"value (only layout operations may follow the fill)", rel, (bad[0].lineno if bad else rets[0].lineno),
               sample=[u(x)[:100] for x in fills])
        # the filled positions: prefix index >= hypothesis length (+1 for the full prefix unless it is excluded)
        okm = bool(fills)
        for fl in set(fills):
            m = fl.args[0]
            from sa.astutil import oriented
            from sa.inline import Inliner
            mx = Inliner(f.node, rd, keep={HL}).expand(m)  # the index range may have been given a name
            cmpo = [c for c in ast.walk(mx) if isinstance(c, ast.Compare)]
            if len(cmpo) != 1:
                okm = False
                continue
            has_arange = lambda e: any(isinstance(c, ast.Call) and call_name(c) == "torch.arange" for c in ast.walk(e))
            o = oriented(cmpo[0], has_arange)
            if o is None:
                okm = False
                continue
            op, lhs, rhs = o
            has_ar = True
            from sa.astutil import eval_under_flag
            if not (op == "ge" and has_ar and isinstance(rhs, ast.BinOp) and isinstance(rhs.op, ast.Add) and u(rhs.left) == HL
                    and eval_under_flag(rhs.right, "exclude_last", True, rd) == 0
                    and eval_under_flag(rhs.right, "exclude_last", False, rd) == 1):
                okm = False
        col.ob("G12", "S4", f"{rel}::_string_matching::prefix-padding-positions", okm,
               f"the padded positions are `{[u(fl.args[0])[:120] for fl in set(fills)]}`; expected prefix index >= "
               f"hypothesis length + (0 if exclude_last else 1): prefixes 0..len (the full one omitted on request) carry "
               f"distances and everything past them the padding value", rel, rets[0].lineno)

    plumbing(ctx, "S1")
    return dict(
        explanation=(
            "Decides for C01: (S1) the ten options of EditDistance / PrefixEditDistances reach the same-named kernel "
            "formals through Module -> functional -> kernel (the three costs are mutually transposable floats); (S2) "
            "edit_distance / prefix_edit_distances run the kernel in the distance modes (no mistakes table, prefix "
            "form only for the prefix variant), normalisation divides by the reference length only on request, "
            "include_eos adds one to both lengths; (S3) the kernel's batch-wide reductions only guard warnings and "
            "masked, idempotent updates, so a pair's result cannot depend on the other pairs. (S5) the whole kernel is interpreted over exact values "
            "for a grid of batches (eos in the middle / first / absent, junk after the eos), five cost triples (one beyond any finite stand-in for infinity), both layouts, "
            "eos / include_eos / norm settings and the per-prefix form, and every pair's result equals a per-pair Levenshtein programme: the recurrence and the "
            "independence from post-eos tokens are decided ON THAT GRID, not for all lengths. (S4) the per-prefix table is filled with the padding value at prefix index >= hyp_len + (0 if exclude_last else 1) and only layout operations follow the fill."),
        decided=["S1", "S2", "S3", "S4", "S5"],
        not_decided=["DP recurrence == Levenshtein distance beyond the interpreted grid (lengths <= 4, 5 pairs)"],
        assumptions=["parameter names and docstring tables as oracle"],
    )


def _mutants():
    from selftest.mutate import Mutant as M
    S = "_string.py"
    return [
        M("ref-no-eos-mask-uses-hyp-extent", S, "ref_eq_mask = ref_lens == max_ref_steps", "ref_eq_mask = ref_lens == max_hyp_steps", "no-eos-mask[ref]-compares-with-its-own-extent"),
        M("proxy-through-instance-class", "_wrappers.py", "lambda self, *x, **y: torch.nn.Module.__call__(self, *x, **y)", "lambda self, *x, **y: super(self.__class__, self).__call__(*x, **y)", "dispatch-is-subclass-safe"),
        M("first-eos-on-empty-dimension", S, "if tok.size(dim) == 0:\n        return tok.sum(dim, dtype=torch.long)\n", "", "index-reduction-guarded-for-the-empty-dimension"),
        M("scaled-after-padding", S, "return prefix_ers", "return prefix_ers * mult", "levenshtein-table"),
        M("padding-before-norm", S, "prefix_ers = prefix_ers * mult\n        if norm:", "prefix_ers = prefix_ers.masked_fill(torch.arange(prefix_ers.size(0), device=device).unsqueeze(1).ge(hyp_lens + (0 if exclude_last else 1)), padding) * mult\n        if norm:", "levenshtein-table"),
        M("full-prefix-always-dropped", S, ".ge(hyp_lens + (0 if exclude_last else 1))", ".ge(hyp_lens)", "levenshtein-table"),
        M("exclude-last-inverted", S, ".ge(hyp_lens + (0 if exclude_last else 1))", ".ge(hyp_lens + (1 if exclude_last else 0))", "levenshtein-table"),
        M("prefix-unscaled", S, "prefix_ers = prefix_ers * mult\n", "", "G"),
        M("twin:padding-positions-by-int", S, ".ge(hyp_lens + (0 if exclude_last else 1))", ".ge(hyp_lens + (1 - int(exclude_last)))", "", twin=True),
        M("costs-swapped-in-edit-distance", S, "return _string_matching(ref, hyp, eos, include_eos, batch_first, ins_cost, del_cost, sub_cost, warn, norm=norm)",
          "return _string_matching(ref, hyp, eos, include_eos, batch_first, del_cost, ins_cost, sub_cost, warn, norm=norm)", "G"),
        M("module-drops-norm", S, "return edit_distance(ref, hyp, self.eos, self.include_eos, self.norm, self.batch_first, self.ins_cost, self.del_cost, self.sub_cost, self.warn)",
          "return edit_distance(ref, hyp, self.eos, self.include_eos, False, self.batch_first, self.ins_cost, self.del_cost, self.sub_cost, self.warn)", "G5/S1"),
        M("prefix-returns-mistakes", S, "exclude_last=exclude_last, padding=padding, return_mistakes=False)", "exclude_last=exclude_last, padding=padding, return_mistakes=True)", "kernel-mode"),
        M("unmasked-update-under-any", S, "ref_lens = ref_lens - ref_eq_mask.to(ref_lens.dtype)", "ref_lens = ref_lens - 1", "only-masked-idempotent-updates"),
        M("norm-by-hyp-lens", S, "er = er / ref_lens.to(er.dtype)", "er = er / hyp_lens.to(er.dtype)", "norm-by-reference-length"),
        M("prefix-drops-padding", S, "return_prf_dsts=True, exclude_last=exclude_last, padding=padding, return_mistakes=False)", "return_prf_dsts=True, exclude_last=exclude_last, return_mistakes=False)", "G5"),
        M("include-eos-only-ref", S, "hyp_lens = hyp_lens + 1", "hyp_lens = hyp_lens + 0", "include-eos-adds-one"),
        M("twin:rename-mask", S, "ref_eq_mask", "ref_no_eos", "", -1, twin=True),
    ]


def selftest(ctx: Ctx):
    from selftest.mutate import run_selftest
    return run_selftest("C01", ctx.pkg.repo, _mutants(), floor=6)


MANIFEST = dict(
    level_text=(
        "Static analysis (no execution): forwarding completeness of the 10 transposable options through Module -> "
        "functional -> kernel, the mode table of the shared kernel, and a batch-mixing rule showing that the kernel's "
        "batch-wide reductions cannot make one pair's result depend on another; the per-prefix table is filled with the "
        "padding value at prefix index >= hyp_len + (0 if exclude_last else 1) and only layout operations follow the fill; "
        "for equal costs both result forms are rescaled by the common cost exactly once. These are the structural clauses of "
        "C01 ('under the given costs', 'either layout', 'never depends on the other pairs'); equality of the vectorised "
        "recurrence with the Levenshtein minimum is decided by interpreting the whole kernel over exact values on a finite grid of "
        "batches / costs / options (102 rows against a per-pair oracle), not for all lengths. The kernel table includes batches whose hypotheses have no step at all; gather is evaluated by the library's rule (no broadcasting of the table)."),
    level_note="Trusted: python ast; formal names / docstring tables as oracle for what each public name computes.",
    technique="static analysis: argument binding / forwarding completeness, literal mode-table agreement, batch-mixing reduction rule, write-last (def-use) rule for the padding value; interpretation of the whole kernel over exact tensor values (syntax tree only, library constants folded from their definitions) compared with a per-pair Levenshtein oracle on a finite grid",
    design_ref="DESIGN.md section 4 C01",
)
