"""C01: structural clauses (see DESIGN.md section 4)."""
from __future__ import annotations

from rules import fwd as R_fwd
from .common import Ctx, plumbing


def run(ctx: Ctx):
    plumbing(ctx, 'S1')
    R_fwd.g5_module_pairs(ctx.pkg, ctx.res, ctx.col, only=['edit_distance', 'prefix_edit_distances'], clause='S1')
    ctx.col.floor('g5_pairs', ctx.col.counts.get('g5_pairs', 0), 2)
    R_fwd.g5_delegation(ctx.pkg, ctx.res, ctx.col, ['_string::edit_distance', '_string::prefix_edit_distances'], {'_string_matching'}, clause='S1')
    return dict(explanation='plumbing clauses only (work in progress)', decided=['S1'], not_decided=[])
