"""C07 sequence scores, random walks, greedy CTC: forwarding (G5/G1/G2), sibling kernel
agreement (G13), neutral elements (G13), single-source parameters of the distribution (G13)."""
from __future__ import annotations

import ast
import re

from rules import fwd as R_fwd
from sa.astutil import call_name, guards_of, is_neg_inf, kwarg, parent_map, u
from sa.defuse import ReachingDefs
from sa.model import AnalysisError, own_calls, own_nodes
from sa.resolve import bind_args
from .common import Ctx, plumbing

MOD = "_decoding"


def _is_oov_mask(v) -> bool:
    """(hyp < 0) | (hyp >= <name>), in either operand order and either comparison spelling."""
    from sa.astutil import oriented
    if not (isinstance(v, ast.BinOp) and isinstance(v.op, ast.BitOr)):
        return False
    kinds = set()
    for side in (v.left, v.right):
        o = oriented(side, lambda e: u(e) == "hyp")
        if o is None:
            return False
        op, _, b = o
        if op == "lt" and u(b) == "0":
            kinds.add("negative")
        elif op == "ge" and isinstance(b, ast.Name):
            kinds.add("beyond")
        else:
            return False
    return kinds == {"negative", "beyond"}


def _kernel_fingerprint(f):
    """What a sequence-log-prob kernel does, as dataflow facts (independent of how statements are split or joined):
    the scores are log-softmaxed over the last axis; out-of-vocabulary tokens are found by the two range comparisons;
    the gather index is the token tensor with those positions zeroed; the gathered scores are filled with a constant under a
    mask that derives from the same comparisons; a sum follows the fill."""
    from sa.astutil import oriented
    rd = ReachingDefs(f.node)
    tok = f.params[1].name
    calls = list(own_calls(f.node))
    steps = []
    # log-softmax over the last axis
    lsm = [c for c in calls if call_name(c).endswith("log_softmax") and "-1" in [u(a) for a in c.args[-1:]] + [u(k.value) for k in c.keywords]]
    if lsm:
        steps.append("log_softmax(-1)")
    # the two out-of-vocabulary comparisons on the tokens
    kinds = {}
    for n in own_nodes(f.node):
        if isinstance(n, ast.Compare):
            o = oriented(n, lambda e: isinstance(e, ast.Name) and e.id == tok)
            if o is not None:
                if o[0] == "lt" and u(o[2]) == "0":
                    kinds["negative"] = n
                elif o[0] == "ge" and isinstance(o[2], ast.Name):
                    kinds["beyond"] = n
    if set(kinds) == {"negative", "beyond"}:
        steps.append("oov-mask=(hyp<0)|(hyp>=num_classes)")

    def from_oov(e):
        ns = list(rd.derives(e).nodes())
        return all(any(x is c for x in ns) or any(x is c for x in ast.walk(e)) for c in kinds.values()) if kinds else False
    # a sequence-length mask or-ed in (padded kernel with eos)
    if any(isinstance(n, ast.BinOp) and isinstance(n.op, ast.BitOr) and any(
            isinstance(c, ast.Call) and call_name(c).endswith("_lens_from_eos") for c in rd.derives(n).calls()) for n in own_nodes(f.node)):
        steps.append("mask|=len-mask")
    fills = [c for c in calls if isinstance(c.func, ast.Attribute) and c.func.attr == "masked_fill" and len(c.args) == 2]
    gath = [c for c in calls if isinstance(c.func, ast.Attribute) and c.func.attr == "gather" and len(c.args) == 2]
    # index := 0 under the mask: a masked_fill(oov-derived mask, 0) of the tokens that reaches a gather index
    def is_tokens(e):  # the token tensor itself, or a copy / re-layout of it
        return any(isinstance(x, ast.Name) and x.id == tok for x in ast.walk(e)) or any(
            isinstance(x, ast.Name) and x.id == tok for x in rd.derives(e).nodes())
    idx_fill = [c for c in fills if u(c.args[1]) == "0" and from_oov(c.args[0]) and is_tokens(c.func.value)]
    if idx_fill and any(any(x is idx_fill[0] for x in rd.derives(g.args[1]).nodes()) or any(x is idx_fill[0] for x in ast.walk(g.args[1])) for g in gath):
        steps.append("index:=0 under mask")
    if gath and any(any(isinstance(x, ast.Name) and x.id == tok for x in rd.derives(g.args[1]).nodes()) or tok in u(g.args[1]) for g in gath):
        steps.append("gather(hyp)")
    # the fill of the gathered scores
    for c in fills:
        if c in idx_fill:
            continue
        recv_calls = list(rd.derives(c.func.value).calls()) + [x for x in ast.walk(c.func.value) if isinstance(x, ast.Call)]
        if any(x is g for g in gath for x in recv_calls) and from_oov(c.args[0]):
            steps.append(f"fill({u(c.args[1])})")
    # (the reductions of the gathered scores - a sum that counts lengths is not one of them)
    def _from_gather(e):
        cs = list(rd.derives(e).calls()) + [x for x in ast.walk(e) if isinstance(x, ast.Call)]
        return any(x is g for g in gath for x in cs)
    red = [c.func.attr for c in calls if isinstance(c.func, ast.Attribute) and c.func.attr in ("sum", "prod", "mean")
           and (_from_gather(c.func.value) if gath else not (isinstance(c.func.value, ast.Call) and "to(" in u(c.func.value)))]
    return steps, red


def run(ctx: Ctx):
    col, pkg, res = ctx.col, ctx.pkg, ctx.res
    rel = pkg.module(MOD).relname

    # ---- S1 forwarding ---------------------------------------------------------------------------------
    R_fwd.g5_module_pairs(pkg, res, col, only={"sequence_log_probs", "ctc_greedy_search", "fill_after_eos"}, clause="S1")
    col.floor("g5_pairs", col.counts.get("g5_pairs", 0), 4)
    kt = pkg.func(f"{MOD}::_sequence_log_probs_tensor")
    kp = pkg.func(f"{MOD}::_sequence_log_probs_ps")
    n_disp = 0
    for f in pkg.funcs(f"{MOD}::sequence_log_probs"):
        for c in own_calls(f.node):
            if call_name(c) == kt.name:
                got = {p.name: u(a) for p, a, _ in bind_args(c, kt, False).pairs}
                n_disp += 1
                col.ob("G1", "S1", f"{rel}::sequence_log_probs@{f.line}::tensor-kernel-binding",
                       got == {"logits": "logits", "hyp": "hyp", "dim": "dim", "eos": "eos"}, f"tensor kernel called with {got}", rel, c.lineno, sample=got)
            if call_name(c) == kp.name:
                got = {p.name: u(a) for p, a, _ in bind_args(c, kp, False).pairs}
                n_disp += 1
                col.ob("G1", "S1", f"{rel}::sequence_log_probs@{f.line}::packed-kernel-binding",
                       got == {"logits": "logits", "hyp": "hyp", "dim": "dim"}, f"packed kernel called with {got} (eos is "
                       f"documented as ignored for packed input)", rel, c.lineno, sample=got)
    col.floor("sequence_log_probs_dispatch_sites", n_disp, 4)
    rw = pkg.func(f"{MOD}::RandomWalk.forward")
    rwa = pkg.func(f"{MOD}::random_walk_advance")
    rdw = ReachingDefs(rw.node)
    calls = [n for n in own_nodes(rw.node) if isinstance(n, ast.Assign) and isinstance(n.value, ast.Call) and call_name(n.value) == rwa.name]
    if not calls:
        raise AnalysisError("C07: RandomWalk.forward does not call random_walk_advance")
    # (the call may be duplicated into the two arms of the eos test: all copies must be the same call)
    same = len({(u(c.value), u(c.targets[0])) for c in calls}) == 1
    col.ob("G2", "S1", f"{rel}::RandomWalk.forward::one-advance-per-step", same,
           f"the step function is called in {len(calls)} different ways in one step: {[u(c)[:70] for c in calls]}", rel, calls[0].lineno,
           nontrivial=False)
    asg = calls[0]
    got = {p.name: a for p, a, _ in bind_args(asg.value, rwa, False).pairs}
    tg = [u(t) for t in asg.targets[0].elts] if isinstance(asg.targets[0], ast.Tuple) else []
    # roles: the walk's (paths, scores) are what the function returns in slots 0 and 2
    ret = [st for st, _ in rdw.return_envs][-1]
    rnames = [u(x) for x in ret.value.elts] if isinstance(ret.value, ast.Tuple) else []
    ok = len(rnames) == 3 and tg == [rnames[0], rnames[2]] and u(got.get("y_prev")) == rnames[0] \
        and u(got.get("log_probs_prev")) == rnames[2] and u(got.get("y_prev_lens")) == rnames[1]
    col.ob("G2", "S1", f"{rel}::RandomWalk.forward::random_walk_advance-slots", ok,
           f"random_walk_advance({', '.join(k + '=' + u(v) for k, v in got.items())}) -> {tg}; the returned triple is "
           f"{rnames}: paths/scores/lengths must be fed and received in their own slots", rel, asg.lineno,
           sample=dict(args={k: u(v) for k, v in got.items()}, targets=tg, returned=rnames))
    # finished walks are forced to eos exactly like in the beam search; the length counts the first eos
    pm = parent_map(rw.node)
    fills = [c for c in own_calls(rw.node) if isinstance(c.func, ast.Attribute) and c.func.attr == "masked_fill" and len(c.args) == 2]
    vals = sorted("-inf" if is_neg_inf(c.args[1]) else u(c.args[1]) for c in fills)
    col.ob("G13", "S1", f"{rel}::RandomWalk.forward::finished-walks-forced-to-eos", vals == ["-inf", "0.0"],
           f"finished walks' step scores are filled with {vals}; expected -inf everywhere then 0.0 at eos", rel, rw.line, sample=vals)
    incs = [n for n in own_nodes(rw.node) if isinstance(n, ast.AugAssign) and isinstance(n.op, ast.Add) and len(rnames) == 3 and u(n.target) == rnames[1]]
    vals2 = sorted(u(n.value) for n in incs)
    okinc = len(incs) == 2 and vals2[0] == "1" and vals2[1].startswith("~")
    from .search_common import finished_mass_on_eos
    finished_mass_on_eos(ctx, rw, "S1")
    col.ob("G16", "S1", f"{rel}::RandomWalk.forward::length-counts-up-to-first-eos", okinc,
           f"lengths are advanced by {vals2}; expected += 1 without eos and += ~(finished before this step) with eos (the "
           f"first eos is counted, later ones are not)", rel, rw.line, sample=vals2)

    # ---- S2 padded and packed kernels agree -----------------------------------------------------------------
    # both kernels by value first (tables); the dataflow fingerprints below are required only where a table is outside the interpreted fragment
    table_decided = _seqlp_table(ctx, kt, rel)
    packed_decided = _seqlp_packed_table(ctx, kp, rel)
    col.count("packed_table_decided", int(packed_decided))
    ft, rt = _kernel_fingerprint(kt)
    fp, rp = _kernel_fingerprint(kp)
    core = lambda st: [x for x in st if x != "mask|=len-mask"]
    if not (table_decided and packed_decided):
      col.ob("G13", "S2", f"{rel}::sequence_log_probs::kernels-agree", core(ft) == core(fp) and rt == rp and
           core(ft) == ["log_softmax(-1)", "oov-mask=(hyp<0)|(hyp>=num_classes)", "index:=0 under mask", "gather(hyp)", "fill(0.0)"]
           and rt == ["sum"],
           f"padded kernel: {ft} reduce {rt}; packed kernel: {fp} reduce {rp}; both must log-softmax the scores, mask "
           f"out-of-vocabulary positions by the same two comparisons, zero the index before the gather, fill with the "
           f"neutral element 0.0 and sum", rel, kt.line, sample=dict(padded=ft, packed=fp))
    # the out-of-vocabulary bound is the extent of the class axis: the dimension the scores are normalised over / gathered along
    for kf in (kt, kp):
        if (table_decided if kf is kt else packed_decided):
            continue  # (decided by value: the tables hold the token equal to the number of classes, with the other extents different from it)
        rdk = ReachingDefs(kf.node)
        gd = sd = None
        bnd = []
        for c in own_calls(kf.node):
            nm = call_name(c).split(".")[-1]
            if nm == "gather" and isinstance(c.func, ast.Attribute) and c.args and isinstance(c.args[0], (ast.Constant, ast.UnaryOp)):
                gd = u(c.args[0])
            if nm == "log_softmax":
                a = c.args[-1] if c.args else None
                sd = u(a) if a is not None else None
        from sa.astutil import oriented as _or
        tokn = kf.params[1].name
        for n_ in own_nodes(kf.node):
            if isinstance(n_, ast.Compare):
                o_ = _or(n_, lambda e: isinstance(e, ast.Name) and e.id == tokn)
                if o_ is not None and o_[0] == "ge":
                    bnd.append(o_[2])
        dims = set()
        for b_ in bnd:
            vs = [d.value for d in rdk.defs_of(b_)] if isinstance(b_, ast.Name) else [b_]
            for v_ in vs:
                if isinstance(v_, ast.Subscript) and isinstance(v_.value, ast.Attribute) and v_.value.attr == "shape":
                    dims.add(u(v_.slice))
                elif isinstance(v_, ast.Call) and isinstance(v_.func, ast.Attribute) and v_.func.attr == "size" and len(v_.args) == 1:
                    dims.add(u(v_.args[0]))
                else:
                    dims.add("?" + u(v_)[:30] if v_ is not None else "?")
        # the packed kernel works on the data of a PackedSequence of (T, N, C) scores, which is 2-dimensional: there axis 1 and
        # axis -1 are the same axis (in the padded kernel the rank is not fixed and only the spelling can be compared)
        if kf is kp:
            def _m2(d_):
                try:
                    return str(int(d_) % 2)
                except (TypeError, ValueError):
                    return d_
            dims, gd, sd = {_m2(d_) for d_ in dims}, _m2(gd), _m2(sd)
        ok = bool(dims) and dims <= {gd, sd} - {None}
        col.ob("G12", "S2", f"{rel}::{kf.qualname}::oov-bound-is-the-class-axis-extent", ok,
               f"tokens are out of vocabulary when >= the extent of dimension {sorted(dims)} of the scores, but the scores are "
               f"normalised over dimension {sd} and gathered along {gd}: valid tokens are dropped (or invalid ones index the "
               f"gather) whenever the two extents differ", rel, kf.line, sample=dict(bound_dims=sorted(dims), gather=gd, softmax=sd))
    # eos handling of the padded kernel: length to the first eos, plus one (eos included)
    lens = [n for n in own_nodes(kt.node) if isinstance(n, ast.Assign) and isinstance(n.value, ast.BinOp) and "_lens_from_eos" in u(n.value)]
    okl = len(lens) == 1 and u(lens[0].value) == "_lens_from_eos(hyp, eos, dim) + 1"
    from sa.astutil import oriented
    ltgt = u(lens[0].targets[0]) if lens else None
    lm = [n for n in own_nodes(kt.node) if isinstance(n, ast.Compare) and oriented(n, lambda e: u(e) == ltgt)]
    # position >= length  <=>  length <= position
    okm = len(lm) == 1 and oriented(lm[0], lambda e: u(e) == ltgt)[0] == "le"
    # def-use versions: the first eos and the out-of-vocabulary test are computed on the tokens as given; only the
    # gather index is the zeroed copy (zeroing first would turn out-of-vocabulary tokens into class 0 - an eos when
    # eos == 0 - and truncate the sequence there)
    from sa.defuse import ReachingDefs as _RD
    for kf in (kt, kp):
        rdk = _RD(kf.node)
        tok = kf.params[1].name
        raw_uses, bad_uses = [], []
        for c in own_calls(kf.node):
            tgt = None
            if call_name(c) == "_lens_from_eos" and c.args:
                tgt = c.args[0]
            if tgt is not None and any(isinstance(x, ast.Name) and x.id == tok for x in ast.walk(tgt)):
                zeroed = any(isinstance(x.func, ast.Attribute) and x.func.attr.startswith("masked_fill")
                             for x in rdk.derives(tgt).calls())
                (bad_uses if zeroed else raw_uses).append(c)
        # the two range comparisons of the out-of-vocabulary test (tok < 0, tok >= V; canonical operator spelling)
        for c in own_nodes(kf.node):
            if isinstance(c, ast.Compare) and len(c.ops) == 1 and isinstance(c.ops[0], (ast.Lt, ast.GtE, ast.Gt, ast.LtE)):
                for side in (c.left, c.comparators[0]):
                    if isinstance(side, ast.Name) and side.id == tok:
                        zeroed = any(isinstance(x.func, ast.Attribute) and x.func.attr.startswith("masked_fill")
                                     for x in rdk.derives(side).calls())
                        (bad_uses if zeroed else raw_uses).append(c)
        gath = [c for c in own_calls(kf.node) if isinstance(c.func, ast.Attribute) and c.func.attr == "gather"]
        idx_ok = False
        for c in gath:
            # the gather index is a zero-filled version of the tokens (whatever the copy is called)
            if c.args:
                dg = rdk.derives(c.args[-1])
                zf = any(isinstance(x.func, ast.Attribute) and x.func.attr.startswith("masked_fill") for x in list(dg.calls()) + [
                    y for y in ast.walk(c.args[-1]) if isinstance(y, ast.Call)])
                tk = any(isinstance(x, ast.Name) and x.id == tok for x in list(dg.nodes()) + list(ast.walk(c.args[-1])))
                idx_ok = idx_ok or (zf and tk)
        col.ob("G16", "S2", f"{rel}::{kf.qualname}::eos-and-oov-read-the-given-tokens", not bad_uses and len(raw_uses) >= 2 and idx_ok,
               f"`{[u(c)[:50] for c in bad_uses]}` read{'s' if len(bad_uses) == 1 else ''} the token tensor after its out-of-vocabulary positions were "
               f"overwritten with 0 (gather index from the zeroed copy: {idx_ok}); with eos == 0 an out-of-vocabulary "
               f"token then ends the sequence instead of being ignored", rel, (bad_uses[0].lineno if bad_uses else kf.line),
               sample=[u(c)[:60] for c in raw_uses])
    # packed kernel: the token matrix is (steps, batch) when dim == 0 and (batch, steps) when dim == 1. Everything that addresses
    # the BATCH axis of the tokens - re-ordering by the packed sequence's sorted indices, the number of sequences, the layout flag
    # handed to pack_padded_sequence - must follow `dim`: axis 1 - dim, batch_first == bool(dim). A hard-coded axis is right for one
    # value of dim only.
    from sa.inteval import NotEvaluable as _NE7, guarded_value as _gv7
    rdp, pmp = ReachingDefs(kp.node), parent_map(kp.node)
    dimn, tokn_p = kp.params[2].name, kp.params[1].name
    axis_sites, bad_axes = 0, []

    def _axis_val(e, d):
        return _gv7(e, {dimn: d, "True": True, "False": False}, rdp, pmp)

    def _is_tok(e):
        return any(isinstance(x, ast.Name) and x.id == tokn_p for x in ast.walk(e))
    for c in own_calls(kp.node):
        cn = call_name(c)
        ax = None
        want = "batch"
        if cn in ("torch.index_select",) and len(c.args) == 3 and _is_tok(c.args[0]):
            ax = c.args[1]
        elif isinstance(c.func, ast.Attribute) and c.func.attr == "index_select" and len(c.args) == 2 and _is_tok(c.func.value):
            ax = c.args[0]
        elif cn.endswith("pack_padded_sequence"):
            bf = next((k.value for k in c.keywords if k.arg == "batch_first"), c.args[2] if len(c.args) > 2 else None)
            if bf is not None:
                ax, want = bf, "batch_first"
        if ax is None:
            continue
        axis_sites += 1
        try:
            for d in (0, 1):
                v = _axis_val(ax, d)
                if want == "batch" and int(v) != 1 - d:
                    bad_axes.append((c, d, v))
                if want == "batch_first" and bool(v) != bool(d):
                    bad_axes.append((c, d, v))
        except (_NE7, TypeError, ValueError):
            # bool(dim) and the like
            if want == "batch_first" and u(ax).replace(" ", "") in (f"bool({dimn})", f"{dimn}==1", f"{dimn}!=0"):
                continue
            bad_axes.append((c, None, u(ax)))
    col.floor("packed_batch_axis_sites", axis_sites, 1)
    col.ob("G14", "S2", f"{rel}::_sequence_log_probs_ps::batch-axis-follows-dim", not bad_axes,
           (f"`{u(bad_axes[0][0])[:90]}` addresses the batch axis of the tokens as {bad_axes[0][2]} when dim == {bad_axes[0][1]}: the "
            f"tokens are (steps, batch) for dim == 0 and (batch, steps) for dim == 1, so the batch axis is 1 - dim; with a fixed axis "
            f"the packed and the padded form disagree for the other layout") if bad_axes else "", rel,
           bad_axes[0][0].lineno if bad_axes else kp.line, sample=axis_sites)
    from . import string_common as _SC7
    _SC7.lens_helper_table(ctx, "S2")
    if not table_decided:
      col.ob("G12", "S2", f"{rel}::_sequence_log_probs_tensor::up-to-and-including-first-eos", okl and okm,
             f"positions are dropped under `{u(lm[0]) if lm else None}` with length `{u(lens[0].value) if lens else None}`; "
             f"expected position >= (first eos index + 1)", rel, kt.line)

    # ---- S3 greedy CTC neutral elements --------------------------------------------------------------------------
    g = pkg.func(f"{MOD}::ctc_greedy_search")
    pmg = parent_map(g.node)
    # per value of is_probs (tests on it folded, temporaries forward-substituted): the constant written over the frames
    # beyond the valid length, and the reduction that follows
    from sa.inline import Inliner
    from sa.specialise import specialise
    table = {}
    for flag in (True, False):
        gnode, _ = specialise(g.node, {"is_probs": flag})
        inl_g = Inliner(gnode)
        ent = {}
        for c in ast.walk(gnode):
            if isinstance(c, ast.Call) and isinstance(c.func, ast.Attribute):
                if c.func.attr == "masked_fill" and len(c.args) == 2:
                    v_ = inl_g.expand(c.args[1])
                    if isinstance(v_, ast.Constant) and isinstance(v_.value, (int, float)) and not isinstance(v_.value, bool):
                        ent["fill"] = str(float(v_.value))
        # the reduction of the score: the outermost prod / sum of the first returned value (other sums - the output lengths - are
        # not the score's)
        for r_ in ast.walk(gnode):
            if isinstance(r_, ast.Return) and isinstance(r_.value, ast.Tuple) and r_.value.elts:
                x_ = inl_g.expand(r_.value.elts[0])
                if isinstance(x_, ast.Call) and isinstance(x_.func, ast.Attribute) and x_.func.attr in ("prod", "sum"):
                    ent["reduce"] = x_.func.attr
                elif isinstance(x_, ast.Call) and call_name(x_) in ("torch.prod", "torch.sum"):
                    ent["reduce"] = call_name(x_).split(".")[-1]
        table[flag] = ent
    col.ob("G13", "S3", f"{rel}::ctc_greedy_search::neutral-elements", table == {True: {"fill": "1.0", "reduce": "prod"}, False: {"fill": "0.0", "reduce": "sum"}},
           f"frames beyond the valid length are filled / reduced as {table}; probabilities need (1.0, prod), log-"
           f"probabilities (0.0, sum)", rel, g.line, sample={str(k): v for k, v in table.items()})
    norm = [n for n in own_nodes(g.node) if isinstance(n, ast.Assign) and "log_softmax" in u(n.value)]
    col.ob("G13", "S3", f"{rel}::ctc_greedy_search::normalise-iff-not-probs", len(norm) == 1 and any(
        (u(t) == "not is_probs" and p) or (u(t) == "is_probs" and not p) for t, p in guards_of(pmg, norm[0])),
        "scores are not log-softmax-normalised exactly when they are not already probabilities", rel, g.line)
    # repeats and blanks: keep = (label != blank) & (label != previous label), first frame kept iff non-blank
    txt = " ".join(u(n) for n in own_nodes(g.node) if isinstance(n, ast.Assign))
    okk = "!= blank_idx" in txt and re.search(r"(\w+)\[:, 1:\] != \1\[:, :-1\]", txt) is not None
    greedy_decided = _greedy_table(ctx, g, rel)
    if not greedy_decided:
      col.ob("G12", "S3", f"{rel}::ctc_greedy_search::drop-blanks-and-repeats", okk,
             "the keep mask is not (label != blank) & (label != previous label)", rel, g.line)

    # ---- S4 the distribution wrapper uses one source for eos / max_iters / vocabulary ------------------------------
    dist = pkg.cls(f"{MOD}::SequentialLanguageModelDistribution")
    uses = {"eos": set(), "max_iters": set(), "vocab_size": set()}
    for fl in dist.methods.values():
        for m in fl:
            if m.name == "__init__":
                continue
            for n in own_nodes(m.node):
                if isinstance(n, ast.Attribute) and isinstance(n.ctx, ast.Load) and n.attr in uses:
                    uses[n.attr].add(u(n))
    want = {"eos": {"self.random_walk.eos"}, "max_iters": {"self.max_iters"}, "vocab_size": {"self.random_walk.lm.vocab_size"}}
    col.ob("G13", "S4", f"{rel}::SequentialLanguageModelDistribution::single-source-parameters", uses == want,
           f"the wrapper reads {({k: sorted(v) for k, v in uses.items()})}; support, sampling, enumeration and log_prob "
           f"must agree on one eos / step limit / vocabulary", rel, dist.node.lineno, sample={k: sorted(v) for k, v in uses.items()})
    lp = pkg.func(f"{MOD}::SequentialLanguageModelDistribution.log_prob")
    slp = [c for c in own_calls(lp.node) if call_name(c) == "SequenceLogProbabilities"]
    col.ob("G13", "S4", f"{rel}::SequentialLanguageModelDistribution.log_prob::scores-with-the-walk's-eos",
           len(slp) == 1 and [u(a) for a in slp[0].args] == ["1", "self.random_walk.eos"],
           f"log_prob scores sequences with {[u(c) for c in slp]}; expected SequenceLogProbabilities(1, self.random_walk.eos)", rel, lp.line)
    from sa.inline import Inliner as _Inl
    sm = pkg.func(f"{MOD}::SequentialLanguageModelDistribution.sample")
    pads = [c for c in own_calls(sm.node) if call_name(c).endswith("pad_sequence")]
    col.ob("G13", "S4", f"{rel}::SequentialLanguageModelDistribution.sample::pads-with-eos",
           len(pads) == 1 and any(k.arg == "padding_value" and _Inl(sm.node).text(k.value) == "self.random_walk.eos" for k in pads[0].keywords),
           "ragged samples are not padded with the walk's eos (padded samples would leave the support)", rel, sm.line)
    walks = [c for c in own_calls(sm.node) if u(c.func) == "self.random_walk"]
    okw = len(walks) == 2 and all(u(c.args[0]) == "self.initial_state.copy()" and u(c.args[2]) == "self.max_iters" for c in walks)
    col.ob("G1", "S4", f"{rel}::SequentialLanguageModelDistribution.sample::walk(initial_state.copy(), n, max_iters)", okw,
           f"the walk is run as {[u(c) for c in walks]}", rel, sm.line)
    # log_prob accepts every shape sample() returns: value = sample_shape + batch_shape + event_shape with a possibly
    # empty sample_shape, so on the branch for batch_shape of length k the smallest admissible rank is k + 1
    _log_prob_min_rank(ctx, dist, lp, rel)
    # the cache key (samples) is stored only together with its value (log-probabilities)
    _cache_key_with_value(ctx, dist, lp, rel)
    _log_prob_input_contract(ctx, dist, lp, rel)
    _support_table(ctx, rel)
    _walk_table(ctx)
    col.count("advance_table_decided", int(_advance_table(ctx, rel)))
    # every scoring call of the wrapper starts the model from a fresh copy of the initial state (siblings agree)
    lmc = [c for c in own_calls(lp.node) if u(c.func) == "self.random_walk.lm"]
    col.ob("G1", "S4", f"{rel}::SequentialLanguageModelDistribution.log_prob::lm(hist, initial_state.copy())",
           len(lmc) >= 2 and all(len(c.args) == 2 and u(c.args[1]) == "self.initial_state.copy()" for c in lmc),
           f"log_prob runs the model as {[u(c) for c in lmc]}; the batched and the unbatched branch must both start "
           f"from a copy of the distribution's initial state, as sampling does, or the reported log-probability is that "
           f"of a different distribution", rel, lp.line, sample=[u(c) for c in lmc])
    from .search_common import eos_is_stored_normalised as _eosn
    _eosn(ctx, ctx.pkg.func("_decoding::RandomWalk.__init__"), "S7")
    from .search_common import initial_state_reaches_the_model as _isr
    _isr(ctx, ctx.pkg.func("_decoding::RandomWalk.forward"), "S6")
    plumbing(ctx, "S1")
    return dict(
        explanation=(
            "Decides for C07: (S1) Module->functional forwarding for sequence scores / greedy CTC / fill-after-eos, kernel "
            "bindings in both version-conditional definitions, the random walk's (paths, lengths, scores) slots through "
            "random_walk_advance, eos forcing (-inf then 0.0 at eos) and the length rule (first eos counted); (S2) the "
            "padded and packed kernels apply the same masking steps in the same order with the neutral element of their "
            "reduction, and the padded kernel keeps positions up to and including the first eos; (S3) greedy CTC uses "
            "(1.0, prod) for probabilities and (0.0, sum) for log-probabilities, normalises iff needed, drops blanks and "
            "repeats; (S4) the distribution wrapper reads eos / step limit / vocabulary from one source and scores, pads "
            "and walks with them. NOT decided: the numeric agreement itself, support normalisation, removal results."),
        decided=["S1", "S2", "S3", "S4"],
        not_decided=["three code paths agree numerically", "probabilities over the support sum to one", "decoding results"],
        assumptions=["documented exception: eos is ignored for packed input"],
    )


def _log_prob_min_rank(ctx: Ctx, dist, lp, rel: str):
    from sa.defuse import ReachingDefs
    col = ctx.col
    init = [m for fl in dist.methods.values() for m in fl if m.name == "__init__"][0]
    lens = set()
    rdi = ReachingDefs(init.node)
    sup = [c for c in own_calls(init.node) if isinstance(c.func, ast.Attribute) and c.func.attr == "__init__" and c.args
           and isinstance(c.args[0], ast.Name)]
    for c in sup:
        for d in rdi.defs_of(c.args[0]):
            v = d.value
            if d.kind == "assign" and isinstance(v, ast.Call) and call_name(v) == "torch.Size" and v.args \
                    and isinstance(v.args[0], (ast.List, ast.Tuple)):
                lens.add(len(v.args[0].elts))
    if lens != {0, 1} or not sup:
        raise AnalysisError(f"C07: batch shapes of the distribution are {sorted(lens)}; expected the empty and the one-element shape")
    rd = ReachingDefs(lp.node)
    pm = parent_map(lp.node)
    vname = lp.params[1].name
    n_sites = 0
    def same_rank_as_given(name_node, depth=0):
        """the value as given, or a version of it that can only have gained leading (broadcast) dimensions"""
        if depth > 6:
            return False
        for d in rd.defs_of(name_node):
            if d.kind == "param":
                continue
            v = d.value
            if d.kind == "assign" and isinstance(v, ast.Call) and (
                    (isinstance(v.func, ast.Attribute) and v.func.attr in ("expand", "long", "to", "contiguous") and
                     isinstance(v.func.value, ast.Name) and v.func.value.id == vname and same_rank_as_given(v.func.value, depth + 1)) or
                    (call_name(v).endswith("fill_after_eos") and v.args and isinstance(v.args[0], ast.Name) and v.args[0].id == vname
                     and same_rank_as_given(v.args[0], depth + 1))):
                continue
            return False
        return True
    for n in own_nodes(lp.node):
        need, what = None, None
        if isinstance(n, ast.Call) and isinstance(n.func, ast.Attribute) and isinstance(n.func.value, ast.Name) and n.func.value.id == vname \
                and same_rank_as_given(n.func.value):
            dims = [a.operand.value for a in list(n.args) + [k.value for k in n.keywords]
                    if isinstance(a, ast.UnaryOp) and isinstance(a.op, ast.USub) and isinstance(a.operand, ast.Constant)
                    and isinstance(a.operand.value, int)]
            if n.func.attr in ("flatten", "transpose", "unsqueeze", "squeeze", "select", "movedim", "size"):
                need, what = (max(dims) if dims else 0), u(n)
            elif n.func.attr in ("reshape", "view", "long", "to", "numel"):
                need, what = 0, u(n)  # rank-agnostic
        elif isinstance(n, ast.Attribute) and n.attr in ("T", "mT") and isinstance(n.value, ast.Name) and n.value.id == vname \
                and same_rank_as_given(n.value):
            need, what = 2, u(n)
        if need is None or what.endswith(".size(-1)"):
            continue
        k = None
        for t, pol in guards_of(pm, n):
            # a test on whether there is a batch shape, however it is spelled (`len(self.batch_shape)`, a flag holding it, `!= 0` ...):
            # evaluated for a batch shape of length 0 and 1
            try:
                from sa.inline import Inliner as _InlB
                from sa.inteval import NotEvaluable as _NEB, int_eval as _ieb
                te_ = _InlB(lp.node, ReachingDefs(lp.node)).expand(t)

                def _lf(x, k_):
                    if isinstance(x, ast.Call) and call_name(x) == "len" and len(x.args) == 1 and u(x.args[0]) == "self.batch_shape":
                        return k_
                    return None
                v0, v1 = bool(_ieb(te_, {"__leaf__": lambda x: _lf(x, 0)})), bool(_ieb(te_, {"__leaf__": lambda x: _lf(x, 1)}))
            except Exception:
                continue
            if v0 != v1:
                k = (1 if v1 else 0) if pol else (0 if v1 else 1)
        if k is None:
            continue
        n_sites += 1
        col.ob("G19", "S4", f"{rel}::SequentialLanguageModelDistribution.log_prob::accepts-unbatched-sample-shape[batch_shape-len={k}]",
               need <= k + 1,
               f"with a batch shape of length {k}, `sample()` (empty sample_shape) returns a tensor of rank {k + 1}, but log_prob "
               f"applies `{what}`, which needs rank >= {need}: log_prob(dist.sample()) raises instead of returning the path's "
               f"log-probability", rel, n.lineno, sample=dict(op=what, needs_rank=need, smallest_value_rank=k + 1))
    col.floor("log_prob_rank_sites", n_sites, 2)
    # the sequence (event) dimension is dynamically sized (paths may end early): the shape validation must not pin it
    vs = [m for fl in dist.methods.values() for m in fl if m.name == "_validate_sample"]
    if not vs:
        raise AnalysisError("C07: the distribution no longer overrides _validate_sample")
    rdv = ReachingDefs(vs[0].node)
    bc = [c for c in own_calls(vs[0].node) if call_name(c).endswith("broadcast_shapes")]
    pinned = []
    for c in bc:
        for a in c.args:
            der = rdv.derives(a)
            txt = " ".join(u(x) for x in der.nodes())
            if "self.event_shape" in txt:
                pinned.append(u(a))
    col.ob("G19", "S4", f"{rel}::SequentialLanguageModelDistribution._validate_sample::sequence-dimension-left-to-the-support-check",
           bool(bc) and not pinned,
           f"the shape validation broadcasts against {pinned} which include the event shape (max_iters,): a sample that ends "
           f"early (1 < length < max_iters) is in the support but is rejected, so log_prob of the wrapper's own samples raises "
           f"whenever argument validation is on", rel, vs[0].line, sample=[u(c)[:80] for c in bc])


def _cache_key_with_value(ctx: Ctx, dist, lp, rel: str):
    """log_prob serves `self.<V>` when `self.<K> == value`. K and V are therefore one record: in every method, between a
    store to K and the following store to V no call may intervene (a call can raise and leave the new key paired with the
    old value, which the next call then serves), and K is never stored without V."""
    col = ctx.col
    vname = lp.params[1].name
    K = V = None
    for n in own_nodes(lp.node):
        if isinstance(n, ast.If):
            keys = [c.left.attr for c in ast.walk(n.test) if isinstance(c, ast.Compare) and isinstance(c.left, ast.Attribute)
                    and u(c.left.value) == "self" and isinstance(c.ops[0], ast.Eq) and u(c.comparators[0]) == vname]
            rets = [st.value.attr for st in n.body if isinstance(st, ast.Return) and isinstance(st.value, ast.Attribute)
                    and u(st.value.value) == "self"]
            if keys and rets:
                K, V = keys[0], rets[0]
    if not K:
        raise AnalysisError("C07: the cache-hit test of log_prob was not found")
    nst = 0
    for fl in dist.methods.values():
        for m in fl:
            body = [n for n in own_nodes(m.node) if isinstance(n, ast.stmt)]
            stores = {}
            for n in body:
                if isinstance(n, ast.Assign):
                    for t in n.targets:
                        if isinstance(t, ast.Attribute) and u(t.value) == "self" and t.attr in (K, V):
                            stores.setdefault(t.attr, []).append(n)
            for ks in stores.get(K, []):
                nst += 1
                same = ks in stores.get(V, [])
                later = sorted((v for v in stores.get(V, []) if v.lineno > ks.lineno), key=lambda v: v.lineno)
                ok, why = True, ""
                if not same:
                    if not later:
                        ok, why = False, f"`self.{K}` is stored without `self.{V}`"
                    else:
                        between = [n for n in body if ks.lineno < n.lineno < later[0].lineno and not isinstance(n, (ast.If,))]
                        calls = [c for n in between for c in ast.walk(n) if isinstance(c, ast.Call)]
                        tests = [c for n in body if isinstance(n, ast.If) and ks.lineno < n.lineno < later[0].lineno
                                 for c in ast.walk(n.test) if isinstance(c, ast.Call) and call_name(c) != "len"]
                        if calls or tests:
                            ok, why = False, (f"{len(calls) + len(tests)} call(s), e.g. `{u((calls + tests)[0])[:60]}`, run between the store "
                                              f"of `self.{K}` (line {ks.lineno}) and of `self.{V}` (line {later[0].lineno})")
                col.ob("G10", "S4", f"{rel}::{m.qualname}::cache-key-stored-with-its-value", ok,
                       f"{why}: if one of them raises, the new samples stay paired with the previous log-probabilities and the "
                       f"next log_prob of the same value returns those", rel, ks.lineno, sample=dict(key=K, value=V))
    col.floor("cache_key_stores", nst, 3)


def _log_prob_input_contract(ctx: Ctx, dist, lp, rel: str):
    """S4 (continued): what the support accepts, log_prob must score. (a) TokenSequenceConstraint ignores everything after
    the first eos (enumerate_support normalises with fill_after_eos), so the history handed to the model must be
    normalised the same way - an out-of-vocabulary id after the eos is 'in the support' but breaks an embedding lookup.
    (b) Validation only requires the value's batch shape to *broadcast* with batch_shape (enumerate_support(expand=False)
    returns such values), so log_prob must broadcast before it counts samples; and a `torch.empty(...)` result may only be
    returned under a test that the value has no elements - a zero *quotient* does not mean that."""
    from sa.defuse import ReachingDefs
    col = ctx.col
    rd = ReachingDefs(lp.node)
    pm = parent_map(lp.node)
    lmc = [c for c in own_calls(lp.node) if u(c.func) == "self.random_walk.lm" and c.args]
    norm_ok = bool(lmc) and all(any(call_name(x).endswith("fill_after_eos") for x in rd.derives(c.args[0]).calls()) for c in lmc)
    col.ob("G13", "S4", f"{rel}::SequentialLanguageModelDistribution.log_prob::history-normalised-after-eos", norm_ok,
           "the token history handed to the language model is not passed through fill_after_eos (as enumerate_support does): a "
           "value whose entries after its first eos are out of the vocabulary is in the support, yet log_prob raises IndexError "
           "from the model's embedding instead of returning the probability of the sequence up to its eos", rel,
           lmc[0].lineno if lmc else lp.line)
    empties = []
    for n in own_nodes(lp.node):
        if isinstance(n, ast.Return) and isinstance(n.value, ast.Call) and call_name(n.value) in ("torch.empty", "torch.empty_like"):
            gs = guards_of(pm, n)
            def _is_numel(e):
                return isinstance(e, ast.Call) and isinstance(e.func, ast.Attribute) and e.func.attr == "numel" and not e.args

            def _empty_test(t, pol):
                # `x.numel() == 0` / `not x.numel()` (taken branch) - a direct statement that there are no elements
                if isinstance(t, ast.Compare) and len(t.ops) == 1 and isinstance(t.ops[0], ast.Eq) and pol:
                    a, b = t.left, t.comparators[0]
                    return (_is_numel(a) and isinstance(b, ast.Constant) and b.value == 0) or (_is_numel(b) and isinstance(a, ast.Constant) and a.value == 0)
                if isinstance(t, ast.UnaryOp) and isinstance(t.op, ast.Not) and pol:
                    return _is_numel(t.operand)
                return False
            by_numel = any(_empty_test(t, pol) for t, pol in gs)
            empties.append((n, by_numel, " and ".join(u(t) for t, _ in gs)))
    bad = [e for e in empties if not e[1]]
    col.ob("G22", "S4", f"{rel}::SequentialLanguageModelDistribution.log_prob::no-uninitialised-result", not bad,
           f"`{u(bad[0][0])[:70] if bad else ''}` returns uninitialised memory under `{bad[0][2] if bad else ''}`, which is a statement "
           f"about an integer quotient, not about the value being empty: a single sequence scored against a distribution with "
           f"batch_size 3 passes validation (it broadcasts) and gets garbage such as -9.7e16", rel, bad[0][0].lineno if bad else lp.line,
           sample=[e[2] for e in empties])
    vname = lp.params[1].name
    bc = any(call_name(c) in ("torch.broadcast_shapes", "broadcast_shapes", "torch.broadcast_to") or
             (isinstance(c.func, ast.Attribute) and c.func.attr in ("expand", "broadcast_to") and vname in {x.id for x in ast.walk(c.func.value) if isinstance(x, ast.Name)})
             for c in own_calls(lp.node))
    # ... and the shape the result is given back in is read off the value AFTER it was broadcast: read before, it is the caller's
    # un-broadcast batch shape, and the per-element scores (one per sample and batch element) do not fit it
    exp_defs = [d_ for d_ in rd.defs if d_.name == vname and d_.value is not None and any(
        isinstance(c_, ast.Call) and (isinstance(c_.func, ast.Attribute) and c_.func.attr in ("expand", "broadcast_to") or call_name(c_) in ("torch.broadcast_to",))
        for c_ in ast.walk(d_.value))]
    stale_shapes = []
    n_shapes = 0
    for d_ in rd.defs:
        if d_.kind == "assign" and d_.value is not None and d_.name != vname:
            for x in ast.walk(d_.value):
                if isinstance(x, ast.Attribute) and x.attr == "shape" and isinstance(x.value, ast.Name) and x.value.id == vname:
                    uses_later = any(isinstance(y, ast.Name) and y.id == d_.name and isinstance(y.ctx, ast.Load) and any(dd is d_ for dd in rd.defs_of(y))
                                     and any(isinstance(pp, ast.Call) and (call_name(pp) in ("torch.zeros", "torch.empty", "torch.full") or (
                                         isinstance(pp.func, ast.Attribute) and pp.func.attr in ("view", "reshape", "expand")))
                                         for pp in [pm.get(y)]) for y in own_nodes(lp.node))
                    if not uses_later:
                        continue
                    n_shapes += 1
                    if exp_defs and not any(e_ in list(rd.defs_of(x.value)) for e_ in exp_defs):
                        stale_shapes.append(d_)
    col.ob("G10", "S4", f"{rel}::SequentialLanguageModelDistribution.log_prob::result-shape-read-after-the-broadcast", not stale_shapes,
           (f"`{u(stale_shapes[0].stmt)[:70]}` reads the value's shape before the value is broadcast against batch_shape and the result is reshaped "
            f"with it: for a value that only broadcasts (enumerate_support(expand=False), a single sequence) the scores - one per sample and "
            f"batch element - do not fit the stale shape and log_prob raises") if stale_shapes else "", rel,
           stale_shapes[0].line if stale_shapes else lp.line, sample=dict(shapes=n_shapes))
    col.ob("G19", "S4", f"{rel}::SequentialLanguageModelDistribution.log_prob::value-broadcast-against-batch-shape", bc,
           "log_prob reshapes the value as if it already carried the full batch dimension; validation (and "
           "enumerate_support(expand=False)) only promise that it broadcasts with batch_shape: the support then sums to 0.92 "
           "instead of one, or the reshape raises", rel, lp.line)


def _greedy_table(ctx: Ctx, g, rel: str) -> bool:
    """S3 as a table: ctc_greedy_search interpreted over exact values (sa/interp.py + sa/teval.py; nothing is run; log_softmax is the
    identity on the given scores) for three sequences of five frames over two labels and a blank - repeats with and without a blank
    between them, a leading blank, frames beyond the valid length - with and without `in_lens`, both layouts, probabilities (product)
    and log-probabilities (sum), the blank addressed by a positive and a negative index. Documented: the score is the product / sum of
    the per-frame maxima over the valid frames; the labels are the per-frame best labels with repeats merged and blanks dropped."""
    import numpy as np
    from fractions import Fraction as Fr
    from sa.interp import Interp
    from sa.inteval import NotEvaluable
    from sa.teval import frac_array
    col = ctx.col
    where = f"{rel}::{g.qualname}"
    V, BL = 3, 2
    best = [[0, 0, 2, 0, 1], [2, 1, 1, 2, 2], [1, 0, 0, 1, 2]]  # (N=3, T=5) best label per frame
    lens = [5, 4, 3]
    sc = np.empty((3, 5, V), dtype=object)
    for n_ in range(3):
        for t_ in range(5):
            for v_ in range(V):
                sc[n_, t_, v_] = Fr(2 + n_ + 2 * t_ + (7 if v_ == best[n_][t_] else v_), 29)
    bad, n_rows = None, 0
    try:
        for bf in (True, False):
            for probs in (True, False):
                for use_lens in (True, False):
                    for blank in (BL, BL - V):
                        def leaf(x, env):
                            if isinstance(x, ast.Call) and isinstance(x.func, ast.Attribute) and x.func.attr == "log_softmax":
                                return _surrogate_log_softmax(holder["it"], x, env)  # (exact and axis-sensitive: scores minus their sum along the axis)
                            return None
                        holder = {}
                        it = Interp(leaf=leaf, tensors=True)
                        holder["it"] = it
                        env = {a.arg: None for a in g.node.args.args}
                        names = [a.arg for a in g.node.args.args]
                        env[names[0]] = frac_array((sc if bf else np.swapaxes(sc, 0, 1)).tolist())
                        env.update(in_lens=frac_array(lens) if use_lens else None, blank_idx=blank, batch_first=bf, is_probs=probs)
                        kind, got = it.run(g.node, env)
                        n_rows += 1
                        want_scores, want_paths = [], []
                        for n_ in range(3):
                            L_ = lens[n_] if use_lens else 5
                            mx = [sc[n_, t_, best[n_][t_]] - (Fr(0) if probs else sum(sc[n_, t_, :].tolist(), Fr(0))) for t_ in range(L_)]
                            tot = Fr(1) if probs else Fr(0)
                            for z in mx:
                                tot = tot * z if probs else tot + z
                            want_scores.append(tot)
                            path, prev = [], None
                            for t_ in range(L_):
                                b_ = best[n_][t_]
                                if b_ != prev and b_ != BL:
                                    path.append(b_)
                                prev = b_
                            want_paths.append(path)
                        ok = kind == "return" and isinstance(got, tuple) and len(got) == 3
                        if ok:
                            gs, gp, gl = got
                            gp = np.asarray(gp)
                            gp = gp if bf else gp.T
                            ok = [x for x in np.asarray(gs).tolist()] == want_scores and [int(x) for x in np.asarray(gl).tolist()] == [len(p_) for p_ in want_paths] \
                                and all([int(x) for x in gp[n_, :len(want_paths[n_])].tolist()] == want_paths[n_] for n_ in range(3))
                        if not ok and bad is None:
                            bad = (bf, probs, use_lens, blank, got if kind == "return" else f"raise {got}", (want_scores, want_paths))
    except NotEvaluable as e:
        col.undecided(f"{where}: the greedy search is outside the interpreted fragment ({e})")
        return False
    col.floor("greedy_table_rows", n_rows, 16)

    def _show(v):
        if isinstance(v, tuple) and len(v) == 3 and hasattr(v[1], "tolist"):
            return str(([str(x) for x in np.asarray(v[0]).tolist()], [[int(y) for y in r_] for r_ in np.asarray(v[1]).tolist()], [int(x) for x in np.asarray(v[2]).tolist()]))[:150]
        return str(v)[:150]
    col.ob("G12", "S3", f"{where}::greedy-table", bad is None,
           (f"with batch_first={bad[0]}, is_probs={bad[1]}, in_lens {'given' if bad[2] else 'omitted'}, blank_idx={bad[3]} the search returns {_show(bad[4])} for the "
            f"reference scores (best labels per frame {best}, valid lengths {lens}); documented: scores {[str(x) for x in bad[5][0]]} (product / sum of the "
            f"per-frame maxima over the valid frames) and label sequences {bad[5][1]} (repeats merged, blanks dropped)") if bad else "", rel, g.line,
           sample=dict(rows=n_rows))
    return True


def _surrogate_log_softmax(it_, x, env):
    """log_softmax as a table leaf: exact and axis-sensitive - the scores minus their sum along the normalised axis."""
    import numpy as np
    from sa.inteval import NotEvaluable
    nm = call_name(x)
    fn_form = nm.startswith("torch")
    a_ = np.asarray(it_.eval(x.args[0] if fn_form else x.func.value, env), dtype=object)
    rest = list(x.args[1:] if fn_form else x.args)
    d_ = rest[0] if rest else kwarg(x, "dim")
    if d_ is None or a_.ndim == 0:
        raise NotEvaluable("log_softmax without an axis")
    d_ = int(it_.eval(d_, env))
    if not -a_.ndim <= d_ < a_.ndim:
        raise NotEvaluable("log_softmax axis")
    return a_ - a_.sum(axis=d_, keepdims=True) if a_.size else a_


def _seqlp_table(ctx: Ctx, kt, rel: str) -> bool:
    """S2 as a table: the padded kernel of sequence_log_probs interpreted over exact values (sa/interp.py + sa/teval.py; nothing is
    run; log_softmax is an exact, axis-sensitive surrogate: the scores minus their sum along the normalised axis, _lens_from_eos the index of the first eos) for token sequences
    with the eos in the middle, absent, and after an out-of-vocabulary token, with a junk token after the eos; layouts (T, N),
    (N, T) and (2, T, 2) addressed by positive and negative `dim`; eos given or not. Documented value per sequence: the sum of the
    scores of its tokens up to and including the first eos, an out-of-vocabulary token contributing 0."""
    import numpy as np
    from fractions import Fraction as Fr
    from sa.interp import Interp
    from sa.inteval import NotEvaluable
    from sa.teval import frac_array
    col = ctx.col
    where = f"{rel}::{kt.qualname}"
    C, EOS = 3, 2
    seqs = [[1, 2, 0, 7], [0, -1, 0, 1], [3, 1, 2, 0], [2, 2, 1, 0]]  # (3 = the number of classes: the first token beyond the vocabulary)

    def first_eos(a, eos, dim):
        a = np.moveaxis(a, dim, -1)
        out = np.empty(a.shape[:-1], dtype=object)
        for idx in np.ndindex(a.shape[:-1]):
            row = [int(x) for x in a[idx]]
            out[idx] = Fr(row.index(eos) if eos in row else len(row))
        return out
    bad, n_rows = None, 0
    try:
        for layout in ("TN", "NT", "ATB"):
            for eos in (EOS, None):
                tn = np.array(seqs, dtype=object).T  # (T=4, N=4)
                if layout == "TN":
                    hyp, dims = tn, (0, -2)
                elif layout == "NT":
                    hyp, dims = tn.T, (1, -1)
                else:
                    hyp, dims = np.moveaxis(tn.reshape(4, 2, 2), 0, 1), (1, -2)  # (2, T, 2)
                hyp = frac_array(hyp.tolist())
                lg = np.empty(hyp.shape + (C,), dtype=object)
                for idx in np.ndindex(lg.shape):
                    lg[idx] = Fr(1 + sum((k + 2) * (7 ** i) * v for i, (k, v) in enumerate(zip(range(9), idx))), 11)
                for dim in dims:
                    holder = {}

                    def leaf(x, env):
                        if isinstance(x, ast.Call):
                            nm = call_name(x)
                            if nm.endswith("log_softmax"):
                                return _surrogate_log_softmax(holder["it"], x, env)
                            if nm == "_lens_from_eos":
                                b_ = dict(zip(("tok", "eos", "dim"), x.args))
                                b_.update({k.arg: k.value for k in x.keywords})
                                it_ = holder["it"]
                                return first_eos(it_.eval(b_["tok"], env), it_.eval(b_["eos"], env), int(it_.eval(b_["dim"], env)))
                        return None
                    it = Interp(leaf=leaf, tensors=True)
                    holder["it"] = it
                    names = [a.arg for a in kt.node.args.args]
                    env = dict(zip(names, (lg, hyp, dim, eos)))
                    kind, got = it.run(kt.node, env)
                    n_rows += 1
                    d = dim % hyp.ndim
                    hm = np.moveaxis(hyp, d, -1)
                    lm_ = np.moveaxis(lg - lg.sum(axis=-1, keepdims=True), d, -2)
                    want = np.empty(hm.shape[:-1], dtype=object)
                    for idx in np.ndindex(hm.shape[:-1]):
                        row = [int(x) for x in hm[idx]]
                        stop = row.index(eos) + 1 if (eos is not None and eos in row) else len(row)
                        want[idx] = sum((lm_[idx + (t_, row[t_])] for t_ in range(stop) if 0 <= row[t_] < C), Fr(0))
                    same = kind == "return" and hasattr(got, "shape") and got.shape == want.shape and np.array_equal(np.asarray(got, dtype=object), want)
                    if not same and bad is None:
                        bad = (layout, dim, eos, got if kind == "return" else f"raise {got}", want)
    except NotEvaluable as e:
        col.undecided(f"{where}: the padded kernel is outside the interpreted fragment ({e})")
        return False
    col.floor("sequence_log_probs_table_rows", n_rows, 12)

    def _show(v):
        return str([str(x) for x in np.asarray(v).reshape(-1).tolist()] if hasattr(v, "shape") else v)[:100]
    col.ob("G12", "S2", f"{where}::score-table", bad is None,
           (f"with tokens laid out {dict(TN='(steps, batch)', NT='(batch, steps)', ATB='(2, steps, 2)')[bad[0]]}, dim={bad[1]}, eos={bad[2]} the kernel computes "
            f"{_show(bad[3])}; documented (sum of the scores of each sequence's tokens up to and including its first eos, out-of-vocabulary tokens "
            f"contributing 0): {_show(bad[4])}") if bad else "", rel, kt.line, sample=dict(rows=n_rows))
    return True


def _seqlp_packed_table(ctx: Ctx, kp, rel: str) -> bool:
    """S2 as a table, packed form: the packed kernel of sequence_log_probs interpreted over exact values (sa/interp.py + sa/teval.py;
    nothing is run; log_softmax is the same exact, axis-sensitive surrogate as in the padded table, pack_padded_sequence / pad_packed_sequence are computed
    exactly from their documented layout: time-major rows of the sequences still running, sequences in order of non-increasing length) for
    the packed scores of three sequences of lengths 2, 4, 3 (sorted by the packing, with and without the sort / unsort indices) and of
    already sorted ones; tokens laid out (steps, batch) with dim = 0 / -2 and (batch, steps) with dim = 1 / -1, including a negative token,
    the token equal to the number of classes and junk behind the lengths. Documented value per sequence: the sum of the scores of its
    tokens over its own length, an out-of-vocabulary token contributing 0 - the same numbers the padded kernel gives."""
    import numpy as np
    from fractions import Fraction as Fr
    from sa.interp import Interp
    from sa.inteval import NotEvaluable
    from sa.teval import frac_array
    col = ctx.col
    where = f"{rel}::{kp.qualname}"
    C = 3
    toks = [[1, 2, 0, 7], [0, -1, 3, 1], [2, 1, 2, 0]]  # (N = 3 sequences, T = 4 steps)
    bad, n_rows = None, 0
    names = [a.arg for a in kp.node.args.args]
    if len(names) != 3:
        return False
    try:
        for lens, use_idx in (((2, 4, 3), True), ((4, 3, 2), False), ((4, 4, 1), True)):
            N, T = len(lens), max(lens)
            order = sorted(range(N), key=lambda n_: -lens[n_]) if use_idx else list(range(N))
            inv = [order.index(n_) for n_ in range(N)]
            lg = np.empty((T, N, C), dtype=object)
            for idx in np.ndindex(lg.shape):
                lg[idx] = Fr(1 + sum((k + 2) * (7 ** i) * v for i, (k, v) in enumerate(zip(range(9), idx))), 13)
            bsz = [sum(1 for n_ in range(N) if lens[n_] > t_) for t_ in range(T)]
            data = np.array([[lg[t_, order[j_], c_] for c_ in range(C)] for t_ in range(T) for j_ in range(bsz[t_])], dtype=object)
            packed = (data, frac_array(bsz), frac_array(order) if use_idx else None, frac_array(inv) if use_idx else None)
            for dims, batch_first in (((0, -2), False), ((1, -1), True)):
                hyp = frac_array(toks if batch_first else np.array(toks, dtype=object).T.tolist())
                for dim in dims:
                    holder = {}

                    def leaf(x, env):
                        it_ = holder["it"]
                        if isinstance(x, ast.Call):
                            nm = call_name(x)
                            if nm.endswith("log_softmax"):
                                return _surrogate_log_softmax(it_, x, env)
                            if nm.endswith("pack_padded_sequence") and len(x.args) >= 2:
                                a_ = np.asarray(it_.eval(x.args[0], env), dtype=object)
                                l_ = [int(v_) for v_ in np.asarray(it_.eval(x.args[1], env)).reshape(-1)]
                                bf = kwarg(x, "batch_first")
                                bf = bool(it_.eval(bf, env)) if bf is not None else False
                                if bf:
                                    a_ = np.moveaxis(a_, 0, 1)
                                if any(l_[i_] < l_[i_ + 1] for i_ in range(len(l_) - 1)):
                                    raise NotEvaluable("pack_padded_sequence of unsorted lengths (enforce_sorted)")
                                if len(l_) != a_.shape[1] or (l_ and max(l_) > a_.shape[0]):
                                    raise NotEvaluable("pack_padded_sequence: lengths do not fit the tensor")
                                rows_ = [a_[t_, j_] for t_ in range(max(l_) if l_ else 0) for j_ in range(len(l_)) if l_[j_] > t_]
                                b_ = [sum(1 for v_ in l_ if v_ > t_) for t_ in range(max(l_) if l_ else 0)]
                                return (np.array(rows_, dtype=object), frac_array(b_), None, None)
                            if nm.endswith("SpoofPackedSequence") or nm.endswith("PackedSequence"):
                                return tuple(it_.eval(a__, env) for a__ in x.args)
                            if nm.endswith("pad_packed_sequence") and x.args:
                                ps_ = it_.eval(x.args[0], env)
                                bf = kwarg(x, "batch_first")
                                bf = bool(it_.eval(bf, env)) if bf is not None else False
                                d_ = np.asarray(ps_[0], dtype=object)
                                b_ = [int(v_) for v_ in np.asarray(ps_[1]).reshape(-1)]
                                if sum(b_) != d_.shape[0]:
                                    raise NotEvaluable("pad_packed_sequence: batch sizes do not fit the data")
                                out_ = np.empty((len(b_), b_[0] if b_ else 0) + d_.shape[1:], dtype=object)
                                out_[...] = Fr(0)
                                k_ = 0
                                for t_, n__ in enumerate(b_):
                                    for j_ in range(n__):
                                        out_[t_, j_] = d_[k_]
                                        k_ += 1
                                l2_ = [sum(1 for v_ in b_ if v_ > j_) for j_ in range(b_[0] if b_ else 0)]
                                return (np.moveaxis(out_, 0, 1) if bf else out_, frac_array(l2_))
                        return None
                    it = Interp(leaf=leaf, tensors=True)
                    holder["it"] = it
                    kind, got = it.run(kp.node, dict(zip(names, (packed, hyp, dim))))
                    n_rows += 1
                    want = np.empty((N,), dtype=object)
                    lgn = lg - lg.sum(axis=-1, keepdims=True)
                    for n_ in range(N):
                        want[n_] = sum((lgn[t_, n_, toks[n_][t_]] for t_ in range(lens[n_]) if 0 <= toks[n_][t_] < C), Fr(0))
                    same = kind == "return" and hasattr(got, "shape") and got.shape == want.shape and np.array_equal(np.asarray(got, dtype=object), want)
                    if not same and bad is None:
                        bad = (lens, use_idx, batch_first, dim, got if kind == "return" else f"raise {got}", want)
    except NotEvaluable:
        return False

    def _show(v):
        return str([str(x) for x in np.asarray(v).reshape(-1).tolist()] if hasattr(v, "shape") else v)[:100]
    col.count("sequence_log_probs_packed_table_rows", n_rows)
    col.ob("G12", "S2", f"{where}::score-table", bad is None,
           (f"packed scores of sequences of lengths {bad[0]} ({'with' if bad[1] else 'without'} sort indices), tokens laid out "
            f"{'(batch, steps)' if bad[2] else '(steps, batch)'}, dim={bad[3]}: the packed kernel computes {_show(bad[4])}; documented (sum of the "
            f"scores of each sequence's tokens over its own length, out-of-vocabulary tokens contributing 0): {_show(bad[5])}") if bad else "",
           rel, kp.line, sample=dict(rows=n_rows))
    return True


def _advance_table(ctx: Ctx, rel: str) -> bool:
    """S1 by value, the step itself: `random_walk_advance` interpreted over exact values (sa/interp.py + sa/teval.py; the draw is a leaf
    that hands out scripted tokens) for 3 paths over 4 token types with histories of 0, 2 and 3 rows and lengths omitted, full, ragged WITH
    a full path (the buffer has to grow) and ragged without one: afterwards path n holds its old tokens below its old length and the drawn
    token AT its old length (`y_next[y_prev_lens[n], n]`), the buffer has grown by one row exactly when some path was full, and the new
    score is the old one plus the score of the drawn token."""
    import numpy as np
    from fractions import Fraction as Fr
    from sa.interp import Interp
    from sa.inteval import NotEvaluable
    from sa.teval import frac_array
    col, pkg = ctx.col, ctx.pkg
    f = pkg.func(f"{MOD}::random_walk_advance")
    where = f"{rel}::{f.qualname}"
    names = [a.arg for a in f.node.args.args]
    if len(names) != 4:
        return False
    N, V = 3, 4
    draw = [1, 3, 2]
    lp_t = frac_array([[Fr(-(3 + 5 * n_ + 2 * v_), 7) for v_ in range(V)] for n_ in range(N)])
    lp_prev = frac_array([Fr(-n_ - 1, 3) for n_ in range(N)])
    bad, rows = None, 0
    try:
        for S, lens_opts in ((0, (None,)), (2, (None, [2, 2, 2], [2, 0, 1], [1, 0, 1])), (3, (None, [3, 1, 0], [2, 0, 1], [3, 3, 3]))):
            y_prev = np.array([[10 * t_ + n_ + 1 for n_ in range(N)] for t_ in range(S)], dtype=object).reshape(S, N)
            for lens in lens_opts:
                def leaf(x, env):
                    if isinstance(x, ast.Call) and call_name(x).endswith("multinomial"):
                        return frac_array([[d_] for d_ in draw])
                    return None
                env = dict(zip(names, (lp_t, lp_prev, frac_array(y_prev.tolist()) if S else np.empty((0, N), dtype=object), frac_array(lens) if lens is not None else None)))
                kind, got = Interp(leaf=leaf, tensors=True).run(f.node, env)
                rows += 1
                eff = lens if lens is not None else [S] * N
                want_rows = S + 1 if max(eff) >= S else S
                problem = None
                if kind != "return" or not isinstance(got, tuple) or len(got) != 2:
                    problem = f"{kind}: {str(got)[:80]}"
                else:
                    y, lp = np.asarray(got[0], dtype=object), np.asarray(got[1], dtype=object)
                    if y.shape != (want_rows, N):
                        problem = f"the paths come back with shape {y.shape}; with lengths {eff} in a buffer of {S} rows it is {(want_rows, N)}"
                    else:
                        for n_ in range(N):
                            if int(y[eff[n_], n_]) != draw[n_] or [int(v_) for v_ in y[:eff[n_], n_]] != [int(v_) for v_ in y_prev[:eff[n_], n_]]:
                                problem = problem or (f"path {n_} (old length {eff[n_]}) comes back as {[int(v_) for v_ in y[:eff[n_] + 1, n_]]}; it is its old tokens "
                                                      f"{[int(v_) for v_ in y_prev[:eff[n_], n_]]} followed by the drawn token {draw[n_]}")
                            if lp.shape != (N,) or lp[n_] != lp_prev[n_] + lp_t[n_, draw[n_]]:
                                problem = problem or f"the score of path {n_} is {lp[n_] if lp.shape == (N,) else lp.shape}, not the old score plus the drawn token's"
                if problem and bad is None:
                    bad = (S, lens, problem)
    except NotEvaluable:
        return False
    col.count("advance_table_rows", rows)
    col.ob("G12", "S1", f"{where}::advance-table", bad is None,
           (f"history of {bad[0]} row(s), lengths {bad[1] if bad[1] is not None else 'omitted'}, drawn tokens {draw}: {bad[2]}") if bad else "", rel, f.line,
           sample=dict(rows=rows))
    return True


def _support_table(ctx: Ctx, rel: str):
    """S4 (continued), as a table: TokenSequenceConstraint.check interpreted over exact values (sa/interp.py + sa/teval.py; nothing is
    run; fill_after_eos is given by its documented meaning) for five sequences of length three - with and without an eos, with an
    out-of-vocabulary id before and after the eos - under eos given / not given and step limits below, at and above the length and
    unbounded. A sequence (the LAST axis of the value; the leading axes are samples and batch) is in the support iff its tokens up to
    the first eos are in the vocabulary and it is complete: exactly `max_iters` long, or ended by an eos within `max_iters` steps.
    More sequences are checked than the step limit, so a limit compared with the wrong axis shows."""
    import numpy as np
    from sa.interp import Interp
    from sa.inteval import NotEvaluable
    from sa.teval import frac_array
    col, pkg = ctx.col, ctx.pkg
    f = pkg.func("_decoding::TokenSequenceConstraint.check")
    where = f"{rel}::{f.qualname}"
    V, EOS = 5, 4
    rows = [[1, 4, 9], [1, 2, 3], [7, 4, 0], [4, 4, 4], [0, 4, 0]]
    vname = [p.name for p in f.params if p.name != "self"][0]
    bad, n = None, 0

    def fill(arr, eos, dim):
        a = np.moveaxis(arr, dim, -1).copy()
        for idx in np.ndindex(a.shape[:-1]):
            seen = False
            for k in range(a.shape[-1]):
                if seen:
                    a[idx + (k,)] = eos
                elif a[idx + (k,)] == eos:
                    seen = True
        return np.moveaxis(a, -1, dim)
    try:
        for eos in (EOS, None):
            for mi in (2, 3, 4, float("inf")):
                holder = {}

                def leaf(x, env):
                    if isinstance(x, ast.Call) and call_name(x).endswith("fill_after_eos"):
                        it_ = holder["it"]
                        args = [it_.eval(a_, env) for a_ in x.args]
                        kws = {k.arg: it_.eval(k.value, env) for k in x.keywords}
                        names = ["tokens", "eos", "dim", "fill", "value"]
                        b = dict(zip(names, args))
                        b.update(kws)
                        if b.get("fill") is not None or b.get("value") is not None:
                            raise NotEvaluable("fill_after_eos with fill / value")
                        return fill(b["tokens"], b["eos"], int(b.get("dim", 0)))
                    return None
                it = Interp(leaf=leaf, tensors=True)
                holder["it"] = it
                env = {vname: frac_array(rows), "self.eos": eos, "self.max_iters": mi, "self.vocab_size": V}
                kind, got = it.run(f.node, env)
                n += 1
                want = []
                for r_ in rows:
                    S = len(r_)
                    upto = r_ if eos is None or eos not in r_ else r_[: r_.index(eos) + 1]
                    inv = all(0 <= t_ < V for t_ in upto)
                    comp = S == mi or (eos is not None and eos in r_ and S <= mi)
                    want.append(bool(inv and comp))
                ok = kind == "return" and hasattr(got, "shape") and got.shape == (len(rows),) and [bool(x) for x in got.tolist()] == want
                if kind == "return" and not hasattr(got, "shape") and isinstance(got, (bool, np.bool_)):
                    ok = all(w == bool(got) for w in want)  # (a scalar verdict broadcasts)
                if not ok and bad is None:
                    bad = (eos, mi, got if kind == "return" else f"raise {got}", want)
    except NotEvaluable as e:
        col.undecided(f"{where}: the support check is outside the interpreted fragment ({e})")
        return
    col.floor("support_table_rows", n, 8)
    col.ob("G12", "S4", f"{where}::support-table", bad is None,
           (f"with eos={bad[0]}, max_iters={bad[1]} the check answers {str(bad[2].tolist() if hasattr(bad[2], 'tolist') else bad[2])[:60]} for the five reference "
            f"sequences {rows}; by the definition (tokens up to the first eos in the vocabulary, and exactly max_iters long or ended by an eos within "
            f"max_iters steps along the LAST axis) it is {bad[3]}: paths the walk produces are reported outside the support (or foreign ones inside)") if bad else "",
           rel, f.line, sample=dict(rows=n))


def _walk_table(ctx: Ctx):
    """S1 by value: `RandomWalk.forward` with `random_walk_advance` is interpreted over exact values (sa/interp.py + sa/teval.py). The
    language model is a leaf with threaded state (next-token scores depend on the whole history through it), `log_softmax` is taken as
    the identity, and the sampler `torch.multinomial` is a leaf that follows a SCRIPT of tokens (a forbidden token - mass -inf - is
    replaced by the only one allowed). For scripts over 2-3 tokens, eos unset / first / last, step limits 0-4, unbatched and batches of
    2-3 walks that finish at different steps: every walk is the script up to and including its first eos (or the step limit), its
    length counts that eos, and its reported log-probability is the model's chained score of exactly those tokens - nothing is added
    after the walk has ended. False when outside the interpreted fragment."""
    import numpy as np
    from fractions import Fraction as Fr
    from sa.interp import Interp
    from sa.inteval import NotEvaluable
    from sa.teval import frac_array
    col, pkg = ctx.col, ctx.pkg
    fwd = pkg.func(f"{MOD}::RandomWalk.forward")
    adv = pkg.func(f"{MOD}::random_walk_advance")
    rel = fwd.module.relname
    methods = {st.name: st for st in fwd.cls.node.body if isinstance(st, ast.FunctionDef)}

    def lm_step(t, h, tok, V):
        h2 = (h * 3 + (tok + 1 if tok is not None else 0)) % 5
        return [Fr(-(2 + (h2 * 7 + v * 3 + t) % 11), 9) for v in range(V)], h2

    def walk(V, eos, T, script, batched):
        N = len(script)
        holder = {}

        def lookup(c):
            f = c.func
            if isinstance(f, ast.Name) and f.id == "random_walk_advance":
                return adv.node
            if isinstance(f, ast.Attribute) and isinstance(f.value, ast.Name) and f.value.id == "self" and f.attr in methods and f.attr not in ("forward", "__init__", "reset_parameters"):
                return methods[f.attr]
            return None

        def leaf(x, env):
            it = holder["it"]
            if isinstance(x, ast.Call):
                cn = call_name(x)
                if cn == "self.lm.update_input":
                    return {"h": np.arange(N) % 3, "t": 0}
                if cn == "self.lm.calc_idx_log_probs" and len(x.args) == 3:
                    hist, prev = np.asarray(it.eval(x.args[0], env)), it.eval(x.args[1], env)
                    t = int(np.asarray(it.eval(x.args[2], env)).reshape(-1)[0])
                    out, nh = np.empty((N, V), dtype=object), np.zeros((N,), dtype=int)
                    for n in range(N):
                        sc, h2 = lm_step(t, int(prev["h"][n]), int(hist[t - 1, n]) if t > 0 else None, V)
                        nh[n] = h2
                        out[n, :] = sc
                    return (out, {"h": nh})
                if isinstance(x.func, ast.Attribute) and x.func.attr == "log_softmax":
                    return it.eval(x.func.value, env)
                if cn == "torch.multinomial" and x.args:
                    src = x.args[0]
                    if isinstance(src, ast.Call) and isinstance(src.func, ast.Attribute) and src.func.attr == "exp":
                        lp = np.asarray(it.eval(src.func.value, env), dtype=object)
                    else:
                        raise NotEvaluable("the sampler's argument is not exp(log-probabilities)")
                    step = holder["step"]
                    holder["step"] = step + 1
                    draws = []
                    for n in range(N):
                        v = script[n][step] if step < len(script[n]) else 0
                        if lp[n, v] == -float("inf"):
                            ok_ = [j for j in range(V) if lp[n, j] != -float("inf")]
                            if len(ok_) != 1:
                                raise NotEvaluable("a finished walk has several or no allowed tokens")
                            v = ok_[0]
                        draws.append([v])
                    return frac_array(draws)
                if cn == "dict" and not x.args and not x.keywords:
                    return {}
            if isinstance(x, ast.Attribute) and u(x) == "self.device_buffer.device":
                return "<device>"
            return None
        it = Interp(leaf=leaf, lookup=lookup, tensors=True, max_steps=200000)
        holder["it"], holder["step"] = it, 0
        names = [p_.name for p_ in fwd.params[1:]]
        env = dict(zip(names, (None, N if batched else None, T)))
        env.update({"self.eos": eos, "self.lm.vocab_size": V})
        return it.run(fwd.node, env)
    bad, rows = None, 0
    try:
        for V in (2, 3):
            for eos in (None, 0, V - 1):
                for T in (0, 1, 2, 4):
                    scripts = [([[1 % V, 0, (V - 1), 1 % V]], False), ([[0, 1 % V, 1 % V, 0], [V - 1, V - 1, 0, 0], [1 % V, 1 % V, 1 % V, 1 % V]], True),
                               ([[V - 1, 0, 0, 0], [0, 0, 0, 0]], True)]
                    for script, batched in scripts:
                        kind, got = walk(V, eos, T, script, batched)
                        rows += 1
                        N = len(script)
                        cfg = dict(vocab=V, eos=eos, max_iters=T, script=script)
                        if kind != "return" or not isinstance(got, tuple) or len(got) != 3:
                            bad = bad or (cfg, f"{kind}: {str(got)[:80]}")
                            continue
                        y, lens, lp = (np.asarray(g_, dtype=object) for g_ in got)
                        if not batched:
                            if (y.ndim, lens.ndim, lp.ndim) != (1, 0, 0):
                                bad = bad or (cfg, f"an unbatched walk returns tensors with {y.ndim}, {lens.ndim}, {lp.ndim} axes")
                                continue
                            y, lens, lp = y[:, None], lens.reshape(1), lp.reshape(1)
                        for n in range(N):
                            want = []
                            for v in script[n][:T]:
                                want.append(v)
                                if eos is not None and v == eos:
                                    break
                            h, tot, tok = n % 3, Fr(0), None
                            for t_, v in enumerate(want):
                                sc, h = lm_step(t_, h, tok, V)
                                tot += sc[v]
                                tok = v
                            L = int(lens[n])
                            seq = [int(y[i, n]) for i in range(min(L, y.shape[0]))]
                            if (L, seq, lp[n]) != (len(want), want, tot) and bad is None:
                                bad = (cfg, f"walk {n} returns the tokens {seq} (length {L}) at log-probability {lp[n]}; following the script it is {want} (length {len(want)}) "
                                            f"with the model's chained score {tot}")
    except NotEvaluable:
        return False
    col.count("walk_table_rows", rows)
    col.ob("G12", "S1", f"{rel}::RandomWalk.forward::walk-table", bad is None, (f"{bad[0]}: {bad[1]}") if bad else "", rel, fwd.line, sample=dict(rows=rows))
    return True


def _mutants():
    from selftest.mutate import Mutant as M
    _extra = [
        M("packed-vocab-from-steps-axis", "_decoding.py", "num_classes = logits.shape[1]\n    logits = torch.nn.functional.log_softmax(logits, -1)", "num_classes = logits.shape[0]\n    logits = torch.nn.functional.log_softmax(logits, -1)", "oov-bound-is-the-class-axis-extent"),
        M("finished-walk-cleared-by-another-mask", "_decoding.py", "log_probs_t = log_probs_t.masked_fill(eos_mask.unsqueeze(1), -float('inf'))", "log_probs_t = log_probs_t.masked_fill((y_lens < 0).unsqueeze(1), -float('inf'))", "finished-path-cleared-under-its-own-mask"),
        M("value-not-broadcast", "_decoding.py", "value = value.expand(broadcast_shapes(value.shape[:-1], self.batch_shape) + value.shape[-1:])", "value = value", "value-broadcast-against-batch-shape"),
        M("history-fed-raw", "_decoding.py", "value = fill_after_eos(value, self.random_walk.eos, -1)", "value = value", "history-normalised-after-eos"),
        M("empty-result-by-quotient", "_decoding.py", "if value.numel() == 0:\n            return torch.zeros(shape, device=value.device)", "if value.numel() // max(batch_size * value.size(-1), 1) == 0:\n            return torch.empty(shape, device=value.device)", "no-uninitialised-result"),
        M("cache-keeps-the-caller's-tensor", "_decoding.py", "self._samples_cache = orig_value.clone()", "self._samples_cache = orig_value", "cache-stores-a-snapshot"),
        M("cache-key-before-scoring", "_decoding.py", "orig_value = value\n        if len(self.batch_shape):", "orig_value = value\n        if self.cache_samples:\n            self._samples_cache = value\n        if len(self.batch_shape):", "cache-key-stored-with-its-value"),
        M("packed-kernel-raw-negative-dim", "_decoding.py", "dim = (hyp_dim + dim) % hyp_dim\n    logits, batch_sizes, sidxs, uidxs = logits", "logits, batch_sizes, sidxs, uidxs = logits", "negative-dimension-normalised-before-arithmetic"),
        M("log-prob-needs-sample-dim", "_decoding.py", "value = value.reshape(-1, batch_size, value.size(-1)).transpose(1, 2)", "value = value.flatten(end_dim=-3).transpose(1, 2)", "accepts-unbatched-sample-shape[batch_shape-len=1]"),
        M("log-prob-transposes-a-vector", "_decoding.py", "value = value.reshape(-1, value.size(-1))\n            hist = value.T", "hist = value.T", "accepts-unbatched-sample-shape[batch_shape-len=0]"),
        M("validation-pins-sequence-length", "_decoding.py", "exp_shape = tuple(self.batch_shape)\n        act_shape = tuple(value.shape[:-1])", "exp_shape = tuple(self.batch_shape + self.event_shape)\n        act_shape = tuple(value.shape)", "sequence-dimension-left-to-the-support-check"),
        M("eos-located-after-zeroing", "_decoding.py", "hyp_lens = _lens_from_eos(hyp, eos, dim) + 1", "hyp = hyp.masked_fill(mask, 0)\n        hyp_lens = _lens_from_eos(hyp, eos, dim) + 1", "eos-and-oov-read-the-given-tokens"),
        M("eos-located-on-zeroed-copy", "_decoding.py", "hyp_lens = _lens_from_eos(hyp, eos, dim) + 1", "hyp_lens = _lens_from_eos(hyp.masked_fill(mask, 0), eos, dim) + 1", "G"),
        M("unbatched-default-state", "_decoding.py", "log_probs = self.random_walk.lm(hist[:-1].long(), self.initial_state.copy())\n            log_probs = log_probs.transpose(0, 1)", "log_probs = self.random_walk.lm(hist[:-1].long())\n            log_probs = log_probs.transpose(0, 1)", "lm(hist, initial_state.copy())"),
        M("batched-shared-state", "_decoding.py", "log_probs.append(self.random_walk.lm(hist[:-1].long(), self.initial_state.copy()))", "log_probs.append(self.random_walk.lm(hist[:-1].long(), self.initial_state))", "lm(hist, initial_state.copy())"),
    ]
    D = "_decoding.py"
    return _extra + [
        M("packed-fill-1", D, "logits = logits.masked_fill(mask, 0.0)\n    logits = torch.nn.utils.rnn.pad_packed_sequence", "logits = logits.masked_fill(mask, 1.0)\n    logits = torch.nn.utils.rnn.pad_packed_sequence", "score-table"),
        M("padded-oov-one-sided", D, "mask = hyp.lt(0) | hyp.ge(num_classes)\n    if eos is not None:", "mask = hyp.ge(num_classes)\n    if eos is not None:", "kernels-agree"),
        M("eos-excluded", D, "hyp_lens = _lens_from_eos(hyp, eos, dim) + 1", "hyp_lens = _lens_from_eos(hyp, eos, dim)", "score-table"),
        M("eos-mask-strict", D, "len_mask = len_mask >= hyp_lens", "len_mask = len_mask > hyp_lens", "score-table"),
        M("greedy-fill-swapped", D, "max_ = max_.masked_fill(~in_len_mask, 1.0)", "max_ = max_.masked_fill(~in_len_mask, 0.0)", "neutral-elements"),
        M("greedy-prod-sum-swapped", D, "if is_probs:\n        max_ = max_.prod(1)\n    else:\n        max_ = max_.sum(1)", "if is_probs:\n        max_ = max_.sum(1)\n    else:\n        max_ = max_.prod(1)", "neutral-elements"),
        M("module-drops-eos", D, "return sequence_log_probs(logits, hyp, self.dim, self.eos)", "return sequence_log_probs(logits, hyp, self.dim)", "G5/S1"),
        M("walk-slots-swapped", D, "y, log_probs = random_walk_advance(log_probs_t, log_probs, y, y_lens)", "log_probs, y = random_walk_advance(log_probs_t, log_probs, y, y_lens)", "G2"),
        M("walk-score-keeps-growing", D, "log_probs_next = log_probs_prev + log_probs_t.gather(1, y_t).squeeze(1)", "log_probs_next = log_probs_prev + log_probs_t.gather(1, y_t).squeeze(1) - 1", "walk-table"),
        M("walk-state-not-threaded", D, "log_probs_t, prev = self.lm.calc_idx_log_probs(y[:t], prev, t)\n            log_probs_t = log_probs_t.log_softmax(-1)\n\n            # update probabilities if the subclass",
          "log_probs_t, _ = self.lm.calc_idx_log_probs(y[:t], prev, t)\n            log_probs_t = log_probs_t.log_softmax(-1)\n\n            # update probabilities if the subclass", "walk-table"),
        M("walk-len-always", D, "y_lens += ~eos_mask", "y_lens += 1\n                eos_mask = eos_mask", "length-counts"),
        M("dist-other-eos", D, "sequence_log_probs = SequenceLogProbabilities(1, self.random_walk.eos)", "sequence_log_probs = SequenceLogProbabilities(1, None)", "scores-with-the-walk's-eos"),
        M("dist-pad-zero", D, "samples = torch.nn.utils.rnn.pad_sequence(samples, padding_value=self.random_walk.eos)", "samples = torch.nn.utils.rnn.pad_sequence(samples, padding_value=0)", "pads-with-eos"),
        M("greedy-module-blank-default", D, "return ctc_greedy_search(logits, in_lens, self.blank_idx, self.batch_first, self.is_probs)", "return ctc_greedy_search(logits, in_lens, self.blank_idx, self.batch_first)", "G5/S1"),
        M("twin:rename-keep", D, "keep_mask_", "km2", "", -1, twin=True),
    ]


def selftest(ctx: Ctx):
    from selftest.mutate import run_selftest
    return run_selftest("C07", ctx.pkg.repo, _mutants(), floor=10)


MANIFEST = dict(
    level_text=(
        "Static analysis (no execution): forwarding completeness and slot roles, sibling agreement of the padded and "
        "packed sequence-score kernels (same masking steps, same neutral element for the same reduction), the neutral-"
        "element table of greedy CTC decoding, single-source parameters of the distribution wrapper, def-use versions in "
        "the score kernels (first eos and out-of-vocabulary test read the tokens as given, only the gather index is the "
        "zeroed copy), agreement of the wrapper's model calls on a fresh copy of the initial state, and producer/consumer "
        "shape agreement of the wrapper (log_prob accepts the smallest rank sample() returns; validation leaves the "
        "dynamically sized sequence dimension to the support check). Necessary "
        "conditions of 'identically for padded and packed input', 'up to and including the first end-of-sequence' and of "
        "the three code paths agreeing; the numeric agreement itself is not decided. The packed kernel of sequence_log_probs (pack / pad computed exactly from their documented layout), random_walk_advance itself (ragged lengths with and without a full path) and the greedy search are value tables as well, with log_softmax an exact axis-sensitive surrogate (scores minus their sum along the axis); the state handed to the model's first update_input is the caller's (backward slice interpreted with and without a state)."),
    level_note="Trusted: python ast; documented exception that eos is ignored for packed input. F26 (log_prob of a sample without "
               "sample dimensions raised), F27 (validation rejected early-ending samples), F30 (packed kernel with a negative dim) and "
               "F31 (sample cache written before scoring) F55 (value not broadcast / uninitialised result), F56 (tokens after eos fed to the model) and F28 (cache stored aliases) were found and repaired.",
    technique="static analysis: sibling-implementation agreement (step fingerprints), neutral-element tables, argument/slot binding, single-source attribute use, def-use version rule; interpretation of the support check over exact values compared with the documented support; RandomWalk.forward interpreted with a scripted sampler leaf and a stateful model leaf (72 walks); packed-kernel and step-function value tables with exact pack/pad leaves and an axis-sensitive softmax surrogate; backward slice of the initial state interpreted over plain data",
    design_ref="DESIGN.md section 4 C07",
)
