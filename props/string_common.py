"""Shared structural checks on the batched string-matching kernel (C01, C02, C03)."""
from __future__ import annotations

import ast
from typing import Dict, List, Optional, Set, Tuple

from rules import fwd as R_fwd
from sa.astutil import call_name, guards_of, kwarg, parent_map, u
from sa.defuse import ReachingDefs
from sa.model import AnalysisError, own_calls, own_nodes
from sa.resolve import bind_args

MOD = "_string"
KERNEL = "_string_matching"
MODE_FLAGS = ("return_mask", "return_prf_dsts", "return_mistakes")
# which public name computes which quantity (API contract, from the docstrings)
MODE_TABLE = {
    "edit_distance": dict(return_mask=False, return_prf_dsts=False, return_mistakes=False),
    "prefix_edit_distances": dict(return_mask=False, return_prf_dsts=True, return_mistakes=False),
    "error_rate": dict(return_mask=False, return_prf_dsts=False, return_mistakes=True),
    "prefix_error_rates": dict(return_mask=False, return_prf_dsts=True, return_mistakes=True),
    "optimal_completion": dict(return_mask=True, return_prf_dsts=False, return_mistakes=False),
}


def mode_table(ctx, names: List[str], clause: str):
    """Each public function reaches the kernel with its own (mask, prefix, mistakes) mode."""
    col, pkg, res = ctx.col, ctx.pkg, ctx.res
    rel = pkg.module(MOD).relname
    kern = pkg.func(f"{MOD}::{KERNEL}")
    for name in names:
        f = pkg.func(f"{MOD}::{name}")
        calls = [c for c in own_calls(f.node) if call_name(c) == KERNEL]
        if len(calls) != 1:
            raise AnalysisError(f"{name} does not call {KERNEL} exactly once")
        b = bind_args(calls[0], kern, False)
        got = {}
        for flag in MODE_FLAGS:
            a = b.arg_for(flag)
            if a is None:
                p = kern.param(flag)
                a = p.default
            got[flag] = a.value if isinstance(a, ast.Constant) else u(a)
        col.ob("G13", clause, f"{rel}::{name}::kernel-mode", got == MODE_TABLE[name],
               f"{name} runs the kernel in mode {got}; its documented quantity needs {MODE_TABLE[name]}", rel,
               calls[0].lineno, sample=dict(function=name, mode=got))
        # the ten shared options reach the same-named formal
        for p, a, how in b.pairs:
            if p.name in MODE_FLAGS:
                continue
            if f.param(p.name) is not None or p.name in {q.name for q in f.params}:
                col.ob("G5", clause, f"{rel}::{name}::{KERNEL}({p.name}<-{u(a)})", u(a) == p.name,
                       f"`{p.name}` of the kernel receives `{u(a)}` in {name} (ins/del/sub costs and the boolean "
                       f"options are mutually transposable)", rel, calls[0].lineno,
                       sample=dict(function=name, formal=p.name, arg=u(a), how=how))
        own = {q.name for q in f.params}
        used = {x.id for x in own_nodes(f.node) if isinstance(x, ast.Name) and isinstance(x.ctx, ast.Load)}
        for p in b.defaulted:
            if p.name in own and p.name not in MODE_FLAGS and p.name not in used - {a_.id for _, a_, _ in b.pairs if isinstance(a_, ast.Name)}:
                col.ob("G5", clause, f"{rel}::{name}::{KERNEL}({p.name}<-default)", False,
                       f"{name} accepts `{p.name}` but leaves the kernel's `{p.name}` to its default", rel,
                       calls[0].lineno)


FULL_REDUCTIONS = {"any", "all", "max", "min", "sum", "mean", "prod"}


def batch_independence(ctx, clause: str):
    """G17: in the batched kernel a full (batch-mixing) reduction may only guard warnings and masked updates that
    are idempotent when the reduced mask is all-false, or size an allocation."""
    col, pkg = ctx.col, ctx.pkg
    rel = pkg.module(MOD).relname
    f = pkg.func(f"{MOD}::{KERNEL}")
    where = f"{rel}::{KERNEL}"
    pm = parent_map(f.node)
    n_red = 0
    for n in own_nodes(f.node):
        if not (isinstance(n, ast.Call) and isinstance(n.func, ast.Attribute) and n.func.attr in FULL_REDUCTIONS
                and not n.args and not n.keywords):
            continue
        recv = n.func.value
        n_red += 1
        par = pm.get(n)
        guarded_body = None
        early_ret = None
        # the reduction as one operand of a compound test (`if warn and bool(M.any()):`): whatever the test's value, both arms of
        # that `if` may only hold warnings / masked idempotent updates
        top = n
        while isinstance(pm.get(top), (ast.BoolOp, ast.UnaryOp)) or (isinstance(pm.get(top), ast.Call) and call_name(pm.get(top)) == "bool"):
            top = pm.get(top)
        if top is not n and isinstance(pm.get(top), ast.If) and pm.get(top).test is top and not (
                isinstance(par, ast.UnaryOp) and isinstance(par.op, ast.Not) and pm.get(par) is pm.get(top)):
            gi_ = pm.get(top)
            guarded_body = list(gi_.body) + list(gi_.orelse)
            par = gi_
        elif isinstance(par, ast.If) and par.test is n:
            guarded_body = par.body
        elif isinstance(par, ast.UnaryOp) and isinstance(par.op, ast.Not) and isinstance(pm.get(par), ast.If) and pm.get(par).test is par:
            # the guard-clause form: `if not M.any(): return t` followed by what the batch-wide test guards
            gi = pm.get(par)
            if gi.orelse:
                guarded_body = gi.orelse
            elif len(gi.body) == 1 and isinstance(gi.body[0], ast.Return) and gi.body[0].value is not None:
                holder = pm.get(gi)
                for fld in ("body", "orelse", "finalbody"):
                    blk = getattr(holder, fld, None)
                    if isinstance(blk, list) and any(x is gi for x in blk):
                        guarded_body = blk[[i for i, x in enumerate(blk) if x is gi][0] + 1:]
                        early_ret = u(gi.body[0].value)
            par = gi
        if guarded_body is not None:
            from sa.inline import Inliner
            inl = Inliner(f.node)
            mask = recv.id if isinstance(recv, ast.Name) else u(recv)[:30]
            maskx = inl.text(recv)

            def is_mask(e):
                while isinstance(e, ast.Call) and isinstance(e.func, ast.Attribute) and e.func.attr in ("unsqueeze", "expand_as", "expand"):
                    e = e.func.value
                return inl.text(e) == maskx or (isinstance(recv, ast.Call) and False)
            in_body = {id(x) for st_ in guarded_body for x in ast.walk(st_)}
            bad = []
            for st in guarded_body:
                # (guard-clause form) the block ends by returning a masked update of what the guard clause returns
                if early_ret is not None and isinstance(st, ast.Return) and st.value is not None:
                    v = st.value
                    if (isinstance(v, ast.Call) and call_name(v) == "torch.where" and len(v.args) == 3 and is_mask(v.args[0]) and u(v.args[2]) == early_ret) \
                            or (isinstance(v, ast.Call) and isinstance(v.func, ast.Attribute) and v.func.attr == "masked_fill"
                                and u(v.func.value) == early_ret and v.args and is_mask(v.args[0])) or u(v) == early_ret:
                        continue
                if isinstance(st, ast.If) and all(isinstance(s, ast.Expr) and isinstance(s.value, ast.Call)
                                                  and call_name(s.value) == "warnings.warn" for s in st.body) and not st.orelse:
                    continue
                if isinstance(st, ast.Expr) and isinstance(st.value, ast.Call) and call_name(st.value) == "warnings.warn":
                    continue
                if isinstance(st, ast.Assign) and len(st.targets) == 1 and isinstance(st.targets[0], ast.Name):
                    t = st.targets[0].id
                    v = st.value
                    # a temporary of the block: every read of it lies inside the block, and it is no result of the kernel
                    reads = [x for x in ast.walk(f.node) if isinstance(x, ast.Name) and x.id == t and isinstance(x.ctx, ast.Load)]
                    stores = [x for x in ast.walk(f.node) if isinstance(x, ast.Name) and x.id == t and isinstance(x.ctx, ast.Store)]
                    if reads and all(id(x) in in_body for x in reads) and len(stores) == 1:
                        continue
                    # t = t - M.to(...)
                    if isinstance(v, ast.BinOp) and isinstance(v.op, ast.Sub) and u(v.left) == t \
                            and isinstance(v.right, ast.Call) and isinstance(v.right.func, ast.Attribute) \
                            and v.right.func.attr == "to" and is_mask(v.right.func.value):
                        continue
                    # t = torch.where(M, a, t)
                    if isinstance(v, ast.Call) and call_name(v) == "torch.where" and len(v.args) == 3 \
                            and is_mask(v.args[0]) and u(v.args[2]) == t:
                        continue
                    # t = t.masked_fill(M, c)
                    if isinstance(v, ast.Call) and isinstance(v.func, ast.Attribute) and v.func.attr == "masked_fill" \
                            and u(v.func.value) == t and v.args and is_mask(v.args[0]):
                        continue
                bad.append(st)
            col.ob("G17", clause, f"{where}::if-{mask}.{n.func.attr}()::only-masked-idempotent-updates", not bad,
                   f"under the batch-wide test `{u(n)}` the kernel executes `{u(bad[0])[:80] if bad else ''}`, which is "
                   f"not a warning nor an update masked by `{mask}`: one pair's result would depend on the other pairs "
                   f"in the batch", rel, par.lineno, sample=[u(s)[:80] for s in guarded_body])
        else:
            # allowed: sizing an allocation via int(x.max().item())
            p2 = pm.get(n)
            ok = isinstance(p2, ast.Attribute) and p2.attr == "item"
            col.ob("G17", clause, f"{where}::{u(n)[:40]}::batch-mixing-reduction", ok,
                   f"`{u(n)}` reduces over the whole batch and its value is used outside a guard: results of one "
                   f"pair may depend on the other pairs", rel, n.lineno, sample=u(n))
    col.floor("kernel_full_reductions", n_red, 4)
    # the kernel never reads beyond a pair's own column: every reduction with a dim reduces over the sequence axes
    # (0 or 1 of the (R+1, R+1, N)/(R, N) layouts), never the batch axis (last)
    for n in own_nodes(f.node):
        if isinstance(n, ast.Call) and isinstance(n.func, ast.Attribute) and n.func.attr in ("min", "max", "sum", "cumsum", "gather") \
                and n.args and isinstance(n.args[0], ast.Constant) and isinstance(n.args[0].value, int):
            d = n.args[0].value
            col.ob("G17", clause, f"{where}::{u(n)[:40]}::reduces-sequence-axis", d in (0, 1),
                   f"`{u(n)[:60]}` reduces dimension {d}; in the (steps, batch) layout only dimensions 0/1 are sequence "
                   f"axes", rel, n.lineno, sample=u(n)[:80], nontrivial=False)


def equal_cost_shortcut(ctx, clause: str):
    """C02-S3 as a table: the head of the kernel (everything before the dynamic programme) is interpreted (sa/interp.py, lenient)
    for cost triples that are equal and positive, equal and zero, and unequal, with error counts requested or not. Where the walk
    stops, the state must be: equal positive costs -> the three costs are 1, the mistakes table is off, and the multiplier is the
    common cost when distances were requested and 1 when counts were; otherwise -> costs and the mode untouched, multiplier 1.
    Where the flag, the multiplier or the reset are written - inside the branch, before it, as conditional expressions - is
    irrelevant. The multiplier is the float local that is multiplied into a returned value."""
    from fractions import Fraction as Fr
    from sa.interp import Interp, POISON
    from sa.inteval import NotEvaluable
    from sa.teval import frac_array
    col, pkg = ctx.col, ctx.pkg
    rel = pkg.module(MOD).relname
    f = pkg.func(f"{MOD}::{KERNEL}")
    where = f"{rel}::{KERNEL}"
    pm = parent_map(f.node)
    rd = ReachingDefs(f.node)
    costs = ("ins_cost", "del_cost", "sub_cost")
    formals = {p.name for p in f.params}
    mult_operands = {o.id for n_ in own_nodes(f.node) if isinstance(n_, ast.BinOp) and isinstance(n_.op, ast.Mult)
                     for o in (n_.left, n_.right) if isinstance(o, ast.Name)} - formals

    def head_state(c3, rm):
        def leaf(x, env):
            if isinstance(x, ast.Call) and call_name(x) == "_lens_from_eos":
                return frac_array([2, 2])
            return None
        it = Interp(leaf=leaf, tensors=True, lenient=True)
        env = {a.arg: None for a in f.node.args.args}
        for a_, d_ in zip(reversed(f.node.args.args), reversed(f.node.args.defaults)):
            if isinstance(d_, ast.Constant):
                env[a_.arg] = d_.value
        env.update(ref=frac_array([[1, 2], [3, 4]]), hyp=frac_array([[1, 2], [3, 4]]), eos=None, include_eos=False, batch_first=False,
                   ins_cost=c3[0], del_cost=c3[1], sub_cost=c3[2], warn=False, return_mistakes=rm)
        kind, val = it.run(f.node, env)
        if kind == "return":
            return env, f.node  # (the whole kernel was inside the fragment: the state at its end)
        if kind != "stopped":
            raise NotEvaluable(f"the walk ended with {kind} before the dynamic programme")
        late = [n for n in own_nodes(f.node) if isinstance(n, ast.Name) and isinstance(n.ctx, ast.Store)
                and n.id in set(costs) | {"return_mistakes"} and n.lineno >= val.lineno]
        if late:
            raise NotEvaluable(f"`{late[0].id}` is assigned after the point the walk reached")
        return env, val
    try:
        probe, stop = head_state((Fr(2), Fr(2), Fr(2)), False)
        cands = sorted(k for k in mult_operands if k in probe and isinstance(probe[k], (int, float, Fr)) and not isinstance(probe[k], bool))
        if len(cands) != 1:
            raise AnalysisError(f"the cost multiplier of the equal-cost branch was not found (candidates {cands})")
        mname = cands[0]
        rows = {}
        for c3 in ((Fr(2), Fr(2), Fr(2)), (Fr(1), Fr(1), Fr(1)), (Fr(0), Fr(0), Fr(0)), (Fr(1), Fr(2), Fr(3)), (Fr(2), Fr(2), Fr(3)), (Fr(3), Fr(2), Fr(2))):
            for rm in (False, True):
                env, _ = head_state(c3, rm)
                if any(env.get(k) is POISON for k in costs + (mname, "return_mistakes")):
                    raise NotEvaluable("a cost / the multiplier / the mode is computed outside the fragment")
                rows[(c3, rm)] = (tuple(env[c] for c in costs), env[mname], env["return_mistakes"])
    except NotEvaluable as ex:
        col.undecided(f"{where}: the head of the kernel is outside the interpreted fragment ({ex})")
        return
    col.floor("equal_cost_table_rows", len(rows), 12)
    eq = [(c3, rm) for (c3, rm) in rows if c3[0] == c3[1] == c3[2] and c3[2] > 0]
    ne = [(c3, rm) for (c3, rm) in rows if not (c3[0] == c3[1] == c3[2] and c3[2] > 0)]
    line = stop.lineno

    def _first(pred, keys):
        return next((k for k in keys if not pred(k)), None)
    k = _first(lambda k_: (rows[k_][0] == (1, 1, 1)) or (rows[k_][0] == k_[0] and rows[k_][2] == k_[1] and rows[k_][1] == 1), eq)
    k2 = _first(lambda k_: rows[k_][0] == k_[0] and rows[k_][2] == k_[1], ne)
    col.ob("G16", clause, f"{where}::equal-cost-test", True if (k is None and k2 is None) else not (
        (k is not None and rows[k][0] == k[0]) or (k2 is not None and rows[k2][0] != k2[0])),
           (f"with costs {tuple(map(float, (k or k2)[0]))} the equal-cost shortcut is {'not ' if k is not None else ''}taken; expected exactly for "
            f"ins == del == sub > 0") if (k is not None or k2 is not None) else "", rel, line)
    k = _first(lambda k_: rows[k_][0] == (1, 1, 1), eq)
    col.ob("G16", clause, f"{where}::costs-reset-to-1", k is None,
           f"with equal costs {float(k[0][0]) if k else ''} the dynamic programme runs with costs {tuple(map(float, rows[k][0])) if k else ''}, not all 1.0", rel, line)
    k = _first(lambda k_: rows[k_][1] == 1, [x for x in eq if x[1]])
    col.ob("G16", clause, f"{where}::multiplier-only-for-distances", k is None,
           (f"`{mname}` is {float(rows[k][1])} for equal costs {float(k[0][0])} although error counts (return_mistakes) are requested: an error rate "
            f"would no longer equal the plain Levenshtein count for equal costs != 1") if k else "", rel, line)
    k = _first(lambda k_: rows[k_][1] == k_[0][0], [x for x in eq if not x[1]])
    col.ob("G16", clause, f"{where}::multiplier-read-before-reset", k is None,
           (f"with distances requested and equal costs {float(k[0][0])} the multiplier is {float(rows[k][1])} after the head, not the common cost "
            f"(it is taken after the cost was reset to 1.0, or not at all)") if k else "", rel, line)
    k = _first(lambda k_: rows[k_][2] is False, eq)
    col.ob("G16", clause, f"{where}::mistakes-table-off-for-equal-costs", k is None,
           "the equal-cost branch does not fall back to the distance table", rel, line)
    k = _first(lambda k_: rows[k_][1] == 1, ne)
    col.ob("G16", clause, f"{where}::multiplier-initialised-1", k is None,
           f"with costs {tuple(map(float, k[0])) if k else ''} the multiplier `{mname}` is {float(rows[k][1]) if k else ''}, not 1.0", rel, f.line)
    # every returned distance is multiplied by the multiplier exactly once (the mask form is not a distance)
    rets = [n for n in own_nodes(f.node) if isinstance(n, ast.Return) and n.value is not None]
    counts = {}
    for r_ in rets:
        prods = {id(x) for x in rd.derives(r_.value).nodes() if isinstance(x, ast.BinOp) and isinstance(x.op, ast.Mult)
                 and any(isinstance(o, ast.Name) and o.id == mname for o in (x.left, x.right))}
        counts[r_.lineno] = len(prods)
    from sa.astutil import under_flag
    expect = {r_.lineno: (0 if under_flag(guards_of(pm, r_), "return_mask", True) else 1) for r_ in rets}
    okc = counts == expect and sum(expect.values()) >= 2
    col.ob("G16", clause, f"{where}::both-results-rescaled", okc,
           f"multiplications by the multiplier on the way to each return: {counts} (expected exactly one for the final and the "
           f"per-prefix result, none for the mask)", rel, f.line, sample=counts)


def empty_reference_convention(ctx, clause: str):
    """With normalisation, an empty reference scores 0 for an empty hypothesis (prefix) and 1 otherwise: in every
    `torch.where(<ref_len == 0>, X, <rate>)` of the kernel, X is the 0/1 indicator `<hypothesis length | prefix index>
    > 0` (cast to the result's dtype), not the length itself."""
    col, pkg = ctx.col, ctx.pkg
    rel = pkg.module(MOD).relname
    f = pkg.func(f"{MOD}::{KERNEL}")
    where = f"{rel}::{KERNEL}"
    rd = ReachingDefs(f.node)
    pm = parent_map(f.node)
    sites = 0
    for c in own_calls(f.node):
        if call_name(c) != "torch.where" or len(c.args) != 3:
            continue
        # the condition tests the reference length against zero
        cond = c.args[0]
        der = rd.derives(cond)
        zero_cmp = any((isinstance(x, ast.Compare) and isinstance(x.ops[0], ast.Eq) and u(x.comparators[0]) == "0") or
                       (isinstance(x, ast.Call) and isinstance(x.func, ast.Attribute) and x.func.attr == "eq" and x.args and u(x.args[0]) == "0")
                       for x in der.nodes())
        if not zero_cmp:
            continue
        from sa.astutil import under_flag
        if not under_flag(guards_of(pm, c), "norm", True):  # (`if norm:` or after the guard clause `if not norm: return`)
            continue
        sites += 1
        from sa.inline import Inliner
        X = Inliner(f.node, rd).expand(c.args[1])
        ind = None
        for x in ast.walk(X):
            if isinstance(x, ast.Call) and isinstance(x.func, ast.Attribute) and x.func.attr in ("gt", "ne", "bool") and \
                    (not x.args or u(x.args[0]) == "0"):
                ind = x
            if isinstance(x, ast.Compare) and isinstance(x.ops[0], (ast.Gt, ast.NotEq)) and u(x.comparators[0]) == "0":
                ind = x
        col.ob("G12", clause, f"{where}::empty-reference-scores-0-or-1@{'prefix' if 'arange' in u(X) else 'final'}", ind is not None,
               f"for an empty reference the kernel substitutes `{u(X)[:100]}`, which is not a 0/1 indicator of a non-empty "
               f"hypothesis (prefix): an empty reference must score 0 against an empty hypothesis and 1 otherwise, not the "
               f"hypothesis length", rel, c.lineno, sample=u(X)[:120])
    col.floor("empty_reference_sites", sites, 2)


def lens_helper_total(ctx, clause: str):
    """The properties quantify over 'any lengths including empty': the padded sequence dimension itself may have size 0.
    `_lens_from_eos` locates the first eos with `(...).max(dim)`; unlike sum / any / cumsum, the (values, indices) form of
    max / min raises on a dimension of size 0, so the helper needs a guard for the empty dimension (or a reduction that is
    total). Without it every public function that accepts `eos` raises for an empty hypothesis / reference dimension,
    although the same call without `eos` works."""
    col, pkg = ctx.col, ctx.pkg
    f = pkg.func(f"{MOD}::_lens_from_eos")
    rel = f.module.relname
    pm = parent_map(f.node)
    tok, dimp = f.params[0].name, f.params[2].name
    sites = []
    for c in own_calls(f.node):
        if isinstance(c.func, ast.Attribute) and c.func.attr in ("max", "min", "argmax", "argmin", "mode", "median") and c.args \
                and isinstance(c.args[0], ast.Name) and c.args[0].id == dimp:
            sites.append(c)
    guarded = []
    from sa.inline import Inliner
    inl = Inliner(f.node)

    def _emptiness_test(t):
        t = inl.expand(t)
        return any(isinstance(x, ast.Name) and x.id == tok for x in ast.walk(t)) and any(
            (isinstance(x, ast.Call) and isinstance(x.func, ast.Attribute) and x.func.attr in ("size", "numel")) or
            (isinstance(x, ast.Attribute) and x.attr == "shape") for x in ast.walk(t))
    for c in sites:
        ok = any(_emptiness_test(t) for t, pol in guards_of(pm, c))
        for t, pol in []:
            if any(isinstance(x, ast.Name) and x.id == tok for x in ast.walk(t)) and any(
                    (isinstance(x, ast.Attribute) and x.attr in ("shape",)) or
                    (isinstance(x, ast.Call) and isinstance(x.func, ast.Attribute) and x.func.attr in ("size", "numel")) for x in ast.walk(t)):
                ok = True
        # an earlier `if tok.size(dim) == 0: return ...`
        for st in f.node.body:
            if st.lineno >= c.lineno:
                break
            if isinstance(st, ast.If) and any(isinstance(x, ast.Return) for x in st.body) and _emptiness_test(st.test):
                ok = True
        guarded.append(ok)
    col.ob("G23", clause, f"{rel}::_lens_from_eos::index-reduction-guarded-for-the-empty-dimension", bool(sites) and all(guarded),
           f"`{u(sites[0])[:60] if sites else ''}` takes (values, indices) over the sequence dimension without a guard for size 0: "
           f"edit_distance / error_rate / prefix_* / optimal_completion with `eos` given raise 'max(): Expected reduction dim to "
           f"have non-zero size' for an empty hypothesis or reference dimension, although the same inputs work with eos=None",
           rel, sites[0].lineno if sites else f.line, sample=[u(c)[:60] for c in sites])


def no_eos_mask_uses_its_own_extent(ctx, clause: str):
    """A sequence 'has no eos' when its eos-derived length equals the extent of ITS OWN tensor. The kernel computes that mask
    once for the references and once for the hypotheses; comparing one side's lengths with the other side's extent mistakes
    an eos that happens to sit at that index for a missing one (and leaves a genuinely missing one uncorrected)."""
    from sa.defuse import ReachingDefs
    col, pkg = ctx.col, ctx.pkg
    rel = pkg.module(MOD).relname
    f = pkg.func(f"{MOD}::{KERNEL}")
    rd = ReachingDefs(f.node)
    sides = {f.params[0].name, f.params[1].name}
    n = 0
    for st in own_nodes(f.node):
        if not (isinstance(st, ast.Assign) and isinstance(st.value, ast.Compare) and len(st.value.ops) == 1
                and isinstance(st.value.ops[0], ast.Eq)):
            continue
        a, b = st.value.left, st.value.comparators[0]
        pa, pb = rd.derives(a).params() & sides, rd.derives(b).params() & sides
        # one operand is a length (derives through _lens_from_eos), the other an extent (derives from .shape / .size)
        def is_len(e):
            return any(call_name(c).endswith("_lens_from_eos") for c in rd.derives(e).calls())
        if is_len(b) and not is_len(a):
            a, b, pa, pb = b, a, pb, pa
        if not is_len(a) or is_len(b) or len(pa) != 1:
            continue
        b_is_extent = any(isinstance(x, ast.Attribute) and x.attr == "shape" for e_ in rd.derives(b).exprs for x in ast.walk(e_)) or \
            any(isinstance(c.func, ast.Attribute) and c.func.attr == "size" for c in rd.derives(b).calls())
        if not b_is_extent:
            continue  # a comparison with a constant (lengths == 0) is another mask
        n += 1
        col.ob("G13", clause, f"{rel}::{KERNEL}::no-eos-mask[{sorted(pa)[0]}]-compares-with-its-own-extent", pb == pa,
               f"`{u(st)}` compares lengths derived from `{sorted(pa)[0]}` with an extent derived from {sorted(pb) or '?'}: a "
               f"sequence lacks its eos when its length equals the extent of its own tensor", rel, st.lineno)
    col.floor("no_eos_masks", n, 2)


FLOAT_CASTS = {"float", "double", "half", "bfloat16"}


def tokens_compared_as_integers(ctx, clause: str):
    """The sequences are integer token ids over ANY alphabet. Equality of two ids is decided exactly only in an integer dtype: a
    cast of a token tensor to a floating type before it is compared (or handed to the eos-length helper, which compares it with
    eos) identifies distinct ids that round to the same float (from 2**24 on in float32), making substitutions free and cutting
    sequences at a non-eos token. No token operand of the kernel may derive from a floating-point cast."""
    col, pkg = ctx.col, ctx.pkg
    rel = pkg.module(MOD).relname
    f = pkg.func(f"{MOD}::{KERNEL}")
    where = f"{rel}::{KERNEL}"
    rd = ReachingDefs(f.node)
    toks = [p.name for p in f.params[:2]]

    LAYOUT = {"detach", "t", "transpose", "contiguous", "unsqueeze", "squeeze", "clone", "view", "reshape", "expand", "expand_as", "flatten",
              "permute", "long", "int", "cpu", "cuda", "masked_fill", "index_select", "narrow", "flip"}

    def token_root(e, depth=0):
        """(is a view / copy of a token tensor, float casts met on the way)."""
        casts = []
        while True:
            if isinstance(e, ast.Subscript):
                e = e.value
            elif isinstance(e, ast.Call) and isinstance(e.func, ast.Attribute) and e.func.attr in FLOAT_CASTS and not e.args:
                casts.append(e)
                e = e.func.value
            elif isinstance(e, ast.Call) and isinstance(e.func, ast.Attribute) and e.func.attr in ("to", "type"):
                if any("float" in u(a) or "double" in u(a) or "half" in u(a) for a in list(e.args) + [k.value for k in e.keywords]):
                    casts.append(e)
                e = e.func.value
            elif isinstance(e, ast.Call) and isinstance(e.func, ast.Attribute) and e.func.attr in LAYOUT:
                e = e.func.value
            else:
                break
        if isinstance(e, ast.Name):
            ds = list(rd.defs_of(e))
            if e.id in toks and all(d.kind == "param" for d in ds):
                return True, casts
            if depth < 6 and ds and all(d.kind in ("assign", "param") for d in ds):
                oks = []
                for d in ds:
                    if d.kind == "param":
                        oks.append((e.id in toks, []))
                    elif d.value is not None:
                        oks.append(token_root(d.value, depth + 1))
                    else:
                        oks.append((False, []))
                if all(o for o, _ in oks):
                    return True, casts + [c for _, cs in oks for c in cs]
        return False, []
    sites, bad = 0, []
    for n in own_nodes(f.node):
        operands = []
        if isinstance(n, ast.Compare) and len(n.ops) == 1 and isinstance(n.ops[0], (ast.Eq, ast.NotEq)):
            operands = [n.left, n.comparators[0]]
        elif isinstance(n, ast.Call) and isinstance(n.func, ast.Attribute) and n.func.attr in ("eq", "ne") and n.args:
            operands = [n.func.value, n.args[0]]
        elif isinstance(n, ast.Call) and call_name(n).endswith("_lens_from_eos") and n.args:
            operands = [n.args[0]]
        for o in operands:
            is_tok, cs = token_root(o)
            if not is_tok:
                continue
            sites += 1
            if cs:
                bad.append((n, cs[0]))
    col.floor("token_comparison_operands", sites, 3)
    col.ob("G21", clause, f"{where}::token-ids-compared-in-an-integer-dtype", not bad,
           (f"`{u(bad[0][0])[:70]}` compares token ids that went through `{u(bad[0][1])[:50]}`: in floating point distinct ids from 2**24 "
            f"on are equal, so a substitution between them is free and a token next to eos ends the sequence") if bad else "", rel,
           bad[0][0].lineno if bad else f.line, sample=sites)


def distance_buffers_are_floating(ctx, clause: str):
    """The kernel's results are weighted distances: real numbers as soon as a cost is not an integer. A buffer that collects rows of
    the dynamic programme (`buf[k] = row.gather(...)`) must be a floating-point tensor; an indexed store into an integer buffer
    truncates every value towards zero without any error. A buffer's dtype is what its creation says: an explicit `dtype=`, the
    default (floating) of torch.empty / zeros / ones, the dtype of the fill value for torch.full without `dtype=` (an int fill - the
    padding value - makes it int64), the source tensor's for `*_like` / `new_*`."""
    col, pkg = ctx.col, ctx.pkg
    rel = pkg.module(MOD).relname
    f = pkg.func(f"{MOD}::{KERNEL}")
    where = f"{rel}::{KERNEL}"
    rd = ReachingDefs(f.node)
    float_formals = {p.name for p in f.params if p.annotation is not None and u(p.annotation) == "float"}
    int_formals = {p.name for p in f.params if p.annotation is not None and u(p.annotation) in ("int", "Optional[int]", "bool")}
    def is_float_dtype(e):
        t = u(e)
        return t in ("torch.float", "torch.float32", "torch.double", "torch.float64", "torch.get_default_dtype()")

    def float_valued(v):
        # a cost (a float formal) or a floating-point literal takes part in the stored value
        return any((isinstance(x, ast.Name) and x.id in float_formals) or (isinstance(x, ast.Constant) and isinstance(x.value, float)) for x in ast.walk(v))

    stores = {}
    for n in own_nodes(f.node):
        if isinstance(n, ast.Assign) and len(n.targets) == 1 and isinstance(n.targets[0], ast.Subscript) and isinstance(n.targets[0].value, ast.Name):
            stores.setdefault(n.targets[0].value.id, []).append(n)
    # a distance buffer: a local that receives at least one indexed store of a cost-weighted value
    stores = {k: [n for n in v if not isinstance(n.value, (ast.Compare, ast.BoolOp))] for k, v in stores.items() if any(float_valued(n.value) for n in v)}
    n_buf = 0
    for name, sts in stores.items():
        if not sts:
            continue
        for d in rd.defs_of(sts[0].targets[0].value):
            c = d.value
            if not (d.kind == "assign" and isinstance(c, ast.Call)):
                continue
            cn = call_name(c)
            if cn not in ("torch.empty", "torch.zeros", "torch.ones", "torch.full"):
                continue
            if cn == "torch.empty" and len(c.args) == 1 and isinstance(c.args[0], ast.Constant) and c.args[0].value == 0:
                continue  # (the TorchScript placeholder `torch.empty(0)`)
            n_buf += 1
            dt = kwarg(c, "dtype")
            if dt is not None:
                ok, why = is_float_dtype(dt), f"is created with dtype={u(dt)}"
            elif cn == "torch.full":
                fill = c.args[1] if len(c.args) > 1 else kwarg(c, "fill_value")
                isf = fill is not None and ((isinstance(fill, ast.Constant) and isinstance(fill.value, float)) or call_name(fill) == "float" if isinstance(fill, (ast.Constant, ast.Call)) else
                                            (isinstance(fill, ast.Name) and fill.id in float_formals))
                ok, why = bool(isf), f"is created by torch.full without dtype= and takes the dtype of its fill `{u(fill) if fill is not None else None}`" + (
                    " (an integer: int64)" if isinstance(fill, ast.Name) and fill.id in int_formals else "")
            else:
                ok, why = True, ""
            col.ob("G28", clause, f"{where}::{name}::distance-buffer-is-floating-point", ok,
                   f"`{name}` {why}, and `{u(sts[0])[:70]}` stores rows of the dynamic programme into it: with a non-integer cost every "
                   f"stored distance is truncated towards zero (the per-prefix distances disagree with the whole-string distance)", rel, c.lineno,
                   sample=u(c)[:100])
    col.floor("distance_buffers", n_buf, 1)


def length_table(ctx, clause: str):
    """The lengths the kernel works with, as a table. The head of `_string_matching` (argument checks, layout, the two length vectors)
    is interpreted over exact values (sa/interp.py, lenient: it walks until the first statement outside the fragment - the dynamic
    programme - and every assignment to a length vector lies before that point) with `_lens_from_eos` given by its meaning (index of
    the first eos, the extent when there is none). For eos given / not given x include_eos x batch_first and sequences with the eos
    in the middle, at position 0 and absent, the lengths must be: the extent without an eos symbol; the index of the first eos, plus
    one under include_eos exactly for the sequences that contain one."""
    import numpy as np
    from sa.interp import Interp, POISON
    from sa.inteval import NotEvaluable
    from sa.teval import frac_array
    col, pkg = ctx.col, ctx.pkg
    rel = pkg.module(MOD).relname
    f = pkg.func(f"{MOD}::{KERNEL}")
    where = f"{rel}::{KERNEL}"
    lens = {}
    for n in own_nodes(f.node):
        if isinstance(n, ast.Assign) and isinstance(n.value, ast.Call) and call_name(n.value) == "_lens_from_eos" \
                and isinstance(n.targets[0], ast.Name) and n.value.args and u(n.value.args[0]) in ("ref", "hyp"):
            lens[u(n.value.args[0])] = n.targets[0].id
    if set(lens) != {"ref", "hyp"}:
        raise AnalysisError("the reference / hypothesis length vectors (results of _lens_from_eos) were not found")
    EOS = 9
    ref_rn = [[1, 1, 9], [9, 2, 5], [2, 3, 5], [9, 4, 5]]  # (R=4, N=3): first eos at 1, none, 0
    hyp_hn = [[9, 7, 7], [1, 9, 7], [1, 1, 7]]            # (H=3, N=3): first eos at 0, 1, none

    def first_eos(a, eos, dim):
        a = np.moveaxis(a, dim, 0)
        out = []
        for j in range(a.shape[1]):
            col_ = [int(x) for x in a[:, j]]
            out.append(col_.index(eos) if eos in col_ else len(col_))
        return frac_array(out)
    bad, n_rows = None, 0
    try:
        for eos in (EOS, None):
            for inc in (True, False):
                for bf in (False, True):
                    holder = {}

                    def leaf(x, env):
                        if isinstance(x, ast.Call) and call_name(x) == "_lens_from_eos":
                            it_ = holder["it"]
                            b_ = dict(zip(("tok", "eos", "dim"), x.args))
                            b_.update({k.arg: k.value for k in x.keywords})
                            if set(b_) != {"tok", "eos", "dim"}:
                                raise NotEvaluable("_lens_from_eos arguments")
                            return first_eos(it_.eval(b_["tok"], env), it_.eval(b_["eos"], env), int(it_.eval(b_["dim"], env)))
                        return None
                    it = Interp(leaf=leaf, tensors=True, lenient=True)
                    holder["it"] = it
                    env = {a.arg: None for a in f.node.args.args}
                    for a_, d_ in zip(reversed(f.node.args.args), reversed(f.node.args.defaults)):
                        if isinstance(d_, ast.Constant):
                            env[a_.arg] = d_.value
                    ref, hyp = frac_array(ref_rn), frac_array(hyp_hn)
                    env.update(ref=ref.T if bf else ref, hyp=hyp.T if bf else hyp, eos=eos, include_eos=inc, batch_first=bf,
                               ins_cost=1.0, del_cost=1.0, sub_cost=1.0, warn=False)
                    kind, val = it.run(f.node, env)
                    if kind not in ("stopped", "return"):
                        raise NotEvaluable(f"the walk ended with {kind} before the dynamic programme")
                    late = [n for n in own_nodes(f.node) if isinstance(n, ast.Name) and isinstance(n.ctx, ast.Store) and n.id in lens.values()
                            and n.lineno >= val.lineno] if kind == "stopped" else []
                    if late:
                        raise NotEvaluable("a length vector is assigned after the point the walk reached")
                    n_rows += 1
                    for which, data in (("ref", ref_rn), ("hyp", hyp_hn)):
                        got = env.get(lens[which])
                        if got is None or got is POISON:
                            raise NotEvaluable(f"the {which} lengths were not computed inside the fragment")
                        cols = list(zip(*data))
                        want = []
                        for c_ in cols:
                            if eos is not None and eos in c_:
                                want.append(c_.index(eos) + (1 if inc else 0))
                            else:
                                want.append(len(c_))
                        if [int(x) for x in np.asarray(got).tolist()] != want and bad is None:
                            bad = (which, eos, inc, bf, [int(x) for x in np.asarray(got).tolist()], want)
    except NotEvaluable as e:
        col.undecided(f"{where}: the length computation is outside the interpreted fragment ({e})")
        return
    col.floor("length_table_rows", n_rows, 8)
    col.ob("G16", clause, f"{where}::include-eos-adds-one", bad is None,
           (f"with eos={bad[1]}, include_eos={bad[2]}, batch_first={bad[3]} the kernel works with {bad[0]} lengths {bad[4]} for sequences whose "
            f"first eos is at {'1, none, 0' if bad[0] == 'ref' else '0, 1, none'}; documented: {bad[5]} (the index of the first eos, plus one under "
            f"include_eos only where there is an eos; the extent otherwise)") if bad else "", rel, f.line, sample=dict(rows=n_rows))


def _lev_oracle(r, h, ic, dc, sc):
    """(cost, fewest edits, most edits) of the minimum-cost alignments of hypothesis h to reference r, and the same for every prefix
    of h: tables[i] is the triple for h[:i]."""
    R, H = len(r), len(h)
    D = [[None] * (R + 1) for _ in range(H + 1)]
    for i in range(H + 1):
        for j in range(R + 1):
            if i == 0 and j == 0:
                D[i][j] = (0, 0, 0)
                continue
            cands = []
            if i > 0:
                c, lo, hi = D[i - 1][j]
                cands.append((c + ic, lo + 1, hi + 1))
            if j > 0:
                c, lo, hi = D[i][j - 1]
                cands.append((c + dc, lo + 1, hi + 1))
            if i > 0 and j > 0:
                c, lo, hi = D[i - 1][j - 1]
                same = r[j - 1] == h[i - 1]
                cands.append((c + (0 if same else sc), lo + (0 if same else 1), hi + (0 if same else 1)))
            best = min(c for c, _, _ in cands)
            D[i][j] = (best, min(lo for c, lo, _ in cands if c == best), max(hi for c, _, hi in cands if c == best))
    return [D[i][R] for i in range(H + 1)]


def kernel_value_table(ctx, clause: str, what: str):
    """The batched kernel interpreted COMPLETELY over exact values (sa/interp.py + sa/teval.py; nothing is run; `_lens_from_eos` by its
    meaning) and compared, pair by pair, with a plain per-pair dynamic programme:

      what='distance'  edit_distance mode: the weighted Levenshtein distance of the sequences up to (and, under include_eos, including)
                       their first eos; divided by the reference length under norm (an empty reference scoring 0 / 1 for an empty /
                       non-empty hypothesis); and the per-prefix form (one distance per hypothesis prefix, padding beyond its length)
      what='count'     error-rate mode: the number of edits along a minimum-cost alignment - any value between the fewest and the
                       most edits among the minimum-cost alignments is right

    for four cost triples (unit, unequal integers, equal non-unit, fractions), both layouts, eos given / not given, include_eos on / off,
    over a batch of pairs with eos in the middle, at the start (an empty sequence), absent, and junk after the eos. What the head of
    the kernel and the recurrence look like does not matter; a wrong row is a counterexample."""
    import numpy as np
    from fractions import Fraction as Fr
    from sa.interp import Interp
    from sa.inteval import NotEvaluable
    from sa.teval import frac_array
    col, pkg = ctx.col, ctx.pkg
    rel = pkg.module(MOD).relname
    f = pkg.func(f"{MOD}::{KERNEL}")
    where = f"{rel}::{KERNEL}"
    EOS, PAD = 9, -7
    refs = [[1, 2, 3, 1], [2, 9, 5, 5], [9, 1, 1, 1], [3, 3, 9, 2], [1, 2, 1, 2]]
    hyps = [[1, 3, 3], [2, 2, 9], [1, 9, 4], [9, 3, 3], [2, 1, 2]]

    def first_eos(a, eos, dim):
        a = np.moveaxis(a, dim, 0)
        out = []
        for j in range(a.shape[1]):
            c_ = [int(x) for x in a[:, j]]
            out.append(c_.index(eos) if eos in c_ else len(c_))
        return frac_array(out)

    def cut(seq, eos, inc):
        if eos is None or eos not in seq:
            return list(seq)
        k = seq.index(eos)
        return list(seq[:k + 1]) if inc else list(seq[:k])
    bad, n_rows = None, 0
    hyps_full, unit_, uneq_ = hyps, (Fr(1), Fr(1), Fr(1)), (Fr(1), Fr(2), Fr(3))
    try:
        # (the last triple: costs larger than any finite stand-in for 'no such transition' could be chosen with)
        for costs in ((Fr(1), Fr(1), Fr(1)), (Fr(1), Fr(2), Fr(3)), (Fr(2), Fr(2), Fr(2)), (Fr(1, 2), Fr(1), Fr(3, 2)), (Fr(10**9), Fr(3 * 10**9), Fr(10**9 + 1)),
                      (Fr(1), Fr(1), Fr(200001, 100000))):  # (last: a substitution dearer than insert + delete by one part in 200000 - not a tie)
            for eos in (EOS, None):
                for inc in ((True, False) if eos is not None else (False,)):
                    for bf in (False, True):
                        for norm in (False, True):
                            for prefix in ((False, True, "without the full prefix") if what == "distance" else (False, True)) + (("no hypothesis steps", "no hypothesis steps, per prefix") if what == "distance" and costs in (unit_, uneq_) else ()):
                                if (costs[0] > 1000 or costs[2].denominator > 1000) and (bf or norm):
                                    continue
                                # (a batch whose hypotheses are all empty: a hypothesis tensor without a step axis entry - the loop over steps never runs)
                                hyps = hyps_full
                                if isinstance(prefix, str) and prefix.startswith("no hypothesis"):
                                    hyps, prefix = [[] for _ in hyps_full], prefix.endswith("per prefix")
                                excl = prefix == "without the full prefix"
                                warn = costs == (Fr(1), Fr(2), Fr(3)) and not bf and not prefix  # (with the diagnostics on: the same values)
                                holder = {}

                                def leaf(x, env):
                                    if isinstance(x, ast.Call) and call_name(x) == "_lens_from_eos":
                                        it_ = holder["it"]
                                        b_ = dict(zip(("tok", "eos", "dim"), x.args))
                                        b_.update({k.arg: k.value for k in x.keywords})
                                        return first_eos(it_.eval(b_["tok"], env), it_.eval(b_["eos"], env), int(it_.eval(b_["dim"], env)))
                                    if isinstance(x, ast.Attribute) and isinstance(x.value, ast.Name) and x.value.id == "config":
                                        # a library constant, folded from its definition (a finite stand-in for infinity is finite here)
                                        from sa.constfold import fold_constant
                                        v_ = fold_constant(pkg.module("config").tree, x.attr)
                                        return Fr(v_) if isinstance(v_, float) and v_ == v_ and abs(v_) != float("inf") else v_
                                    return None
                                it = Interp(leaf=leaf, tensors=True)
                                holder["it"] = it
                                env = {a.arg: None for a in f.node.args.args}
                                for a_, d_ in zip(reversed(f.node.args.args), reversed(f.node.args.defaults)):
                                    if isinstance(d_, ast.Constant):
                                        env[a_.arg] = d_.value
                                ref, hyp = frac_array(refs).T, (frac_array(hyps).T if hyps[0] else np.empty((0, len(hyps)), dtype=object))  # (R, N), (H, N)
                                env.update(ref=ref.T if bf else ref, hyp=hyp.T if bf else hyp, eos=eos, include_eos=inc, batch_first=bf,
                                           ins_cost=costs[0], del_cost=costs[1], sub_cost=costs[2], warn=warn, norm=norm, padding=PAD,
                                           return_prf_dsts=bool(prefix), return_mistakes=(what == "count"), return_mask=False, exclude_last=excl)
                                kind, got = it.run(f.node, env)
                                n_rows += 1
                                if kind != "return" or not hasattr(got, "shape"):
                                    if bad is None:
                                        bad = (costs, eos, inc, bf, norm, prefix, f"{kind} {got}", None, None)
                                    continue
                                g = np.asarray(got, dtype=object)
                                if prefix and bf:
                                    g = g.T
                                want_shape = (len(hyps[0]) + (0 if excl else 1), len(refs)) if prefix else (len(refs),)
                                if g.shape != want_shape:
                                    if bad is None:
                                        bad = (costs, eos, inc, bf, norm, prefix, f"a result of shape {g.T.shape if prefix and bf else g.shape}", f"shape {want_shape[::-1] if prefix and bf else want_shape}", None)
                                    continue
                                for n_, (r_, h_) in enumerate(zip(refs, hyps)):
                                    rs, hs = cut(r_, eos, inc), cut(h_, eos, inc)
                                    tabs = _lev_oracle(rs, hs, *costs)
                                    div = (lambda v_, hl: v_) if not norm else (lambda v_, hl: (v_ / len(rs)) if rs else Fr(1 if hl > 0 else 0))
                                    if what == "distance":
                                        if prefix:
                                            want_col = [div(tabs[k_][0], k_) if k_ <= len(hs) - (1 if excl else 0) else Fr(PAD) for k_ in range(len(h_) + (0 if excl else 1))]
                                            ok = [x for x in g[:, n_].tolist()] == want_col
                                            shown = (g[:, n_].tolist(), want_col)
                                        else:
                                            w_ = div(tabs[len(hs)][0], len(hs))
                                            ok = g[n_] == w_
                                            shown = (g[n_], w_)
                                    elif prefix:
                                        # (per prefix: within the fewest .. most edits of that prefix's optimal alignments; padding behind the hypothesis)
                                        col_ = g[:, n_].tolist()
                                        rng_ = [(div(Fr(tabs[k_][1]), k_), div(Fr(tabs[k_][2]), k_)) if k_ <= len(hs) else (Fr(PAD), Fr(PAD)) for k_ in range(len(h_) + 1)]
                                        ok = len(col_) == len(rng_) and all(lo_ <= v_ <= hi_ for v_, (lo_, hi_) in zip(col_, rng_))
                                        shown = (col_, [f"{lo_}..{hi_}" for lo_, hi_ in rng_])
                                    else:
                                        lo, hi = tabs[len(hs)][1], tabs[len(hs)][2]
                                        lo_, hi_ = div(Fr(lo), len(hs)), div(Fr(hi), len(hs))
                                        ok = lo_ <= g[n_] <= hi_
                                        shown = (g[n_], (lo_, hi_))
                                    if not ok and bad is None:
                                        bad = (costs, eos, inc, bf, norm, prefix, shown[0], shown[1], (r_, h_))
    except NotEvaluable as e:
        # the core clause of the property: a kernel outside the interpreted fragment is reported as undecided, never passed over
        col.undecided(f"{where}: the kernel is outside the interpreted fragment ({e}); its values are not decided")
        return False
    col.floor(f"kernel_table_rows[{what}]", n_rows, 40)

    def _s(v):
        return str([str(x) for x in v] if isinstance(v, (list, tuple)) else v)[:120]
    name = "levenshtein-table" if what == "distance" else "edit-count-table"
    col.ob("G12", clause, f"{where}::{name}", bad is None,
           (f"with costs (ins, del, sub) = {tuple(str(c) for c in bad[0])}, eos={bad[1]}, include_eos={bad[2]}, batch_first={bad[3]}, norm={bad[4]}"
            f"{', per prefix' if bad[5] else ''} the kernel gives {_s(bad[6])} for reference {bad[8][0] if bad[8] else ''} and hypothesis "
            f"{bad[8][1] if bad[8] else ''}; a plain dynamic programme over the same pair gives {_s(bad[7])}"
            + (" (the fewest .. most edits among its minimum-cost alignments)" if what == "count" else "")) if bad else "", rel, f.line, sample=dict(rows=n_rows))
    return True


def completion_table(ctx, clause: str):
    """`optimal_completion` interpreted COMPLETELY (kernel in its mask mode included) over exact values and compared, pair by pair and
    prefix by prefix, with the definition: for the hypothesis prefix of length k, the tokens ref[j] (j < reference length) at which the
    row k of the pair's Levenshtein table attains its minimum over j = 0 .. reference length; sorted, without duplicates, padded with
    `padding`; nothing for prefixes beyond the hypothesis. Costs: unit, unequal, and two triples far larger than any bound that could
    stand in for 'outside the reference'; eos given / not, include_eos, both layouts, exclude_last."""
    import numpy as np
    from fractions import Fraction as Fr
    from sa.interp import Interp
    from sa.inteval import NotEvaluable
    from sa.teval import frac_array
    col, pkg = ctx.col, ctx.pkg
    rel = pkg.module(MOD).relname
    f = pkg.func(f"{MOD}::optimal_completion")
    kern = pkg.func(f"{MOD}::{KERNEL}")
    where = f"{rel}::optimal_completion"
    EOS, PAD = 9, -7
    refs = [[1, 2, 3, 1], [2, 9, 5, 5], [9, 1, 1, 1], [3, 3, 9, 2], [1, 2, 1, 2]]
    hyps = [[1, 3, 3], [2, 2, 9], [1, 9, 4], [9, 3, 3], [2, 1, 2]]

    def first_eos(a, eos, dim):
        a = np.moveaxis(a, dim, 0)
        out = []
        for j in range(a.shape[1]):
            c_ = [int(x) for x in a[:, j]]
            out.append(c_.index(eos) if eos in c_ else len(c_))
        return frac_array(out)

    def cut(seq, eos, inc):
        if eos is None or eos not in seq:
            return list(seq)
        k = seq.index(eos)
        return list(seq[:k + 1]) if inc else list(seq[:k])

    def table(r, h, ins, dele, sub):
        D = [[Fr(0)] * (len(r) + 1) for _ in range(len(h) + 1)]
        for j in range(1, len(r) + 1):
            D[0][j] = D[0][j - 1] + dele
        for k in range(1, len(h) + 1):
            D[k][0] = D[k - 1][0] + ins
            for j in range(1, len(r) + 1):
                D[k][j] = min(D[k - 1][j] + ins, D[k][j - 1] + dele, D[k - 1][j - 1] + (Fr(0) if r[j - 1] == h[k - 1] else sub))
        return D
    bad, n_rows = None, 0
    try:
        # (last: a substitution dearer than the other two by one part in 100000 - row minima that differ by that little are NOT ties)
        for costs in ((Fr(1), Fr(1), Fr(1)), (Fr(1), Fr(2), Fr(3)), (Fr(7), Fr(3), Fr(20)), (Fr(10), Fr(10), Fr(15)), (Fr(100000), Fr(100000), Fr(100001))):
            for eos in (EOS, None):
                for inc in ((True, False) if eos is not None else (False,)):
                    for bf in (False, True):
                        for excl in (False, True):
                            holder = {}

                            def leaf(x, env):
                                if isinstance(x, ast.Call) and call_name(x) == "_lens_from_eos":
                                    it_ = holder["it"]
                                    b_ = dict(zip(("tok", "eos", "dim"), x.args))
                                    b_.update({k.arg: k.value for k in x.keywords})
                                    return first_eos(it_.eval(b_["tok"], env), it_.eval(b_["eos"], env), int(it_.eval(b_["dim"], env)))
                                if isinstance(x, ast.Attribute) and isinstance(x.value, ast.Name) and x.value.id == "config":
                                    from sa.constfold import fold_constant
                                    v_ = fold_constant(pkg.module("config").tree, x.attr)
                                    return Fr(v_) if isinstance(v_, float) and v_ == v_ and abs(v_) != float("inf") else v_
                                return None

                            def lookup(c_):
                                return kern.node if call_name(c_) == KERNEL else None
                            it = Interp(leaf=leaf, lookup=lookup, tensors=True)
                            holder["it"] = it
                            env = {a.arg: None for a in f.node.args.args}
                            for a_, d_ in zip(reversed(f.node.args.args), reversed(f.node.args.defaults)):
                                if isinstance(d_, ast.Constant):
                                    env[a_.arg] = d_.value
                            ref, hyp = frac_array(refs).T, frac_array(hyps).T
                            env.update(ref=ref.T if bf else ref, hyp=hyp.T if bf else hyp, eos=eos, include_eos=inc, batch_first=bf,
                                       ins_cost=costs[0], del_cost=costs[1], sub_cost=costs[2], padding=PAD, exclude_last=excl, warn=False)
                            kind, got = it.run(f.node, env)
                            n_rows += 1
                            if kind != "return" or not hasattr(got, "shape") or got.ndim != 3:
                                if bad is None:
                                    bad = (costs, eos, inc, bf, excl, f"{kind} {str(got)[:80]}", None, None, None)
                                continue
                            g = np.asarray(got, dtype=object)
                            if bf:
                                g = np.swapaxes(g, 0, 1)  # (prefixes, N, C)
                            for n_, (r_, h_) in enumerate(zip(refs, hyps)):
                                rs, hs = cut(r_, eos, inc), cut(h_, eos, inc)
                                D = table(rs, hs, *costs)
                                for k_ in range(g.shape[0]):
                                    if excl and k_ == 0 and not hs:
                                        continue  # (the empty prefix of an empty hypothesis is also its last: the documentation does not say which wins)
                                    if k_ <= len(hs) - (1 if excl else 0):
                                        m_ = min(D[k_])
                                        want = sorted({rs[j] for j in range(len(rs)) if D[k_][j] == m_})
                                    else:
                                        want = []
                                    row_ = [int(v_) for v_ in g[k_, n_].tolist()]
                                    ok = row_[:len(want)] == want and all(v_ == PAD for v_ in row_[len(want):])
                                    if not ok and bad is None:
                                        bad = (costs, eos, inc, bf, excl, row_, want, (r_, h_), k_)
    except NotEvaluable as e:
        col.undecided(f"{where}: optimal_completion is outside the interpreted fragment ({e}); its targets are not decided")
        return False
    col.floor("completion_table_rows", n_rows, 40)
    col.ob("G12", clause, f"{where}::completion-table", bad is None,
           (f"with costs (ins, del, sub) = {tuple(str(c) for c in bad[0])}, eos={bad[1]}, include_eos={bad[2]}, batch_first={bad[3]}, exclude_last={bad[4]}: for reference "
            f"{bad[7][0] if bad[7] else ''} and the first {bad[8]} token(s) of hypothesis {bad[7][1] if bad[7] else ''} optimal_completion lists {bad[5]}; the tokens that "
            f"continue a minimum-cost alignment are {bad[6]} (then padding)") if bad else "", rel, f.line, sample=dict(rows=n_rows))
    return True


def lens_helper_table(ctx, clause: str):
    """`_lens_from_eos` by value: interpreted (sa/interp.py + sa/teval.py; nothing is run) for token matrices laid out (steps, batch)
    with dim=0 and (batch, steps) with dim=1 and dim=-1 - more steps than batch entries and the other way round - with the eos in the
    middle, first, last, twice, and absent: the result is the index of the FIRST eos along `dim`, and the extent of `dim` where there
    is none. (The other tables use the helper by this meaning.)"""
    import numpy as np
    from sa.interp import Interp
    from sa.inteval import NotEvaluable
    from sa.teval import frac_array
    col, pkg = ctx.col, ctx.pkg
    rel = pkg.module(MOD).relname
    f = pkg.func(f"{MOD}::_lens_from_eos")
    where = f"{rel}::_lens_from_eos"
    names = [a.arg for a in f.node.args.args]
    EOS = 9
    batches = ([[1, 9, 2, 9, 3, 4], [9, 1, 1, 1, 1, 1], [1, 2, 3, 4, 5, 6]],                      # 3 sequences of 6 steps
               [[1, 2], [9, 9], [2, 9], [3, 1], [4, 4], [9, 5], [6, 6]])                            # 7 sequences of 2 steps
    bad, n_rows = None, 0
    try:
        for seqs in batches:
            want = [s_.index(EOS) if EOS in s_ else len(s_) for s_ in seqs]
            for layout, dim in (("NT", 1), ("NT", -1), ("TN", 0), ("TN", -2)):
                arr = frac_array(seqs) if layout == "NT" else frac_array(seqs).T
                kind, got = Interp(tensors=True).run(f.node, dict(zip(names, (arr, EOS, dim))))
                n_rows += 1
                ok = kind == "return" and hasattr(got, "shape") and [int(x) for x in np.asarray(got).tolist()] == want
                if not ok and bad is None:
                    bad = (seqs, layout, dim, got if kind == "return" else f"raise {got}", want)
    except NotEvaluable as e:
        return False
    col.floor("lens_helper_table_rows", n_rows, 8)
    col.ob("G12", clause, f"{where}::first-eos-table", bad is None,
           (f"for the sequences {bad[0]} laid out {'(batch, steps)' if bad[1] == 'NT' else '(steps, batch)'} with dim={bad[2]} the helper returns "
            f"{str(bad[3].tolist() if hasattr(bad[3], 'tolist') else bad[3])[:80]}; the index of the first eos (the extent of `dim` where there is none) is "
            f"{bad[4]}") if bad else "", rel, f.line, sample=dict(rows=n_rows))
    return True
