"""C10 slicing policies / token chunks: plumbing (G1/G5), enums vs argparse choices (G8),
position kinds (G14), containment/overlap predicates (G12), driver pairing (G16), ranks (G19),
return arity (G2)."""
from __future__ import annotations

import ast
from typing import Dict, List, Optional, Set, Tuple

from rules import enum as R_enum
from rules import fwd as R_fwd
from rules.rank import analyse
from sa.astutil import call_name, guards_of, kwarg, parent_map, u
from sa.defuse import ReachingDefs
from sa.model import AnalysisError, own_calls, own_nodes
from sa.resolve import bind_args
from sa.norm import Normalizer, linear_equal
from .common import Ctx, plumbing

MOD = "_feats"


def _col_role(e: ast.AST, refs_names: Set[str], slices_name: str) -> Optional[str]:
    """Role of a column selector: slice_start/slice_end/tok_start/tok_end."""
    if not (isinstance(e, ast.Subscript) and isinstance(e.value, ast.Name)):
        return None
    sl = e.slice
    items = list(sl.elts) if isinstance(sl, ast.Tuple) else [sl]
    if not items or not (isinstance(items[0], ast.Constant) and items[0].value is Ellipsis):
        return None
    last = items[-1]
    col = None
    if isinstance(last, ast.Constant) and isinstance(last.value, int):
        col = last.value
    elif isinstance(last, ast.Slice):
        lo = last.lower.value if isinstance(last.lower, ast.Constant) else (0 if last.lower is None else None)
        hi = last.upper.value if isinstance(last.upper, ast.Constant) else None
        if lo is not None and last.upper is not None and hi == lo + 1:
            col = lo
        elif lo is not None and last.upper is None:
            col = ("from", lo)
    base = e.value.id
    if base == slices_name:
        if col == 0:
            return "slice_start"
        if col == 1 or col == ("from", 1):
            return "slice_end"
    if base in refs_names:
        if col == 1:
            return "tok_start"
        if col == 2 or col == ("from", 2):
            return "tok_end"
        if col == ("from", 1):
            return "tok_bounds"
    return None


def run(ctx: Ctx):
    col, pkg, res = ctx.col, ctx.pkg, ctx.res
    rel = pkg.module(MOD).relname
    sl = pkg.func(f"{MOD}::slice_spect_data")
    ch = pkg.func(f"{MOD}::chunk_token_sequences_by_slices")

    # ---- S1 Module <-> functional, driver construction ------------------------------------------
    R_fwd.g5_module_pairs(pkg, res, col, only={"slice_spect_data", "chunk_token_sequences_by_slices"}, clause="S1")
    col.floor("g5_pairs", col.counts.get("g5_pairs", 0), 2)
    work = pkg.func("command_line::_chunk_torch_spect_data_dir_do_work")
    ctor_want = {
        "SliceSpectData": {"policy": "policy", "window_type": "window_type", "valid_only": "pad_mode is None",
                           "lobe_size": "lobe_size"},
        "ChunkBySlices": {"mode": "'constant' if pad_mode is None else pad_mode", "value": "pad_constant"},
        "ChunkTokenSequencesBySlices": {"partial": "partial_tokens", "retain": "retain_token_boundaries"},
    }
    seen = set()
    for c in own_calls(work.node):
        cn = call_name(c)
        if cn in ctor_want:
            r = res.resolve_call(c, work)
            if not r:
                raise AnalysisError(f"C10: cannot resolve {cn} in the chunk worker")
            b = bind_args(c, r[0][-1], r[1])
            from sa.inline import Inliner as _Inl
            inl_w = _Inl(work.node)
            got = {p.name: inl_w.text(a) for p, a, _ in b.pairs}
            seen.add(cn)
            for k, v in ctor_want[cn].items():
                if k in ("mode", "valid_only"):
                    continue  # decided below as a function of pad_mode
                col.ob("G1", "S1", f"command_line.py::{work.qualname}::{cn}({k}<-{got.get(k)})", got.get(k) == v,
                       f"{cn}.{k} receives `{got.get(k)}`, expected `{v}`", "command_line.py", c.lineno,
                       sample=dict(ctor=cn, formal=k, arg=got.get(k)))
    # the two arguments that depend on --pad-mode, as a table over pad_mode in {None, 'reflect', 'replicate'}: whichever call site is
    # reached (one conditional expression, or one constructor call per branch), valid_only == (pad_mode is None) and the chunker's
    # mode == 'constant' if pad_mode is None else pad_mode
    from sa.inteval import NotEvaluable as _NEv, guarded_value as _gval, int_eval as _iev
    rd_w, pm_w = ReachingDefs(work.node), parent_map(work.node)
    bad_tab = None
    def _by_interpretation(pmv):
        """The worker's head interpreted over plain data (sa/pyinterp.py) until both constructors have been called: what each receives for
        the formal in question - also when `pad_mode` itself is re-bound on the way. None when outside the interpreted fragment."""
        from sa.pyinterp import Obj as _Obj, PyInterp as _PyI, Raised as _Raised
        seen_, holder_ = {}, {}

        class _Done(Exception):
            pass

        def leaf(e, env_):
            if isinstance(e, ast.Call) and call_name(e) in ("SliceSpectData", "ChunkBySlices"):
                cn_ = call_name(e)
                r_ = res.resolve_call(e, work)
                if not r_:
                    raise _NEv("constructor not resolved")
                a_ = bind_args(e, r_[0][-1], r_[1]).arg_for("valid_only" if cn_ == "SliceSpectData" else "mode")
                seen_.setdefault(cn_, []).append(holder_["it"].eval(a_, env_) if a_ is not None else "<default>")
                if len(seen_) == 2:
                    raise _Done()
                return _Obj()
            return None
        it_ = _PyI(leaf=leaf)
        holder_["it"] = it_
        args_ = [pmv if p_.name == "pad_mode" else f"<{p_.name}>" for p_ in work.params]
        try:
            it_.call_function(work.node, args_, {})
        except _Done:
            return seen_
        except (_NEv, _Raised, KeyError, AttributeError, TypeError, ValueError, IndexError):
            return None
        return None
    try:
        for pmv in (None, "reflect", "replicate"):
            env = {"pad_mode": pmv}
            interp_ = _by_interpretation(pmv)
            col.count("pad_mode_rows_by_interpretation", int(interp_ is not None))
            for cn, formal, want_v in (("SliceSpectData", "valid_only", pmv is None), ("ChunkBySlices", "mode", "constant" if pmv is None else pmv)):
                if interp_ is not None:
                    vals = interp_.get(cn, [])
                    if (len(vals) != 1 or vals[0] != want_v or type(vals[0]) is not type(want_v)) and bad_tab is None:
                        bad_tab = dict(pad_mode=pmv, ctor=cn, formal=formal, receives=vals, expected=want_v)
                    continue
                reached = []
                for c in own_calls(work.node):
                    if call_name(c) != cn:
                        continue
                    ok_g = True
                    for t_, pol_ in guards_of(pm_w, c):
                        try:
                            if bool(_gval(t_, dict(env), rd_w, pm_w)) != pol_:
                                ok_g = False
                        except _NEv:
                            pass
                    if ok_g:
                        reached.append(c)
                vals = []
                for c in reached:
                    r = res.resolve_call(c, work)
                    b = bind_args(c, r[0][-1], r[1])
                    a_ = b.arg_for(formal)
                    vals.append(_gval(a_, dict(env), rd_w, pm_w) if a_ is not None else "<default>")
                if (len(vals) != 1 or vals[0] != want_v or type(vals[0]) is not type(want_v)) and bad_tab is None:
                    bad_tab = dict(pad_mode=pmv, ctor=cn, formal=formal, receives=vals, expected=want_v)
    except _NEv as ex_:
        bad_tab = dict(undecided=str(ex_))
    col.ob("G1", "S1", f"command_line.py::{work.qualname}::pad-mode-decides-valid_only-and-chunker-mode", bad_tab is None,
           f"{bad_tab}: SliceSpectData.valid_only must be (pad_mode is None) and ChunkBySlices.mode 'constant' if pad_mode is None else pad_mode",
           "command_line.py", work.line)
    col.ob("G1", "S1", f"command_line.py::{work.qualname}::builds-all-three-modules", seen == set(ctor_want),
           f"the chunk worker builds {sorted(seen)}", "command_line.py", work.line)
    R_fwd.g7_cli(pkg, res, col, clause="S1", only={"chunk_torch_spect_data_dir"})
    col.floor("g7_commands", col.counts.get("g7_commands", 0), 1)

    # ---- S2 enums: Literal aliases == dispatch constants == argparse choices ----------------------
    mi = pkg.module(MOD)
    pol = R_enum.literal_members(pkg, res, mi, ast.Name(id="Policy", ctx=ast.Load()))
    win = R_enum.literal_members(pkg, res, mi, ast.Name(id="WindowType", ctx=ast.Load()))
    if pol is None or win is None:
        raise AnalysisError("C10: Policy / WindowType Literal aliases not found")
    R_enum.g8_dispatch(pkg, res, col, sl, "policy", "S2", members=pol, allow_else=0)
    R_enum.g8_dispatch(pkg, res, col, sl, "window_type", "S2", members=win, allow_else=1)
    cli = pkg.func("command_line::chunk_torch_spect_data_dir")
    decl = {d: kw for d, kw, _, _ in R_fwd.cli_declared_options(pkg, res, cli)}
    padm = R_enum.literal_members(pkg, res, pkg.module("_pad"), ast.Name(id="PadMode", ctx=ast.Load()))
    for dest, members in (("policy", pol), ("window_type", win), ("pad_mode", padm)):
        chs = decl.get(dest, {}).get("choices")
        vals = [x.value for x in chs.elts] if isinstance(chs, (ast.List, ast.Tuple)) else None
        col.ob("G8", "S2", f"command_line.py::chunk_torch_spect_data_dir::choices({dest})",
               vals is not None and members is not None and set(vals) == set(members),
               f"--{dest.replace('_', '-')} offers {vals}; the library accepts {members}", "command_line.py", cli.line,
               sample=dict(dest=dest, choices=vals, literal=members))

    # ---- S3 positions: slice-relative boundaries ---------------------------------------------------------
    where = f"{rel}::{ch.qualname}"
    pm = parent_map(ch.node)
    rd = ReachingDefs(ch.node)
    slices_name = ch.params[1].name
    n_shift = 0
    for n in own_nodes(ch.node):
        tgt = val = op = None
        if isinstance(n, ast.AugAssign):
            tgt, val, op = n.target, n.value, type(n.op).__name__
        elif isinstance(n, ast.Assign) and isinstance(n.value, ast.BinOp) and u(n.targets[0]) == u(n.value.left):
            tgt, val, op = n.targets[0], n.value.right, type(n.value.op).__name__
        if tgt is None or not isinstance(tgt, ast.Subscript):
            continue
        vd = rd.derives(val)
        from_start = any(_col_role(x, set(), slices_name) == "slice_start" for e in vd.exprs for x in ast.walk(e))
        if not from_start:
            continue
        sl_ = tgt.slice
        items = list(sl_.elts) if isinstance(sl_, ast.Tuple) else [sl_]
        last = items[-1]
        bounds_cols = isinstance(last, ast.Slice) and isinstance(last.lower, ast.Constant) and last.lower.value == 1 \
            and last.upper is None
        gs = guards_of(pm, n)
        under_not_retain = any((u(t) == "not retain" and polr) or (u(t) == "retain" and not polr) for t, polr in gs)
        n_shift += 1
        col.ob("G14", "S3", f"{where}::boundary-shift::columns+guard", bounds_cols and under_not_retain,
               f"`{u(n)}` must shift exactly the start/end columns ([..., 1:]) and only when boundaries are not retained",
               rel, n.lineno, sample=u(n))
        col.ob("G14", "S3", f"{where}::boundary-shift::position-minus-position", op == "Sub",
               f"`{u(n)}` combines a token boundary (a position) with the slice start (a position) by {op}: offsets "
               f"from the slice start are position - position; position + position is ill-kinded (documented: "
               f"'boundaries will become relative to the start frame of slices')", rel, n.lineno, sample=u(n))
    col.floor("boundary_shift_sites", n_shift, 1)

    # ---- S4 containment / overlap predicates ------------------------------------------------------------------
    refs_names = {ch.params[0].name}
    preds: Dict[bool, Set[Tuple[str, str, str]]] = {}
    from sa.inline import Inliner
    inl_ch = Inliner(ch.node)
    for n in own_nodes(ch.node):
        if isinstance(n, ast.Assign) and isinstance(n.targets[0], ast.Name):
            gs = guards_of(pm, n)
            flag = [(t, polr) for t, polr in gs if u(t) in ("partial", "not partial")]
            if not flag:
                continue
            t, polr = flag[-1]
            is_partial = (u(t) == "partial") == polr
            cs = set()
            for x in ast.walk(inl_ch.expand(n.value)):
                if isinstance(x, ast.Compare) and len(x.ops) == 1:
                    a = _col_role(x.left, refs_names, slices_name)
                    b = _col_role(x.comparators[0], refs_names, slices_name)
                    o = {ast.Lt: "<", ast.LtE: "<=", ast.Gt: ">", ast.GtE: ">="}.get(type(x.ops[0]))
                    if a and b and o and (a.startswith("tok") != b.startswith("tok")):
                        if a.startswith("tok"):
                            a, b = b, a
                            o = {"<": ">", "<=": ">=", ">": "<", ">=": "<="}[o]
                        cs.add((a, o, b))
            if cs:
                preds[is_partial] = preds.get(is_partial, set()) | cs
    want = {True: {("slice_start", "<", "tok_end"), ("slice_end", ">", "tok_start")},
            False: {("slice_start", "<=", "tok_start"), ("slice_end", ">=", "tok_end")}}
    tokens_decided = _chunk_tokens_table(ctx, ch, rel)
    for k in ((True, False) if not tokens_decided else ()):
        col.ob("G12", "S4", f"{where}::{'overlap' if k else 'containment'}-predicate", preds.get(k) == want[k],
               f"with partial={k} a token is kept iff {sorted(preds.get(k, []))}; documented: "
               f"{'overlaps the slice' if k else 'is contained in the slice'} = {sorted(want[k])}", rel, ch.line,
               sample=sorted(preds.get(k, [])))
    # tokens with a missing (-1) or inverted boundary are never kept
    from sa.astutil import oriented

    from sa.inline import Inliner as _InlB
    _inl_b = _InlB(ch.node)

    def _base(v):
        v = _inl_b.expand(v)  # named columns (`ref_starts, ref_ends = refs[..., 1], refs[..., 2]`) are looked through
        nonneg = any(isinstance(c, ast.Call) and isinstance(c.func, ast.Attribute) and c.func.attr == "all" and
                     (oriented(c.func.value, lambda e: True) or (None, None, None))[0] == "ge" and
                     u(oriented(c.func.value, lambda e: True)[2]) == "0" for c in ast.walk(v))
        ordered = any((o := oriented(c, lambda e: _col_role(e, refs_names, slices_name) == "tok_end")) is not None
                      and o[0] == "ge" and _col_role(o[2], refs_names, slices_name) == "tok_start"
                      for c in ast.walk(v) if isinstance(c, ast.Compare))
        return nonneg and ordered
    base_ok = any(isinstance(n, ast.Assign) and _base(n.value) for n in own_nodes(ch.node))
    # ... on every path: the mask that enters the slice test carries the exclusion whichever arm built it
    rdc = ReachingDefs(ch.node)
    from sa.astutil import enclosing_stmt as _es
    pm_ch = parent_map(ch.node)
    enclosing_stmt_ = lambda n_: _es(pm_ch, n_)

    def _carries(d, depth=0):
        if d.value is None or depth > 6:
            return False
        if _base(d.value):
            return True
        conj = []

        def flat(e):
            if isinstance(e, ast.BinOp) and isinstance(e.op, ast.BitAnd):
                flat(e.left), flat(e.right)
            else:
                conj.append(e)
        flat(d.value)
        return any(isinstance(x, ast.Name) and rdc.defs_of(x) and all(_carries(d2, depth + 1) for d2 in rdc.defs_of(x)) for x in conj)
    # the mask that decides what is kept: the one counted for the returned lengths
    rets_ch = [r for r in own_nodes(ch.node) if isinstance(r, ast.Return) and isinstance(r.value, ast.Tuple) and len(r.value.elts) == 2]
    sink = None
    if rets_ch:
        last_r = max(rets_ch, key=lambda r: r.lineno)
        lens_e = last_r.value.elts[1]
        for d in (rdc.defs_of(lens_e) if isinstance(lens_e, ast.Name) else ()):
            if d.value is not None:
                root = d.value
                while isinstance(root, ast.Call) and isinstance(root.func, ast.Attribute):
                    root = root.func.value
                if isinstance(root, ast.Name):
                    sink = root
    uncovered = []
    tests = [sink] if sink is not None else []
    if sink is not None and not (rdc.defs_of(sink) and all(_carries(d) for d in rdc.defs_of(sink))):
        uncovered.append(enclosing_stmt_(sink))
    if not tests:
        col.undecided(f"{where}: the mask counted for the returned lengths was not recognised")
    base_ok = base_ok and not uncovered
    if not tokens_decided:
      col.ob("G12", "S4", f"{where}::missing-boundaries-excluded", base_ok,
             "tokens with a negative (missing) boundary or end < start are not excluded before the slice test on every path"
             + (f" (the mask entering `{u(uncovered[0])[:70]}` can come from a definition without the exclusion, e.g. when "
                f"ref_lens is omitted)" if uncovered else ""), rel, uncovered[0].lineno if uncovered else ch.line)

    # ---- S5 driver: names and row lengths ------------------------------------------------------------------------
    wrel = "command_line.py"
    wwhere = f"{wrel}::{work.qualname}"
    rdw = ReachingDefs(work.node)
    for n in own_nodes(work.node):
        if isinstance(n, ast.Assign) and isinstance(n.targets[0], ast.Name) and n.targets[0].id.endswith("basename"):
            col.ob("G4", "S5", f"{wwhere}::{n.targets[0].id}=prefix+id+suffix",
                   isinstance(n.value, ast.BinOp) and u(n.value).startswith("file_prefix + ") and u(n.value).endswith(" + file_suffix"),
                   f"`{u(n)}` is not file_prefix + <id> + file_suffix", wrel, n.lineno, sample=u(n))
    # each saved row is cut with the length returned by the same chunker call. Roles by dataflow: a variable's kind
    # (feat/ali/ref) is the in_<kind>_dir parameter its value derives from (not following the slice tensor).
    inst = {}  # local name -> constructed module class
    for d in rdw.defs:
        if d.kind == "assign" and isinstance(d.value, ast.Call) and call_name(d.value) in ctor_want:
            inst[d.name] = call_name(d.value)
    slicer_names = {k for k, v in inst.items() if v == "SliceSpectData"}
    # the slices: slot 0 of a slicer call, unpacked (`slices, _ = slicer(x)`) or indexed (`slices = slicer(x)[0]`)
    slices_defs = {id(d) for d in rdw.defs if (d.kind == "unpack" and isinstance(d.value, ast.Call)
                                                and call_name(d.value) in slicer_names and d.slot == (0,))
                   or (d.kind == "assign" and isinstance(d.value, ast.Subscript) and isinstance(d.value.value, ast.Call)
                       and call_name(d.value.value) in slicer_names and u(d.value.slice) == "0")}

    def kind_of(e):
        der = rdw.derives(e, stop=lambda d: id(d) in slices_defs)
        ks = {p_[3:-4] for p_ in der.params() if p_.startswith("in_") and p_.endswith("_dir")}
        return ks.pop() if len(ks) == 1 else None

    asserts_eq = []
    for x in own_nodes(work.node):
        if isinstance(x, ast.Assert):
            for c_ in ast.walk(x.test):
                if isinstance(c_, ast.Compare) and len(c_.ops) == 1 and isinstance(c_.ops[0], ast.Eq) \
                        and isinstance(c_.left, ast.Name) and isinstance(c_.comparators[0], ast.Name):
                    asserts_eq.append({c_.left.id, c_.comparators[0].id})
    n_saves = 0
    for c in own_calls(work.node):
        if call_name(c) == "torch.save" and isinstance(c.args[0], ast.Subscript):
            sub = c.args[0]
            data = sub.value
            items = sub.slice.elts if isinstance(sub.slice, ast.Tuple) else [sub.slice]
            ln = None
            for it in items:
                if isinstance(it, ast.Slice) and it.upper is not None:
                    ln = it.upper
            if ln is None or not isinstance(data, ast.Name):
                continue
            n_saves += 1
            kind = kind_of(data)
            dd = rdw.defs_of(data)
            data_stmts = {id(d.stmt) for d in dd if d.kind == "unpack" and d.slot == (0,)}
            from sa.inline import Inliner as _Inl2
            inl_s = _Inl2(work.node, rdw)
            lnames = [x for x in ast.walk(inl_s.expand(ln)) if isinstance(x, ast.Name)]  # `len_n = lens[n]` is looked through
            len_defs = [d for x in lnames for d in inl_s.defs_of(x) if d.kind == "unpack" and d.slot == (1,)]
            len_stmts = {id(d.stmt) for d in len_defs}
            same_ok = bool(data_stmts & len_stmts)
            if not same_ok:
                # accepted only if asserted equal to the length of this tensor's own chunker call
                own_len = {d.name for d in rdw.defs if d.kind == "unpack" and d.slot == (1,) and id(d.stmt) in data_stmts}
                used = {d.name for d in len_defs}
                same_ok = any(a & own_len and a & used for a in asserts_eq)
            dirn = u(c.args[1].args[0]) if isinstance(c.args[1], ast.Call) and c.args[1].args else ""
            col.ob("G16", "S5", f"{wwhere}::save({kind})[:len]->{dirn}", same_ok and f"out_{kind}_dir" == dirn,
                   f"`{u(c)[:100]}`: the chunk must be cut with the length returned by its own chunker call and "
                   f"written to out_{kind}_dir", wrel, c.lineno, sample=u(c)[:120])
    col.floor("driver_save_sites", n_saves, 3)
    # the slicer is fed the tensor matching the policy
    feeds = {}
    from sa.specialise import _eval as _sev10, _UNK as _SUNK10
    for polv in (pol or ["fixed", "ali", "ref"]):
        for n in own_nodes(work.node):
            calls_ = [c_ for c_ in ast.walk(n.value) if isinstance(c_, ast.Call) and call_name(c_) in slicer_names] if isinstance(n, ast.Assign) else []
            if calls_:
                # reached when policy == polv (whatever the order of the arms and whichever arm is the else)
                if all(_sev10(t, {"policy": polv}) is _SUNK10 or bool(_sev10(t, {"policy": polv})) == polr for t, polr in guards_of(pm_of(work), n)):
                    a0 = calls_[0].args[0] if calls_[0].args else None
                    while isinstance(a0, ast.IfExp) and _sev10(a0.test, {"policy": polv}) is not _SUNK10:
                        a0 = a0.body if _sev10(a0.test, {"policy": polv}) else a0.orelse  # `feats if policy == 'fixed' else alis`
                    feeds.setdefault(polv, set()).add(kind_of(a0) if a0 is not None else None)
    feeds = {k: (next(iter(v)) if len(v) == 1 else sorted(map(str, v))) for k, v in feeds.items()}
    col.ob("G16", "S5", f"{wwhere}::slicer-input-by-policy", feeds == {"fixed": "feat", "ali": "ali", "ref": "ref"},
           f"the slicer is fed {feeds}; expected the features for 'fixed', the alignments for 'ali', the references otherwise",
           wrel, work.line, sample={str(k): v for k, v in feeds.items()})

    # ---- S6 known-rank contradictions; return arity ----------------------------------------------------------------
    for f in (sl, ch):
        ra = analyse(f)
        fw = f"{rel}::{f.qualname}"
        seenn = set()
        bad = []
        for n, msg in ra.findings:
            if id(n) in seenn:
                continue
            seenn.add(id(n))
            bad.append((n, msg))
        col.ob("G19", "S6", f"{fw}::dimension-within-known-rank", not bad,
               (bad[0][1] + (f" (and {len(bad) - 1} more)" if len(bad) > 1 else "") +
                " - this branch fails for every input that reaches it") if bad else "", rel,
               bad[0][0].lineno if bad else f.line, sample=[m for _, m in bad] or f"{ra.known_sites} dimension uses within rank")
        col.count(f"rank_known_sites[{f.name}]", ra.known_sites)
        ar = set()
        for n in own_nodes(f.node):
            if isinstance(n, ast.Return) and n.value is not None:
                ar.add(len(n.value.elts) if isinstance(n.value, ast.Tuple) else 1)
        col.ob("G2", "S6", f"{fw}::return-arity", len(ar) == 1,
               f"{f.name} returns tuples of different arity {sorted(ar)} on different paths: callers unpacking "
               f"`slices, sources = ...` fail on the odd path", rel, f.line, sample=sorted(ar))
    col.floor("rank_known_sites[slice_spect_data]", col.counts.get("rank_known_sites[slice_spect_data]", 0), 15)
    # ---- S7 boundary space vs position space: a length marked by equality needs an index range of T + 1 ----------
    from rules.boundary import length_equals_position
    nb = 0
    for f in (sl, ch):
        for s_ in length_equals_position(f):
            nb += 1
            col.ob("G26", "S7", f"{rel}::{f.qualname}::length-marked-in-boundary-space[{s_['length']}]", s_["ok"],
                   f"`{u(s_['node'])}` marks the boundary `{s_['length']}` (0..T) in an index range of extent "
                   f"`{s_['extent']}`: the boundary T is never marked, so a sequence that fills the time axis (and "
                   f"every sequence when no lengths are given) gets no end for its last segment and the start/end "
                   f"lists disagree in length", rel, s_["node"].lineno, sample=dict(extent=s_["extent"], slack=s_["slack"]))
    col.floor("length_equality_marks", nb, 1)
    # ---- S8 / S9 / S11 the three policies as value tables (props/c10.py::_slices_table): slice_spect_data interpreted over exact
    # values and compared with the documented windows; the symbolic clauses below are consulted only for a policy the table could
    # not decide
    decided = _slices_table(ctx, sl, rel)
    # ---- S8 'ref' policy: kept segments and their padded bounds == the documented rule, per option valuation --------
    if not decided.get("ref"):
        _ref_policy(ctx, sl)
    # ---- S9 'fixed' policy: the k-th window and whether it is kept == the documented rule, per option valuation -----
    if not decided.get("fixed"):
        _fixed_policy(ctx, sl)
    if not decided.get("ali"):
        _lobe_clamp_exact(ctx, sl)
    _driver_passes_feature_length(ctx)
    plumbing(ctx, "S1")
    return dict(
        explanation=(
            "Decides for C10: (S1) Module->functional forwarding, the three modules the chunk worker builds and its 17 "
            "worker arguments; (S2) Policy/WindowType/PadMode literals == dispatch constants == argparse choices; (S3) "
            "under not-retain the token boundaries (positions) are combined with the slice start (a position) by "
            "subtraction [known finding F5: the tree adds]; (S4) containment vs overlap predicates in comparison normal "
            "form against the documented ones; (S5) input/output basenames prefix+id+suffix, every saved chunk cut "
            "with the length of its own chunker call into its own sub-directory, slicer input by policy; (S7) lengths marked by equality live in an index range of T + 1 [F21 repaired]; (S8)/(S9) the 'ref' and 'fixed' policies, specialised per option valuation, agree with the documented window / keep rule at every grid point [F24 repaired]; (S6) every "
            "dimension-naming operation within the known rank on every branch [F11 repaired] and one return arity. (S8/S9/S11 as value tables) all three policies of slice_spect_data and the token chunker are interpreted over exact values (sa/interp.py + sa/teval.py, nothing run) on small batches and compared with the documented windows / kept tokens for every window type, valid_only, lobe size and lengths given or omitted; the symbolic clauses remain as the fallback for a policy outside the interpreted fragment. NOT decided: "
            "that the chunked directory validates."),
        decided=["S1", "S2", "S3", "S4", "S5", "S6", "S7", "S8", "S9"],
        not_decided=["chunked directory is well-formed"],
        assumptions=["documented predicates (class docstring of ChunkTokenSequencesBySlices) as oracle"],
    )


def _ref_policy(ctx: Ctx, sl):
    """S8: slice_spect_data is specialised (tests on the option formals folded) for each of the 12 valuations of
    (window_type, valid_only, other_lens given?) under policy='ref'; the returned bounds and the keep-mask, as
    min/max-linear terms over (start, end, lobe, len, other_len, t), must agree with the documented rule."""
    from sa import minmax as MM
    from sa.defuse import ReachingDefs
    from sa.specialise import NOT_NONE, specialise
    from rules.boundary import _is_time_extent_def
    col = ctx.col
    rel = sl.module.relname
    inp = sl.params[0].name
    nterms = 0
    for w in ("symmetric", "causal", "future"):
        for valid in (True, False):
            for given in (True, False):
                known = {"policy": "ref", "window_type": w, "valid_only": valid,
                         "other_lens": NOT_NONE if given else None, "in_lens": NOT_NONE}
                node, folded = specialise(sl.node, known, allow_reassigned=("other_lens", "in_lens"))
                if folded < 5:
                    raise AnalysisError(f"C10: only {folded} option tests of slice_spect_data could be folded")
                rd = ReachingDefs(node)

                def col_of(v):
                    if isinstance(v, ast.Subscript) and isinstance(v.value, ast.Name) and v.value.id == inp:
                        sl_ = v.slice
                        if isinstance(sl_, ast.Tuple) and len(sl_.elts) == 2 and isinstance(sl_.elts[0], ast.Constant) \
                                and sl_.elts[0].value is Ellipsis and isinstance(sl_.elts[1], ast.Constant):
                            return {1: "S", 2: "E"}.get(sl_.elts[1].value)
                    return None

                def leaf_of_def(d):
                    if d.kind == "param":
                        return {"lobe_size": "B", "in_lens": "L", "other_lens": "OL"}.get(d.name)
                    return None

                def leaf_of_expr(e):
                    c = col_of(e)
                    if c:
                        return c
                    if isinstance(e, ast.Call) and call_name(e) == "torch.arange" and e.args and isinstance(e.args[0], ast.Name) \
                            and any(_is_time_extent_def(d, inp) for d in rd.defs_of(e.args[0])):
                        return "t"
                    return None

                def term_hook(e, ex, depth):
                    # X.gather(1, (in_lens - 1)...) : X at the last listed segment
                    if isinstance(e, ast.Call) and isinstance(e.func, ast.Attribute) and e.func.attr == "gather" and len(e.args) == 2:
                        idx = ex.term(e.args[1], depth + 1)
                        if MM.show(idx) not in ("max((L - 1), 0)",):
                            raise MM.Unknown(f"gather index {MM.show(idx)}")
                        return MM.rename_leaves(ex.term(e.func.value, depth + 1), {"S": "Slast", "E": "Elast"})
                    return None

                def cond_hook(e, ex, depth):
                    # (input[..., 1:] >= 0).all(2): both boundary columns present
                    if isinstance(e, ast.Call) and isinstance(e.func, ast.Attribute) and e.func.attr in ("all", "any") and \
                            isinstance(e.func.value, ast.Compare):
                        cmp_ = e.func.value
                        l = cmp_.left
                        # which of the columns (token, start, end) the slice `input[..., k:]` / `input[..., k]` covers
                        cols_ = None
                        if isinstance(l, ast.Subscript) and u(l.value) == inp and isinstance(l.slice, ast.Tuple) and len(l.slice.elts) == 2 \
                                and isinstance(l.slice.elts[0], ast.Constant) and l.slice.elts[0].value is Ellipsis:
                            k_ = l.slice.elts[1]
                            if isinstance(k_, ast.Slice) and k_.step is None and k_.upper is None and (k_.lower is None or isinstance(k_.lower, ast.Constant)):
                                cols_ = list(range(k_.lower.value if k_.lower is not None else 0, 3))
                            elif isinstance(k_, ast.Slice) and k_.step is None and isinstance(k_.upper, ast.Constant) and (k_.lower is None or isinstance(k_.lower, ast.Constant)):
                                cols_ = list(range(k_.lower.value if k_.lower is not None else 0, k_.upper.value))
                        if cols_ is not None and set(cols_) <= {1, 2} and cols_:
                            op = {ast.GtE: ">=", ast.Gt: ">", ast.Lt: "<", ast.LtE: "<="}.get(type(cmp_.ops[0]))
                            r = ex.term(cmp_.comparators[0], depth + 1)
                            if op:
                                parts = [("cmp", op, ("leaf", {1: "S", 2: "E"}[c_]), r) for c_ in cols_]
                                if len(parts) == 1:
                                    return parts[0]
                                return ("and" if e.func.attr == "all" else "or", parts[0], parts[1])
                    return None

                ex = MM.Extractor(rd, leaf_of_def, leaf_of_expr, term_hook=term_hook, cond_hook=cond_hook)
                rets = [n for n in ast.walk(node) if isinstance(n, ast.Return) and isinstance(n.value, ast.Tuple)
                        and len(n.value.elts) == 2 and all(isinstance(x, ast.Name) for x in n.value.elts)]
                if len(rets) != 1:
                    raise AnalysisError(f"C10: specialised slice_spect_data has {len(rets)} (slices, sources) returns")
                sdefs = list(rd.defs_of(rets[0].value.elts[0]))
                if len(sdefs) != 1 or not (isinstance(sdefs[0].value, ast.Call) and call_name(sdefs[0].value) == "torch.stack"):
                    raise AnalysisError("C10: the 'ref' policy does not stack (starts, ends)")
                pair = sdefs[0].value.args[0]
                if not (isinstance(pair, (ast.List, ast.Tuple)) and len(pair.elts) == 2):
                    raise AnalysisError("C10: torch.stack is not given the two bound vectors")

                def sel(e):
                    if isinstance(e, ast.Subscript):
                        return e.value, e.slice
                    ds = list(rd.defs_of(e)) if isinstance(e, ast.Name) else []
                    if len(ds) == 1 and ds[0].kind == "assign" and isinstance(ds[0].value, ast.Subscript):
                        return ds[0].value.value, ds[0].value.slice
                    raise AnalysisError(f"C10: `{u(e)}` is not a masked selection")
                Wl = w in ("symmetric", "causal")
                Wr = w in ("symmetric", "future")

                def OLv(v):
                    return v["OL"] if given else (0 if v["L"] == 0 else v["Elast"])

                def Sp(v): return v["S"] - (v["B"] if Wl else 0)
                def Ep(v): return v["E"] + (v["B"] if Wr else 0)

                def keep(v):
                    base = v["t"] < v["L"] and v["S"] >= 0 and v["E"] >= 0 and Sp(v) < Ep(v)
                    if valid:
                        return base and Sp(v) >= 0 and Ep(v) <= OLv(v)
                    if Sp(v) == OLv(v) and base and Ep(v) > 0:
                        return None  # 'begins after other_lens': the boundary case is not pinned down by the text
                    return base and Ep(v) > 0 and Sp(v) < OLv(v)

                def grid():
                    for S in range(-1, 6):
                        for E in range(-1, 6):
                            for B in (0, 1, 2):
                                for L in (0, 1, 2):
                                    for t in (0, 1):
                                        for O in range(0, 7):
                                            yield dict(S=S, E=E, B=B, L=L, t=t, OL=O, Elast=O, Slast=O)
                tag = f"{w},{'valid' if valid else 'any'},{'other_lens' if given else 'inferred'}"
                for which, (elt, want, text) in enumerate((
                        (pair.elts[0], Sp, "start - lobe (symmetric, causal) else start"),
                        (pair.elts[1], Ep, "end + lobe (symmetric, future) else end"))):
                    val, mask = sel(elt)
                    try:
                        tv, tm = ex.term(val), ex.cond(mask)
                    except MM.Unknown as e:
                        nterms += 2
                        col.undecided(f"C10: 'ref' policy [{tag}] is outside the min/max-linear fragment: {e}")
                        continue
                    for key, term, spec, txt in ((("start", "end")[which] + "-bound", tv, want, text),
                                                 (("start", "end")[which] + "-kept", tm, keep, "the documented discard rules")):
                        env, g, w_, n = MM.counterexample(term, spec, grid())
                        shown = MM.showc(term) if MM.is_cond(term) else MM.show(term)
                        nterms += 1
                        col.ob("G12", "S8", f"{rel}::slice_spect_data::ref-policy[{tag}]::{key}", env is None,
                               f"under policy='ref' [{tag}] the {key} is `{shown[:300]}`; the documentation requires {txt}; "
                               f"they differ e.g. at {env}: {g} vs {w_}", rel, getattr(elt, "lineno", sl.line),
                               sample=dict(term=shown[:200], grid_points=n))
    col.count("ref_policy_terms", nterms)
    col.floor("ref_policy_terms", nterms, 48)


def _fixed_policy(ctx: Ctx, sl):
    """S9: slice_spect_data specialised for policy='fixed' x window type x valid-only x in_lens given?; the k-th
    generated window (start, end) and the condition under which it is returned, as terms over (T, lobe, len, k), must
    agree with the documented rule. With in_lens omitted every sequence has length T, so the result must be the one
    obtained with in_lens = T."""
    from sa import minmax as MM
    from sa.defuse import ReachingDefs
    from sa.specialise import NOT_NONE, specialise
    from rules.boundary import _is_time_extent_def
    col = ctx.col
    rel = sl.module.relname
    inp = sl.params[0].name
    n_ob = 0
    for w in ("symmetric", "causal", "future"):
        for valid in (True, False):
            for given in (True, False):
                known = {"policy": "fixed", "window_type": w, "valid_only": valid, "in_lens": NOT_NONE if given else None}
                node, folded = specialise(sl.node, known, allow_reassigned=("in_lens",))
                if folded < 4:
                    raise AnalysisError(f"C10: only {folded} option tests of slice_spect_data could be folded (fixed policy)")
                rd = ReachingDefs(node)

                def leaf_of_def(d):
                    if d.kind == "param":
                        return {"lobe_size": "B", "in_lens": "L"}.get(d.name)
                    if _is_time_extent_def(d, inp):
                        return "T"
                    return None
                ex = MM.Extractor(rd, leaf_of_def, lambda e: None)
                ex.index_leaf = "k"
                rets = [n for n in ast.walk(node) if isinstance(n, ast.Return) and isinstance(n.value, ast.Tuple)
                        and len(n.value.elts) == 2 and all(isinstance(x, ast.Name) for x in n.value.elts)]
                if len(rets) != 1:
                    raise AnalysisError(f"C10: specialised slice_spect_data (fixed) has {len(rets)} (slices, sources) returns")
                tag = f"{w},{'valid' if valid else 'any'},{'in_lens' if given else 'no in_lens'}"
                e = rets[0].value.elts[0]
                mask = None
                try:
                    ds = list(rd.defs_of(e))
                    if len(ds) != 1:
                        raise MM.Unknown(f"{len(ds)} definitions of the returned slices")
                    v = ds[0].value
                    if isinstance(v, ast.Subscript) and isinstance(v.value, ast.Name):
                        mask = v.slice
                        ds = list(rd.defs_of(v.value))
                        if len(ds) != 1:
                            raise MM.Unknown("masked slices have several definitions")
                        v = ds[0].value
                    while isinstance(v, ast.Call) and isinstance(v.func, ast.Attribute) and v.func.attr in ("flatten", "contiguous"):
                        v = v.func.value
                    if not (isinstance(v, ast.Call) and call_name(v) == "torch.stack" and isinstance(v.args[0], (ast.List, ast.Tuple))
                            and len(v.args[0].elts) == 2):
                        raise MM.Unknown(f"slices are `{u(v)[:50]}`, not a stack of (starts, ends)")
                    ts, te = ex.term(v.args[0].elts[0]), ex.term(v.args[0].elts[1])
                    tm = ex.cond(mask) if mask is not None else None
                except MM.Unknown as ex_:
                    n_ob += 3
                    col.undecided(f"C10: 'fixed' policy [{tag}]: {ex_}")
                    continue
                cons = list(ex.constraints)
                W = (lambda v: 2 * v["B"] + 1) if w == "symmetric" else (lambda v: v["B"] + 1)

                def start(v):
                    sh = v["B"] + 1
                    if valid or w == "future":
                        return v["k"] * sh
                    if w == "symmetric":
                        return (v["B"] + 1) // 2 - W(v) // 2 + v["k"] * sh
                    return -v["B"] + v["k"] * sh

                def end(v): return start(v) + W(v)

                def kept(v):
                    Lr = v["L"] if given else v["T"]
                    if valid:
                        return end(v) <= Lr
                    mid = start(v) + W(v) // 2 if w == "symmetric" else (end(v) - 1 if w == "causal" else start(v))
                    return mid < Lr

                def grid():
                    for T in range(1, 10):
                        for B in range(0, 4):
                            for L in (range(0, T + 1) if given else (T,)):
                                for k in range(0, 11):
                                    yield dict(T=T, B=B, L=L, k=k)
                kterm = None
                for c in cons:
                    kterm = c if kterm is None else ("and", kterm, c)
                if tm is not None:
                    kterm = tm if kterm is None else ("and", kterm, tm)
                if kterm is None:
                    n_ob += 3
                    col.undecided(f"C10: 'fixed' policy [{tag}]: no generating index range found")
                    continue
                # bounds only matter for generated windows
                gen = [g for g in grid() if MM.evc(kterm, g) or kept(g)]
                for key, term, spec, txt in (("start", ts, start, "k * (lobe + 1) plus the documented initial offset"),
                                             ("end", te, end, "start + window size"),
                                             ("kept", kterm, kept, "fits fully (valid-only) / middle index before the end of the sequence")):
                    n_ob += 1
                    env, g_, w_, n = MM.counterexample(term, spec, gen if key != "kept" else grid())
                    shown = MM.showc(term) if MM.is_cond(term) else MM.show(term)
                    col.ob("G12", "S9", f"{rel}::slice_spect_data::fixed-policy[{tag}]::{key}", env is None and n > 0,
                           f"under policy='fixed' [{tag}] the k-th window's {key} is `{shown[:260]}`; the documentation "
                           f"requires {txt} (with in_lens omitted, the result for in_lens = T); they differ e.g. at {env}: "
                           f"{g_} vs {w_}", rel, rets[0].lineno, sample=dict(term=shown[:200], grid_points=n))
    col.count("fixed_policy_terms", n_ob)
    col.floor("fixed_policy_terms", n_ob, 36)


def _driver_passes_feature_length(ctx: Ctx):
    """S10: for the 'ref' policy the slicer needs the length of the feature sequence (`other_lens`) to decide which windows
    are valid; left out, it is inferred from the *last listed token's end*, which is -1 when that token has no boundaries and
    is not the sequence length in general. The chunking worker has the features at hand, so its ref-policy call must pass
    their length."""
    from sa.defuse import ReachingDefs
    col, pkg, res = ctx.col, ctx.pkg, ctx.res
    work = pkg.func("command_line::_chunk_torch_spect_data_dir_do_work")
    rd = ReachingDefs(work.node)
    fwd = pkg.func("_feats::SliceSpectData.forward")
    names = [p.name for p in fwd.params]  # self, input, in_lens, other_lens
    calls = []
    for c in own_calls(work.node):
        if isinstance(c.func, ast.Name) and c.args:
            ds = rd.derives(c.args[0])
            loads = [u(x) for x in ds.calls() if call_name(x) == "torch.load"]
            fds = list(rd.defs_of(c.func))
            direct = isinstance(c.args[0], ast.Name)  # the tensor itself, not an expanded copy handed to a chunker
            is_slicer = bool(fds) and all(d.kind == "assign" and isinstance(d.value, ast.Call) and call_name(d.value).endswith("SliceSpectData")
                                          for d in fds)
            if any("ref" in l for l in loads) and is_slicer and direct:
                calls.append(c)
    if len(calls) != 1:
        raise AnalysisError(f"C10: expected one slicer call on the references in the chunk worker, found {len(calls)}")
    c = calls[0]
    other = c.args[2] if len(c.args) >= 3 else kwarg(c, names[3] if len(names) > 3 else "other_lens")
    ok = False
    if other is not None:
        d = rd.derives(other)
        txt = " ".join(u(x) for x in d.nodes()) + " " + u(other)
        ok = any("feat" in l for l in [u(x) for x in d.calls() if call_name(x) == "torch.load"]) or "feats" in txt
    col.ob("G1", "S10", "command_line.py::_chunk_torch_spect_data_dir_do_work::ref-policy-slicer-gets-the-feature-length", ok,
           f"the worker calls `{u(c)}` for the 'ref' policy without the feature length: other_lens is then taken from the last "
           f"token's end frame, so a transcript whose last token lacks boundaries yields no chunks at all, and windows between the "
           f"last token's end and the true end of the features are wrongly judged invalid", "command_line.py", c.lineno)


def pm_of(f):
    pm = getattr(f, "_pm", None)
    if pm is None:
        pm = parent_map(f.node)
        f._pm = pm
    return pm



def _lobe_clamp_exact(ctx: Ctx, sl):
    """S11 (ali policy, valid_only): with a total lobe reach of E segments the windows are the NN - E index pairs (i, i + E)
    that exist, none when E >= NN. The code takes `x[: NN - offs]` with offs = min(E, C): for the count to be max(NN - E, 0)
    the clamp C must be exactly the segment count NN - a smaller clamp turns 'no window fits' into min(NN - C, ...) spurious
    windows spanning fewer segments than requested (a larger one makes the stop negative: rule G28)."""
    col = ctx.col
    rel = sl.module.relname
    rd = ReachingDefs(sl.node)
    nz = Normalizer()
    sites = []
    # the clamped reach stays a name (it is what the rule is about); a named stop `num_kept = NN - offs` is looked through
    from sa.inline import Inliner as _InlLC
    clamped_names = {d.name for d in rd.defs if d.kind == "assign" and isinstance(d.value, ast.Call) and call_name(d.value) == "min"}
    cap_names = {x.id for d in rd.defs if d.kind == "assign" and isinstance(d.value, ast.Call) and call_name(d.value) == "min"
                 for x in ast.walk(d.value) if isinstance(x, ast.Name)}
    inl_lc = _InlLC(sl.node, rd, keep=clamped_names | cap_names)
    for n in own_nodes(sl.node):
        if not isinstance(n, ast.Subscript) or not isinstance(n.slice, ast.Slice) or n.slice.lower is not None or n.slice.upper is None:
            continue
        up = inl_lc.expand(n.slice.upper)
        if not (isinstance(up, ast.BinOp) and isinstance(up.op, ast.Sub) and isinstance(up.right, ast.Name)):
            continue
        n = ast.copy_location(ast.Subscript(value=n.value, slice=ast.Slice(lower=None, upper=up, step=None), ctx=ast.Load()), n)
        for d in rd.defs_of(up.right):
            v = d.value
            if d.kind == "assign" and isinstance(v, ast.Call) and call_name(v) == "min" and len(v.args) == 2:
                caps = [a for a in v.args if linear_equal(a, up.left, nz)]
                near = [a for a in v.args if {x.id for x in ast.walk(a) if isinstance(x, ast.Name)} & {x.id for x in ast.walk(up.left) if isinstance(x, ast.Name)}]
                if near:
                    sites.append((n, d, bool(caps), u(near[0])))
    seen = {}
    for n, d, ok, cap in sites:
        seen.setdefault((d.line, cap), (n, d, ok, cap))
    for (_, cap), (n, d, ok, _) in sorted(seen.items()):
        col.ob("G12", "S11", f"{rel}::slice_spect_data::lobe-reach-clamped-at-the-segment-count", ok,
               f"`{u(d.stmt)[:80]}` clamps the lobe reach at `{cap}` but `{u(n)[:40]}` takes `{u(n.slice.upper)}` entries: when the "
               f"lobes reach past all segments the clamp leaves {u(n.slice.upper.left)} - ({cap}) windows although none fits "
               f"(valid_only promises every window has its full lobes inside one sequence)", rel, d.line, sample=dict(clamp=cap, stop=u(n.slice.upper)))
    col.floor("lobe_clamp_sites", len(seen), 1)


def _slices_table(ctx: Ctx, sl, rel: str) -> dict:
    """slice_spect_data interpreted over exact values (sa/interp.py + sa/teval.py; nothing is run) for each policy and compared with the
    windows the documentation prescribes:

      fixed  windows of 1 + lobe (1 + 2 lobe when symmetric) frames every lobe + 1 frames; valid_only: from 0, as many as fit in T;
             otherwise first offsets (lobe+1)//2 - W//2 / -lobe / 0; a window of sequence n is kept iff its middle index (start +
             W//2 / last / first) lies before in_lens[n]  [valid_only: last index]
      ali    segment m of a sequence = a maximal run of equal labels within its length; window m = start of segment m - lobe
             (symmetric, causal) .. end of segment m + lobe (symmetric, future); a missing neighbour drops the window under
             valid_only and is replaced by the furthest existing one otherwise
      ref    start - lobe (symmetric, causal), end + lobe (symmetric, future); dropped: beyond in_lens, a negative stored boundary,
             start >= end after padding, valid_only: start < 0 or end > other_lens, otherwise: end <= 0 or start >= other_lens;
             other_lens defaults to the end of the last segment within in_lens (0 for an empty sequence)

    Returns {policy: decided?}; an undecided policy falls back to the symbolic clauses."""
    import numpy as np
    from sa.interp import Interp
    from sa.inteval import NotEvaluable
    from sa.teval import frac_array
    col = ctx.col
    f = sl
    where = f"{rel}::{f.qualname}"
    names = [a.arg for a in f.node.args.args]

    def run(**kw):
        env = {a: None for a in names}
        env.update(kw)
        kind, got = Interp(tensors=True).run(f.node, env)
        if kind != "return" or not (isinstance(got, tuple) and len(got) == 2):
            return ("raise", got)
        return [[int(z) for z in r_] for r_ in np.asarray(got[0]).reshape(-1, 2).tolist()], [int(z) for z in np.asarray(got[1]).tolist()]

    def want_fixed(T, lens, wt, vo, l):
        shift = l + 1
        wins = []
        if vo and wt == "symmetric":
            W = 2 * l + 1
            wins = [(s_, s_ + W, s_ + W - 1) for s_ in range(0, max(T - W + 1, 0), shift)]
        elif wt == "symmetric":
            W = 2 * l + 1
            half = shift // 2
            k = 0
            while k * shift + half < T:
                mid = k * shift + half
                wins.append((mid - W // 2, mid - W // 2 + W, mid))
                k += 1
        elif vo:
            wins = [(s_, s_ + shift, s_ + shift - 1) for s_ in range(0, max(T - l, 0), shift)]
        elif wt == "causal":
            wins = [(s_, s_ + shift, s_ + shift - 1) for s_ in range(-l, T - l, shift)]
        else:
            wins = [(s_, s_ + shift, s_) for s_ in range(0, T, shift)]
        sl_, so_ = [], []
        for n_, L_ in enumerate(lens):
            for a, b, mid in wins:
                if L_ > mid:
                    sl_.append([a, b])
                    so_.append(n_)
        return sl_, so_

    def want_ali(rows, lens, wt, vo, l):
        sl_, so_ = [], []
        for n_, (row, L_) in enumerate(zip(rows, lens)):
            row = row[:L_]
            segs = []
            for t_, v_ in enumerate(row):
                if t_ == 0 or row[t_ - 1] != v_:
                    segs.append([t_, t_ + 1])
                else:
                    segs[-1][1] = t_ + 1
            for m in range(len(segs)):
                lo = m - l if wt in ("symmetric", "causal") else m
                hi = m + l if wt in ("symmetric", "future") else m
                if vo and (lo < 0 or hi > len(segs) - 1):
                    continue
                sl_.append([segs[max(lo, 0)][0], segs[min(hi, len(segs) - 1)][1]])
                so_.append(n_)
        return sl_, so_

    def want_ref(refs, lens, others, wt, vo, l):
        sl_, so_ = [], []
        for n_, (seq, L_) in enumerate(zip(refs, lens)):
            other = others[n_] if others is not None else (seq[L_ - 1][2] if L_ > 0 else 0)
            for t_, (_, a, b) in enumerate(seq):
                if t_ >= L_ or a < 0 or b < 0:
                    continue
                a2 = a - l if wt in ("symmetric", "causal") else a
                b2 = b + l if wt in ("symmetric", "future") else b
                if a2 >= b2:
                    continue
                if vo and (a2 < 0 or b2 > other):
                    continue
                if not vo and (b2 <= 0 or a2 >= other):
                    continue
                sl_.append([a2, b2])
                so_.append(n_)
        return sl_, so_
    decided = {}
    ali_rows = [[1, 1, 1, 1, 2, 2, 2, 1, 5, 5], [3, 3, 4, 4, 4, 4, 0, 0, 0, 0], [7, 7, 7, 7, 7, 7, 7, 7, 7, 7]]
    ref_rows = [[[1, 0, 0], [2, 2, 3], [3, 5, 9], [4, -1, 2], [5, 8, 12]], [[6, 1, 4], [7, 4, 4], [8, 6, 7], [9, 9, 11], [10, 3, -1]]]
    for policy in ("fixed", "ali", "ref"):
        bad, n_rows = None, 0
        try:
            for wt in ("symmetric", "causal", "future"):
                for vo in (True, False):
                    if policy == "fixed":
                        for l in (0, 1, 2, 3):
                            for T_ in (8, 7):
                                for lens in ([T_, 5, 0], None):
                                    got = run(input=frac_array(np.zeros((3, T_, 1), dtype=int).tolist()), in_lens=frac_array(lens) if lens else None,
                                              policy=policy, window_type=wt, valid_only=vo, lobe_size=l)
                                    want = want_fixed(T_, lens or [T_, T_, T_], wt, vo, l)
                                    n_rows += 1
                                    if got != want and bad is None:
                                        bad = (dict(window_type=wt, valid_only=vo, lobe_size=l, in_lens=lens, T=T_), got, want)
                    elif policy == "ali":
                        for l in (0, 1, 2, 5):
                            for lens in ([10, 6, 10], None):
                                got = run(input=frac_array(ali_rows), in_lens=frac_array(lens) if lens else None, policy=policy, window_type=wt,
                                          valid_only=vo, lobe_size=l)
                                want = want_ali(ali_rows, lens or [10, 10, 10], wt, vo, l)
                                n_rows += 1
                                if got != want and bad is None:
                                    bad = (dict(window_type=wt, valid_only=vo, lobe_size=l, in_lens=lens, alignments=ali_rows), got, want)
                            # (a batch of one sequence: lobes reaching past ALL segments of the batch)
                            for one in ([ali_rows[0]], [ali_rows[2]]):
                                got = run(input=frac_array(one), in_lens=None, policy=policy, window_type=wt, valid_only=vo, lobe_size=l)
                                want = want_ali(one, [10], wt, vo, l)
                                n_rows += 1
                                if got != want and bad is None:
                                    bad = (dict(window_type=wt, valid_only=vo, lobe_size=l, in_lens=None, alignments=one), got, want)
                    else:
                        for l in (0, 2):
                            for lens in ([5, 3], None):
                                for others in ([10, 7], None):
                                    got = run(input=frac_array(ref_rows), in_lens=frac_array(lens) if lens else None,
                                              other_lens=frac_array(others) if others else None, policy=policy, window_type=wt, valid_only=vo, lobe_size=l)
                                    want = want_ref(ref_rows, lens or [5, 5], others, wt, vo, l)
                                    n_rows += 1
                                    if got != want and bad is None:
                                        bad = (dict(window_type=wt, valid_only=vo, lobe_size=l, in_lens=lens, other_lens=others, refs=ref_rows), got, want)
        except NotEvaluable as e:
            col.undecided(f"{where}: policy {policy!r} is outside the interpreted fragment ({e})") if False else None
            decided[policy] = False
            continue
        decided[policy] = True
        col.floor(f"slices_table_rows[{policy}]", n_rows, 20)
        col.ob("G12", {"fixed": "S9", "ali": "S11", "ref": "S8"}[policy], f"{where}::slices-table[{policy}]", bad is None,
               (f"under policy={policy!r} with {bad[0]} the function returns (slices, sources) = {str(bad[1])[:160]}; the documented windows are "
                f"{str(bad[2])[:160]}") if bad else "", rel, f.line, sample=dict(rows=n_rows))
    return decided


def _chunk_tokens_table(ctx: Ctx, ch, rel: str) -> bool:
    """S4 as a table: chunk_token_sequences_by_slices interpreted over exact values (sa/interp.py + sa/teval.py; nothing is run) for
    two sequences of five tokens - inside the slice, straddling its start, straddling its end, touching it from outside, with a
    missing (-1) boundary, with end < start, beyond the given length - under partial / full overlap, lengths given / omitted, and
    retain on / off. Documented: a token is kept iff it lies within the length, both boundaries are known, end >= start, and it
    overlaps (partial) / is contained in (otherwise) its sequence's slice; kept tokens come first, in order, and their number is
    the reported length. (With retain=False only the kept ids and the lengths are compared: the shifted boundaries are the subject
    of a known finding.)"""
    import numpy as np
    from sa.interp import Interp
    from sa.inteval import NotEvaluable
    from sa.teval import frac_array
    col = ctx.col
    where = f"{rel}::{ch.qualname}"
    refs = [[[10, 2, 5], [11, 0, 3], [12, 6, 9], [13, -1, 4], [14, 7, 6], [15, 4, 4]],
            [[20, 0, 2], [21, 2, 8], [22, 8, 9], [23, 3, -1], [24, 5, 7], [25, 1, 3]]]
    slices = [[2, 7], [2, 8]]
    lens = [6, 5]
    names = [a.arg for a in ch.node.args.args]
    bad, n_rows = None, 0
    try:
        for partial in (True, False):
            for use_lens in (True, False):
                for retain in (True, False):
                    it = Interp(tensors=True, lenient=False)
                    env = {a: None for a in names}
                    env.update({names[0]: frac_array(refs), names[1]: frac_array(slices)})
                    env.update(ref_lens=frac_array(lens) if use_lens else None, partial=partial, retain=retain)
                    kind, got = it.run(ch.node, env)
                    n_rows += 1
                    want = []
                    for n_ in range(2):
                        s0, s1 = slices[n_]
                        L_ = lens[n_] if use_lens else 6
                        kept = []
                        for r_, (tok, a, b) in enumerate(refs[n_]):
                            if r_ >= L_ or a < 0 or b < 0 or b < a:
                                continue
                            if (s0 < b and s1 > a) if partial else (s0 <= a and s1 >= b):
                                kept.append([tok, a, b])
                        want.append(kept)
                    ok = kind == "return" and isinstance(got, tuple) and len(got) == 2
                    if ok:
                        gc, gl = np.asarray(got[0]), [int(x) for x in np.asarray(got[1]).tolist()]
                        ok = gl == [len(k_) for k_ in want]
                        for n_ in range(2):
                            if not ok:
                                break
                            rows = [[int(x) for x in r_] for r_ in gc[n_, :len(want[n_])].tolist()]
                            ok = [r_[0] for r_ in rows] == [k_[0] for k_ in want[n_]] and (not retain or rows == want[n_])
                    if not ok and bad is None:
                        bad = (partial, use_lens, retain, got if kind == "return" else f"raise {got}", want)
    except NotEvaluable as e:
        col.undecided(f"{where}: the token chunker is outside the interpreted fragment ({e})")
        return False
    col.floor("chunk_tokens_table_rows", n_rows, 8)

    def _show(v):
        if isinstance(v, tuple) and len(v) == 2 and hasattr(v[1], "tolist"):
            return f"lengths {[int(x) for x in np.asarray(v[1]).tolist()]}, first rows {[[int(x) for x in r_] for r_ in np.asarray(v[0])[0].tolist()][:4]}"
        return str(v)[:120]
    col.ob("G12", "S4", f"{where}::kept-tokens-table", bad is None,
           (f"with partial={bad[0]}, ref_lens {'given' if bad[1] else 'omitted'}, retain={bad[2]} the chunker returns {_show(bad[3])} for the reference tokens "
            f"and slices {slices}; documented (within the length, both boundaries known, end >= start, "
            f"{'overlapping' if bad[0] else 'contained in'} the slice; kept tokens first, in order): {bad[4]}") if bad else "", rel, ch.line,
           sample=dict(rows=n_rows))
    return True


def _mutants():
    from selftest.mutate import Mutant as M
    F = "_feats.py"
    C = "command_line.py"
    return [
        M("ref-policy-without-feature-length", "command_line.py", "slices, _ = slicer(refs, None, torch.tensor([feats.size(1)]))", "slices, _ = slicer(refs)", "ref-policy-slicer-gets-the-feature-length"),
        M("lobe-clamp-one-short", "_feats.py", "offs = min((int(do_left) + int(do_right)) * lobe_size, NN)", "offs = min((int(do_left) + int(do_right)) * lobe_size, NN - 1)", "slices-table[ali]"),
        M("exclusion-only-with-ref-lens", "_feats.py", "        mask = ref_lens.unsqueeze(1) > arange\n    mask = mask & (refs[..., 1:] >= 0).all(2) & (refs[..., 2] >= refs[..., 1])", "        mask = ref_lens.unsqueeze(1) > arange\n        mask = mask & (refs[..., 1:] >= 0).all(2) & (refs[..., 2] >= refs[..., 1])", "kept-tokens-table"),
        M("lobe-reaches-past-the-segments", "_feats.py", "offs = min((int(do_left) + int(do_right)) * lobe_size, NN)", "offs = (int(do_left) + int(do_right)) * lobe_size", "slices-table[ali]"),
        M("repaired:boundaries-relative-to-slice-start", "_feats.py", "chunked[..., 1:] += slices[..., 0].view(N, 1, 1).expand(N, R, 2)", "chunked[..., 1:] -= slices[..., 0].view(N, 1, 1).expand(N, R, 2)", "", twin=True),
        M("gather-after-indexing-away", F, ".gather(1, (in_lens - 1).clamp_min_(0).view(N, 1))", ".select(1, 0).gather(1, (in_lens - 1).clamp_min_(0).view(N, 1))",
          "dimension-within-known-rank"),
        M("ends-gather-on-column", F, "ends.gather(1, (in_lens - 1)", "ends[..., 1].gather(1, (in_lens - 1)", "dimension-within-known-rank"),
        M("size-dim-3", F, "if input.size(2) != 3:", "if input.size(3) != 3:", "dimension-within-known-rank"),
        M("return-arity-three", F, "return (torch.empty(0, 2, dtype=torch.long, device=device), torch.empty(0, dtype=torch.long, device=device))",
          "return (torch.empty(0, 2, dtype=torch.long, device=device), torch.empty(0, dtype=torch.long, device=device), torch.empty(0, dtype=torch.long, device=device))",
          "return-arity"),
        M("containment-to-overlap", F, "mask = mask & (slices[..., :1] <= refs[..., 1]) & (slices[..., 1:] >= refs[..., 2])",
          "mask = mask & (slices[..., :1] <= refs[..., 2]) & (slices[..., 1:] >= refs[..., 1])", "kept-tokens-table"),
        M("overlap-inclusive", F, "(slices[..., :1] < refs[..., 2]) & (slices[..., 1:] > refs[..., 1])",
          "(slices[..., :1] <= refs[..., 2]) & (slices[..., 1:] > refs[..., 1])", "kept-tokens-table"),
        M("partial-branches-swapped", F, "if partial:\n        mask = mask & (slices[..., :1] < refs[..., 2])", "if not partial:\n        mask = mask & (slices[..., :1] < refs[..., 2])",
          "kept-tokens-table"),
        M("shift-under-retain", F, "if not retain:\n        chunked[..., 1:]", "if retain:\n        chunked[..., 1:]", "boundary-shift::columns+guard"),
        M("shift-token-column-too", F, "chunked[..., 1:] += slices[..., 0].view(N, 1, 1).expand(N, R, 2)", "chunked[..., 0:] += slices[..., 0].view(N, 1, 1).expand(N, R, 3)",
          "boundary-shift::columns+guard"),
        M("policy-arm-lost", F, "elif policy == 'ali':", "elif policy == 'alignment':", "G8/S2"),
        M("choices-differ", C, "choices=['fixed', 'ali', 'ref']", "choices=['fixed', 'ali']", "choices(policy)"),
        M("worker-valid-only-inverted", C, "SliceSpectData(policy, window_type, pad_mode is None, lobe_size)", "SliceSpectData(policy, window_type, pad_mode is not None, lobe_size)",
          "pad-mode-decides-valid_only-and-chunker-mode"),
        M("worker-partial-retain-swapped", C, "ChunkTokenSequencesBySlices(partial_tokens, retain_token_boundaries)", "ChunkTokenSequencesBySlices(retain_token_boundaries, partial_tokens)",
          "ChunkTokenSequencesBySlices("),
        M("refs-cut-with-feat-lens", C, "torch.save(refs[n, :ref_lens[n]], os.path.join(out_ref_dir, out_basename))", "torch.save(refs[n, :lens[n]], os.path.join(out_ref_dir, out_basename))",
          "save(ref)"),
        M("alis-into-ref-dir", C, "torch.save(alis[n, :lens[n]], os.path.join(out_ali_dir, out_basename))", "torch.save(alis[n, :lens[n]], os.path.join(out_ref_dir, out_basename))",
          "save(ali)"),
        M("out-basename-no-prefix", C, "out_basename = file_prefix + new_utt_id + file_suffix", "out_basename = new_utt_id + file_suffix", "out_basename=prefix+id+suffix"),
        M("dispatch-args-swapped", C, "options.partial_tokens, options.retain_token_boundaries, options.quiet", "options.retain_token_boundaries, options.partial_tokens, options.quiet", "G1"),
        M("twin:rename-mask", F, "chunked_lens", "kept", "", -1, twin=True),
        M("valid-end-strict", F, "mask = mask & (starts >= 0) & (ends <= other_lens.view(N, 1))", "mask = mask & (starts >= 0) & (ends < other_lens.view(N, 1))", "slices-table[ref]"),
        M("causal-pads-right", F, "if window_type in ('symmetric', 'future'):\n            ends = ends + lobe_size", "if window_type in ('symmetric', 'causal'):\n            ends = ends + lobe_size", "slices-table[ref]"),
        M("missing-boundary-kept", F, "mask = mask & (input[..., 1:] >= 0).all(2)", "mask = mask & (input[..., 1:] >= 0).any(2)", "slices-table[ref]"),
        M("length-inferred-from-padded-end", F, "other_lens = ends.gather(1,", "other_lens = (ends + lobe_size).gather(1,", "slices-table[ref]"),
        M("empty-slices-kept", F, "mask = mask & (starts < ends)", "mask = mask & (starts <= ends)", "slices-table[ref]"),
        M("ali-boundary-in-position-space", F, "arange = torch.arange(T + 1, device=device)", "arange = torch.arange(T, device=device)", "length-marked-in-boundary-space"),
        M("fixed-symmetric-count-includes-T", F, "TT = (T - half_shift + shift - 1) // shift", "TT = (T + half_shift) // shift", "slices-table[fixed]"),
        M("fixed-valid-one-window-short", F, "starts = torch.arange(0, max(T - window_size + 1, 0), shift, device=device)", "starts = torch.arange(0, max(T - window_size, 0), shift, device=device)", "slices-table[fixed]"),
        M("fixed-causal-offset", F, "starts = torch.arange(-lobe_size, T - lobe_size, shift, device=device)", "starts = torch.arange(-lobe_size, T, shift, device=device)", "slices-table[fixed]"),
        M("fixed-causal-middle-is-start", F, "starts = torch.arange(-lobe_size, T - lobe_size, shift, device=device)\n            ends = starts + shift\n            mids = ends - 1", "starts = torch.arange(-lobe_size, T - lobe_size, shift, device=device)\n            ends = starts + shift\n            mids = starts", "fixed-policy[causal,any,in_lens]::kept"),
        M("twin:commuted-conjunction", F, "mask = mask & (starts < ends)", "mask = (starts < ends) & mask", "", twin=True),
        M("twin:lobe-subtracted-by-negation", F, "starts = starts - lobe_size", "starts = starts + -lobe_size", "", twin=True),
    ]


def selftest(ctx: Ctx):
    from selftest.mutate import run_selftest
    return run_selftest("C10", ctx.pkg.repo, _mutants(), floor=24)


MANIFEST = dict(
    level_text=(
        "Static analysis (no execution) of slice_spect_data, chunk_token_sequences_by_slices and the chunking "
        "driver: a known-rank dataflow that finds dimension-naming operations outside the rank established by the "
        "function's own guards (on branches no test takes, e.g. other_lens omitted), return-arity consistency, "
        "position-kind checking of the boundary shift, comparison normal forms of the containment/overlap "
        "predicates, enum/choices table agreement, and def-use pairing of each saved chunk with its own length. "
        "For the 'ref' policy the function is specialised (option tests folded) for all 12 valuations of window type / "
        "valid-only / other_lens given, and the returned bounds and keep-mask, extracted as min/max-linear terms over "
        "(start, end, lobe, len, other_len), are compared with the documented rule at every point of a finite grid; a "
        "boundary-vs-position rule requires an index range of T + 1 wherever a length is marked by equality. "
        "The 'fixed' policy is treated the same way: the k-th generated window and the condition under which it is "
        "returned, as terms over (T, lobe, len, k), for the 12 valuations of window type / valid-only / in_lens given "
        "(omitted lengths must mean 'every sequence has length T'). All three policies (the 'ali' segment arithmetic included) and the token "
        "chunker are first decided as value tables: interpreted over exact tensors and compared with an oracle written from the documentation "
        "(240 + 8 rows); the symbolic comparison above is the fallback. Necessary conditions of C10 on a finite grid. The chunking worker's head is interpreted until both constructors are called: valid_only == (pad_mode is None) and the chunker's mode for pad_mode in {None, reflect, replicate}."),
    level_note="Trusted: python ast; torch rank semantics of the closed transformer set in rules/rank.py. F11 (gather on "
               "a rank-1 column), F21 (the 'ali' policy raised whenever a sequence fills the time axis) and F24 (an extra 'fixed' symmetric window when in_lens is omitted) were found and repaired; F5 (boundaries shifted by "
               "+ slice start) is a known finding because tests/test_feats.py encodes the same arithmetic.",
    technique="static analysis: known-rank abstract interpretation, kind checking of positions/boundaries, partial evaluation + min/max-linear term comparison with the documented rule, comparison normal forms, literal-table agreement, decision tables for the chunk worker (pad mode, policy); interpretation of slice_spect_data and chunk_token_sequences_by_slices over exact tensor values (syntax tree only) compared with the documented windows for every policy / window type / option",
    design_ref="DESIGN.md section 4 C10, section 3 G19/G14",
)
