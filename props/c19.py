"""C19 estimators / relaxed distributions: sampling modes, zero-valued surrogates and detach
discipline (G15), constructor definite assignment (G22), transposable call sites (G1/G2)."""
from __future__ import annotations

import ast
from typing import List, Optional, Tuple

from rules.initorder import init_reads_before_set
from sa.astutil import call_name, guards_of, parent_map, u
from sa.defuse import ReachingDefs
from sa.model import AnalysisError, own_calls, own_nodes
from sa.resolve import bind_args
from .common import Ctx, plumbing

SAMPLING = {  # class -> uses reparameterised sampling?
    "_mc::DirectEstimator": False,
    "_mc::ImportanceSamplingEstimator": False,
    "_mc::IndependentMetropolisHastingsEstimator": False,
    "_enumerate_estimator::EnumerateEstimator": False,
    "_mc::ReparameterizationEstimator": True,
    "_mc::StraightThroughEstimator": True,
    "_mc::RelaxEstimator": True,
}


def _terms(e: ast.AST, sign: int = 1) -> List[Tuple[int, ast.AST]]:
    if isinstance(e, ast.BinOp) and isinstance(e.op, ast.Add):
        return _terms(e.left, sign) + _terms(e.right, sign)
    if isinstance(e, ast.BinOp) and isinstance(e.op, ast.Sub):
        return _terms(e.left, sign) + _terms(e.right, -sign)
    if isinstance(e, ast.UnaryOp) and isinstance(e.op, ast.USub):
        return _terms(e.operand, -sign)
    return [(sign, e)]


def _is_detach(e: ast.AST) -> Optional[ast.AST]:
    if isinstance(e, ast.Call) and isinstance(e.func, ast.Attribute) and e.func.attr == "detach" and not e.args:
        return e.func.value
    return None


def _has_detach(e: ast.AST) -> bool:
    return any(_is_detach(n) is not None for n in ast.walk(e))


def _logprob_call(e: ast.AST, who: str = "proposal") -> bool:
    return isinstance(e, ast.Call) and isinstance(e.func, ast.Attribute) and e.func.attr in ("log_prob", "tlog_prob") \
        and u(e.func.value) == f"self.{who}"


def run(ctx: Ctx):
    col, pkg, res = ctx.col, ctx.pkg, ctx.res
    # ---- S1 sampling mode ------------------------------------------------------------------------------
    for spec, want_r in SAMPLING.items():
        ci = pkg.cls(spec)
        f = res.find_method(ci, "__call__")[0]
        rel = f.module.relname
        where = f"{rel}::{f.qualname}"
        meths = {c.func.attr for c in own_calls(f.node) if isinstance(c.func, ast.Attribute)
                 and u(c.func.value) == "self.proposal" and c.func.attr in ("sample", "rsample", "enumerate_support")}
        for g in res.find_method(ci, "find_initial_sample"):
            meths |= {c.func.attr for c in own_calls(g.node) if isinstance(c.func, ast.Attribute)
                      and u(c.func.value) == "self.proposal" and c.func.attr in ("sample", "rsample")}
        ok = ("rsample" in meths) == want_r and (want_r or bool(meths - {"rsample"}))
        col.ob("G15", "S1", f"{where}::sampling-mode", ok,
               f"{ci.name} draws with {sorted(meths)}; it must {'use' if want_r else 'never use'} rsample (a "
               f"reparameterised draw adds a pathwise gradient the score-function estimators do not account for)",
               rel, f.line, sample=sorted(meths))

    # ---- S2/S3 zero-valued surrogates and score-function coefficient ------------------------------
    n_sur = n_sf = 0
    for spec in SAMPLING:
        ci = pkg.cls(spec)
        f = res.find_method(ci, "__call__")[0]
        rel = f.module.relname
        where = f"{rel}::{f.qualname}"
        rd = ReachingDefs(f.node)
        rets = [st for st, _ in rd.return_envs]
        if not rets:
            raise AnalysisError(f"C19: {f.key} has no return")
        reach = set()
        for st in rets:
            der = rd.derives(st.value)
            for e in der.exprs:
                for n in ast.walk(e):
                    reach.add(id(n))
        lp_names = {d.name for d in rd.defs if d.kind == "assign" and _logprob_call(d.value)}
        # S2(a): every additive -X.detach() has +X in the same sum
        for n in own_nodes(f.node):
            val = n.value if isinstance(n, (ast.Assign, ast.Return, ast.AugAssign)) else None
            if val is None or id(val) not in reach and not isinstance(n, ast.Return):
                continue
            ts = _terms(val)
            if len(ts) < 2:
                continue
            for sg, t in ts:
                x = _is_detach(t)
                if x is None:
                    continue
                if sg > 0:
                    # value kept, gradient blocked: the remaining terms must be zero-weighted (S4 idiom)
                    others = [tt for s2, tt in ts if tt is not t]
                    okz = all(isinstance(tt, ast.BinOp) and isinstance(tt.op, ast.Mult) and (
                        u(tt.left) in ("0", "0.0") or u(tt.right) in ("0", "0.0")) for tt in others)
                    col.ob("G15", "S2", f"{where}::+{u(t)}::rest-zero-weighted", okz,
                           f"`{u(val)}` keeps the value of `{u(x)}` with its gradient blocked but adds terms that "
                           f"are not multiplied by 0", rel, n.lineno, sample=u(val))
                    continue
                n_sur += 1
                twin = any(s2 > 0 and u(tt) == u(x) for s2, tt in ts)
                col.ob("G15", "S2", f"{where}::-{u(t)}::has-twin", twin,
                       f"`{u(val)}` subtracts `{u(t)}` without adding `{u(x)}`: the surrogate is not zero-valued, "
                       f"the estimate itself is shifted", rel, n.lineno, sample=u(val))
        # S3: score-function products: other factor detached, log-prob not
        sf_names = []
        for n in own_nodes(f.node):
            if isinstance(n, ast.BinOp) and isinstance(n.op, ast.Mult) and id(n) in reach:
                for a, b in ((n.left, n.right), (n.right, n.left)):
                    core = _is_detach(a) if _is_detach(a) is not None else a
                    is_lp = (isinstance(core, ast.Name) and core.id in lp_names) or _logprob_call(core)
                    if not is_lp:
                        continue
                    n_sf += 1
                    okc = _is_detach(b) is not None
                    col.ob("G15", "S3", f"{where}::score-function-coefficient({u(n)[:50]})", okc,
                           f"in `{u(n)}` the factor multiplying the proposal's log-probability is not detached: "
                           f"the gradient gets an extra pathwise term (biased)", rel, n.lineno, sample=u(n))
                    st = pm_stmt(f, n)
                    if isinstance(st, ast.Assign) and isinstance(st.targets[0], ast.Name):
                        sf_names.append(st.targets[0].id)
            # the log-prob itself must not be detached where it is used as the score
            if isinstance(n, ast.Call) and _is_detach(n) is not None and id(n) in reach:
                x = _is_detach(n)
                if (isinstance(x, ast.Name) and x.id in lp_names) or _logprob_call(x):
                    who = spec.split("::")[1]
                    if who != "ImportanceSamplingEstimator":
                        col.ob("G15", "S3", f"{where}::log-prob-not-detached", False,
                               f"`{u(n)}` detaches the proposal's log-probability: no gradient reaches the "
                               f"distribution's parameters", rel, n.lineno, sample=u(n))
        # S2(b): each score-function term is cancelled in the returned sum
        for nm in sf_names:
            found = False
            for n in own_nodes(f.node):
                val = n.value if isinstance(n, (ast.Assign, ast.Return)) else None
                if val is None:
                    continue
                ts = _terms(val)
                has_pos = any(s > 0 and u(t) == nm for s, t in ts)
                has_neg = any(s < 0 and _is_detach(t) is not None and u(_is_detach(t)) == nm for s, t in ts)
                if has_pos or has_neg:
                    found = True
                    col.ob("G15", "S2", f"{where}::{nm}::cancelled-by-its-detached-copy", has_pos and has_neg,
                           f"`{u(val)}`: the score-function term `{nm}` must appear as `+ {nm} - {nm}.detach()` "
                           f"(value zero, gradient kept)", rel, n.lineno, sample=u(val))
            col.ob("G15", "S2", f"{where}::{nm}::reaches-the-estimate", found,
                   f"the score-function term `{nm}` never enters the returned value (no gradient w.r.t. the "
                   f"distribution's parameters)", rel, f.line)
    col.floor("surrogate_pairs", n_sur, 4)
    col.floor("score_function_products", n_sf, 2)

    # ---- S4 importance weights ----------------------------------------------------------------------------
    ci = pkg.cls("_mc::ImportanceSamplingEstimator")
    f = res.find_method(ci, "__call__")[0]
    rel = f.module.relname
    where = f"{rel}::{f.qualname}"
    rd = ReachingDefs(f.node)
    ret = [st for st, _ in rd.return_envs][-1]
    der = rd.derives(ret.value)
    uses = [n for e in der.exprs for n in ast.walk(e) if isinstance(n, ast.Name) and isinstance(n.ctx, ast.Load)]
    q_ok = p_ok = None
    for n in uses:
        for d in rd.defs_of(n):
            if d.kind == "assign" and _logprob_call(d.value, "proposal"):
                # a raw proposal log-prob may only be consumed by the detaching redefinition
                st = pm_stmt(f, n)
                is_redef = isinstance(st, ast.Assign) and any(_is_detach(t) is not None and u(_is_detach(t)) == n.id
                                                              for s, t in _terms(st.value) if s > 0)
                zero_w = _under_zero_product(f, n)
                ok = is_redef or zero_w
                q_ok = ok if q_ok is None else (q_ok and ok)
            if d.kind == "assign" and _logprob_call(d.value, "density"):
                p_ok = True if p_ok is None else p_ok
    for n in own_nodes(f.node):
        x = _is_detach(n) if isinstance(n, ast.Call) else None
        if x is not None and isinstance(x, ast.Name):
            if any(d.kind == "assign" and _logprob_call(d.value, "density") for d in rd.defs_of(x)):
                p_ok = False
    col.ob("G15", "S4", f"{where}::proposal-log-prob-gradient-blocked", bool(q_ok),
           "the proposal's log-probability reaches the importance weights undetached: the estimate's gradient gets "
           "a spurious term from the proposal", rel, f.line)
    col.ob("G15", "S4", f"{where}::density-log-prob-undetached", bool(p_ok),
           "the target density's log-probability is detached / missing: no gradient reaches the density's "
           "parameters", rel, f.line)

    # ---- S5 no_grad regions ------------------------------------------------------------------------------
    ci = pkg.cls("_mc::IndependentMetropolisHastingsEstimator")
    for mname in ("__call__", "find_initial_sample"):
        f = res.find_method(ci, mname)[0]
        rel = f.module.relname
        pm = parent_map(f.node)
        bad = []
        for c in own_calls(f.node):
            if isinstance(c.func, ast.Attribute) and c.func.attr in ("sample", "log_prob") or call_name(c) == "self.func":
                p = pm.get(c)
                inside = False
                while p is not None:
                    if isinstance(p, ast.With) and any("no_grad" in u(it.context_expr) for it in p.items):
                        inside = True
                    p = pm.get(p)
                if not inside:
                    bad.append(c)
        col.ob("G15", "S5", f"{rel}::{f.qualname}::under-no-grad", not bad,
               f"`{u(bad[0])[:60] if bad else ''}` runs outside torch.no_grad() in the Metropolis-Hastings chain",
               rel, bad[0].lineno if bad else f.line)
    ci = pkg.cls("_enumerate_estimator::EnumerateEstimator")
    f = res.find_method(ci, "__call__")[0]
    col.ob("G15", "S5", f"{f.module.relname}::{f.qualname}::detaches-nothing", not _has_detach(f.node),
           "the exact (enumeration) estimator detaches part of its computation: its gradient is no longer the exact "
           "gradient", f.module.relname, f.line)

    # ---- S5b Metropolis-Hastings: func is evaluated on this step's accepted sample -----------------------------
    f = res.find_method(pkg.cls("_mc::IndependentMetropolisHastingsEstimator"), "__call__")[0]
    rel = f.module.relname
    rdm = ReachingDefs(f.node)
    loops = [n for n in own_nodes(f.node) if isinstance(n, ast.For)]
    fcalls = [c for c in own_calls(f.node) if call_name(c) == "self.func" and c.args]
    col.floor("mh_func_calls", len(fcalls), 1)
    for c in fcalls:
        loop = next((L for L in loops if any(c is x for x in ast.walk(L))), None)
        a = c.args[0]
        ok = False
        why = "is not evaluated inside the sampling loop"
        if loop is not None and isinstance(a, ast.Name):
            inside = {id(x) for x in ast.walk(loop)}
            ds = rdm.defs_of(a)
            all_inside = bool(ds) and all(d.stmt is not None and id(d.stmt) in inside for d in ds)
            sel = all(isinstance(d.value, ast.Call) and call_name(d.value) == "torch.where" and len(d.value.args) == 3
                      and "accept" in u(d.value.args[0]) for d in ds)
            ok = all_inside and sel
            why = (f"`{a.id}` can still hold a value from before the loop / the previous step" if not all_inside
                   else f"`{a.id}` is not the accept-selected sample torch.where(accept, proposed, previous)")
        col.ob("G16", "S5", f"{rel}::{f.qualname}::func-on-this-step's-accepted-sample", ok,
               f"`{u(c)}`: {why}; the post-burn-in average would lag by one step and include the starting point",
               rel, c.lineno, sample=u(c))
    # each kept step contributes f(b) to the running total exactly once: on every path through one iteration of the sampling loop
    # the accumulator is updated from this step's value at most once (the first kept step initialises it, the later ones add)
    if loops and fcalls:
        loop0 = next((L for L in loops if any(fcalls[0] is x for x in ast.walk(L))), None)
        # the accumulator: the local the returned value is computed from after the loop
        accs = set()
        for r_ in own_nodes(f.node):
            if isinstance(r_, ast.Return) and r_.value is not None:
                accs |= {x.id for x in ast.walk(r_.value) if isinstance(x, ast.Name)} | {d.name for d in rdm.derives(r_.value).defs}
        inloop = {id(x) for x in ast.walk(loop0)} if loop0 is not None else set()
        stored_in_loop = {t.id for n in own_nodes(f.node) if id(n) in inloop and isinstance(n, (ast.Assign, ast.AugAssign))
                          for t in (n.targets if isinstance(n, ast.Assign) else [n.target]) if isinstance(t, ast.Name)}
        # this step's value: names assigned from a self.func(...) call that are not themselves the accumulator
        fb_names = set()
        for n in own_nodes(f.node):
            if isinstance(n, ast.Assign) and any(c is x for c in fcalls for x in ast.walk(n.value)):
                fb_names |= {t.id for t in n.targets if isinstance(t, ast.Name)}
        # the accumulator is read after the loop and stored in it; a name that only ever holds f(b) of one step is not it
        after_loop_reads = {x.id for n in own_nodes(f.node) if loop0 is not None and getattr(n, "lineno", 0) > loop0.end_lineno
                            for x in ast.walk(n) if isinstance(x, ast.Name) and isinstance(x.ctx, ast.Load)}
        accs = (accs & stored_in_loop & after_loop_reads)
        fb_names -= accs

        def _uses_step_value(e):
            return any(c is x for c in fcalls for x in ast.walk(e)) or any(isinstance(x, ast.Name) and x.id in fb_names for x in ast.walk(e))

        def _ev_acc(st):
            if isinstance(st, ast.Assign) and len(st.targets) == 1 and isinstance(st.targets[0], ast.Name) and st.targets[0].id in accs \
                    and _uses_step_value(st.value):
                return f"ACC({st.targets[0].id})"
            if isinstance(st, ast.AugAssign) and isinstance(st.target, ast.Name) and st.target.id in accs and _uses_step_value(st.value):
                return f"ACC({st.target.id})"
            return None
        if loop0 is not None and accs:
            from sa.paths import PathEnumerator
            ps = PathEnumerator(_ev_acc, keep_all_ifs=True, exc_edges=False).paths(loop0.body)
            worst = max((sum(1 for l in p.labels() if l.startswith("ACC")) for p in ps), default=0)
            some = any(any(l.startswith("ACC") for l in p.labels()) for p in ps)
            col.ob("G16", "S5", f"{rel}::{f.qualname}::each-kept-step-counted-once", some and worst == 1,
                   f"one iteration of the sampling loop can add this step's value to the running total {worst} times (e.g. initialise it "
                   f"at the first kept step and then add the same value again): the first kept sample is weighted twice and the "
                   f"estimate is (2 f_1 + f_2 + ... + f_K) / K", rel, loop0.lineno, sample=dict(paths=len(ps), max_updates=worst))
    # the chain advances with this step's sample and ratio
    # the chain state carried to the next step: (accept-selected sample, its ratio)
    okcarry = False
    if loops and fcalls and isinstance(fcalls[0].args[0], ast.Name):
        cur = fcalls[0].args[0].id
        for n in own_nodes(f.node):
            if isinstance(n, ast.Assign) and isinstance(n.targets[0], ast.Tuple) and isinstance(n.value, ast.Tuple) \
                    and len(n.value.elts) == 2 and u(n.value.elts[0]) == cur and any(n is x for L in loops for x in ast.walk(L)):
                # the carried sample variable is the `previous` operand of the where-selection
                prevs = {u(d.value.args[2]) for d in rdm.defs if d.name == cur and isinstance(d.value, ast.Call)
                         and call_name(d.value) == "torch.where" and len(d.value.args) == 3}
                okcarry = u(n.targets[0].elts[0]) in prevs
    col.ob("G16", "S5", f"{rel}::{f.qualname}::chain-carries-(sample, ratio)", okcarry,
        "the chain state carried to the next step is not (this step's sample, this step's ratio)", rel, f.line)

    # ---- S7 sibling agreement: probs<->logits conversions of one distribution use the same parameterisation -------
    n_pairs = 0
    for mname in ("_straight_through", "_combinatorics", "_mc"):
        for ci in pkg.module(mname).classes.values():
            vals = {}
            for fl in ci.methods.values():
                for m in fl:
                    for c in own_calls(m.node):
                        if call_name(c) in ("logits_to_probs", "probs_to_logits"):
                            kw = [u(k.value) for k in c.keywords if k.arg == "is_binary"]
                            vals.setdefault(call_name(c), set()).add(kw[0] if kw else "<absent>")
            if len(vals) == 2:
                n_pairs += 1
                allv = set().union(*vals.values())
                col.ob("G13", "S7", f"{ci.module.relname}::{ci.name}::probs<->logits::same-is_binary", len(allv) == 1,
                       f"{ci.name} converts with {({k: sorted(v) for k, v in vals.items()})}: logits_to_probs and "
                       f"probs_to_logits are inverses only under the same is_binary; a sigmoid/softmax mix-up makes "
                       f"`probs` inconsistent with `logits`", ci.module.relname, ci.node.lineno,
                       sample={k: sorted(v) for k, v in vals.items()})
    col.floor("probs_logits_pairs", n_pairs, 2)

    # ---- S5' constructor definite assignment -----------------------------------------------------------------
    n_init = 0
    for f in ctx.owned():
        if f.name != "__init__" or f.cls is None or f.parent is not None:
            continue
        n_init += 1
        rel = f.module.relname
        bads = init_reads_before_set(res, f)
        col.ob("G22", "S5'", f"{rel}::{f.qualname}::reads-before-initialisation", not bads,
               (f"`self.{bads[0][0]}` is read before it is assigned and before super().__init__() on the path "
                f"{bads[0][2]}: AttributeError whenever that branch is taken") if bads else "", rel,
               bads[0][1].lineno if bads else f.line, sample=[b[0] for b in bads] or "all reads dominated")
    col.floor("constructors_checked", n_init, 12)

    # ---- S6 transposable call sites --------------------------------------------------------------------------
    srs = pkg.func("_combinatorics::simple_random_sampling_without_replacement")
    n_srs = 0
    for f in pkg.all_functions():
        for c in own_calls(f.node):
            r = res.resolve_call(c, f)
            if r and r[0][0] is srs:
                n_srs += 1
                b = bind_args(c, srs, False)
                got = {p.name: u(a) for p, a, _ in b.pairs}
                # positional arguments named like another formal are caught by G1; here: by role
                tot, giv = got.get("total_count"), got.get("given_count")
                ok = tot is not None and giv is not None and "given" not in tot and "total" not in giv
                col.ob("G1", "S6", f"{f.module.relname}::{f.qualname}::simple_random_sampling_without_replacement(total,given)",
                       ok, f"total_count<-{tot}, given_count<-{giv}", f.module.relname, c.lineno, sample=got)
    col.floor("srswor_call_sites", n_srs, 1)
    # ---- S8 conditional relaxed density: -inf exactly where threshold(z) differs from b as an *event* ----------------
    _clog_prob_masks(ctx)
    _threshold_surrogate_is_exact(ctx)
    _estimate_rank(ctx)
    _score_term_reads_the_corrected_integrand(ctx)
    _both_parameterisations_normalised(ctx)
    _either_representation_alias_is_metadata_only(ctx)
    _categorical_tlog_prob_table(ctx)
    _expand_copies_each_parameter_from_itself(ctx)
    _chain_carry_over_uses_the_per_chain_decision(ctx)
    _chain_average_table(ctx)
    _callback_results_not_mutated(ctx)
    _unbiased_defaults_and_exact_tables(ctx)
    plumbing(ctx, "S6")
    return dict(
        explanation=(
            "Decides for C19: (S1) which estimators draw reparameterised samples; (S2) every additive "
            "-X.detach() has its +X twin and every score-function term enters the estimate as +T - T.detach(); "
            "(S3) the coefficient of the proposal's log-probability is detached and the log-probability is not; "
            "(S4) in importance sampling the proposal's log-probability only reaches the weights detached (plus a "
            "zero-weighted term), the density's undetached; (S5) the Metropolis-Hastings chain and its initial-sample "
            "search run under no_grad, the enumeration estimator detaches nothing; (S5') no constructor reads an "
            "attribute before it is assigned / before super().__init__ [F15, repaired]; (S6) call sites of the "
            "transposable (total, given) pair. NOT decided: exact unbiasedness, relaxed densities, cardinality of "
            "samples (numerical)."),
        decided=["S1", "S2", "S3", "S4", "S5", "S5'", "S6"],
        not_decided=["exact unbiasedness of value and gradient", "relaxed density factorisation",
                     "threshold(csample(b)) == b", "support / normalisation of distributions"],
        assumptions=["torch autograd semantics of detach / no_grad", "docstring formulas of the estimators as oracle"],
    )


def pm_stmt(f, node):
    pm = getattr(f, "_pm", None)
    if pm is None:
        pm = parent_map(f.node)
        f._pm = pm
    n = node
    while n is not None and not isinstance(n, ast.stmt):
        n = pm.get(n)
    return n


def _under_zero_product(f, node) -> bool:
    pm = getattr(f, "_pm", None) or parent_map(f.node)
    f._pm = pm
    n = node
    while n is not None and not isinstance(n, ast.stmt):
        p = pm.get(n)
        if isinstance(p, ast.BinOp) and isinstance(p.op, ast.Mult):
            other = p.right if p.left is n else p.left
            if u(other) in ("0", "0.0"):
                return True
        n = p
    return False


def _clog_prob_masks(ctx: Ctx):
    """S8: P(z | b) P(b) = P(z) [H(z) = b]. Every `clog_prob` returns `<density>.masked_fill(M, -inf)` where M says that
    the thresholded sample differs from b *as an event*: element-wise `H(z) != b` when the density is not reduced over an
    event axis, and `(H(z) != b).any(-1)` (or `~(H(z) == b).all(-1)`) when it is summed over the last axis. `all` in place
    of `any` only masks vectors that differ everywhere, which for one-hot vectors of three or more classes never
    happens."""
    from sa.defuse import ReachingDefs
    col, pkg = ctx.col, ctx.pkg
    n = 0
    for f in pkg.all_functions():
        if f.name != "clog_prob" or f.cls is None or f.module.name.split(".")[-1] != "_straight_through":
            continue
        rets = [x for x in own_nodes(f.node) if isinstance(x, ast.Return) and x.value is not None]
        if not rets or any(isinstance(st, ast.Raise) for st in f.node.body[-1:]):
            continue
        rd = ReachingDefs(f.node)
        rel = f.module.relname
        where = f"{rel}::{f.qualname}"
        zname, bname = f.params[1].name, f.params[2].name
        for r in rets:
            v = r.value
            if not (isinstance(v, ast.Call) and isinstance(v.func, ast.Attribute) and v.func.attr == "masked_fill" and len(v.args) == 2):
                continue
            n += 1
            M = v.args[0]
            if isinstance(M, ast.Name):
                ds = list(rd.defs_of(M))
                M = ds[0].value if len(ds) == 1 and ds[0].kind == "assign" else M
            # is the density reduced over the event axis?
            dens = rd.derives(v.func.value)
            reduced = any(isinstance(c.func, ast.Attribute) and c.func.attr == "sum" and c.args and u(c.args[0]) == "-1"
                          and not any(k.arg == "keepdim" for k in c.keywords) for c in dens.calls())
            red = None
            neg = False
            core = M
            if isinstance(core, ast.UnaryOp) and isinstance(core.op, ast.Invert):
                neg, core = True, core.operand
            if isinstance(core, ast.Call) and isinstance(core.func, ast.Attribute) and core.func.attr in ("any", "all"):
                red, core = core.func.attr, core.func.value
            op = None
            if isinstance(core, ast.Compare) and len(core.ops) == 1:
                op = {ast.NotEq: "ne", ast.Eq: "eq"}.get(type(core.ops[0]))
                sides = [core.left, core.comparators[0]]
            elif isinstance(core, ast.Call) and isinstance(core.func, ast.Attribute) and core.func.attr in ("ne", "eq") and len(core.args) == 1:
                op, sides = core.func.attr, [core.func.value, core.args[0]]
            ok_sides = False
            if op:
                def is_thr(e):
                    return any(isinstance(c, ast.Call) and isinstance(c.func, ast.Attribute) and c.func.attr == "threshold"
                               for c in rd.derives(e).calls()) and zname in rd.derives(e).params()
                def is_b(e):
                    return isinstance(e, ast.Name) and e.id == bname
                ok_sides = (is_thr(sides[0]) and is_b(sides[1])) or (is_thr(sides[1]) and is_b(sides[0]))
            # event-level "differs": ne [+ any]  or  not(eq [+ all])
            if reduced:
                ok = ok_sides and ((op == "ne" and red == "any" and not neg) or (op == "eq" and red == "all" and neg))
            else:
                ok = ok_sides and red is None and ((op == "ne" and not neg) or (op == "eq" and neg))
            col.ob("G12", "S8", f"{where}::zero-off-the-threshold-preimage", ok,
                   f"clog_prob masks with `{u(v.args[0])}` = `{u(M)[:80]}` (density {'summed over the event axis' if reduced else 'element-wise'}); "
                   f"the conditional density must be -inf exactly when threshold({zname}) differs from {bname} as an event"
                   f"{' - any component differing, not all of them' if reduced else ''}", rel, r.lineno,
                   sample=dict(mask=u(M)[:80], reduced=reduced))
    col.floor("clog_prob_masks", n, 2)


def _threshold_surrogate_is_exact(ctx: Ctx):
    """S9: `threshold(z, straight_through=True)` must still return the discrete sample: the zero-valued surrogate has
    to be formed first, `b + (z - z.detach())`. `(b + z) - z.detach()` rounds (b + z) and comes back as 0.99999994 or
    1.0000001, which is outside the Boolean / one-hot support."""
    col, pkg = ctx.col, ctx.pkg
    n = 0
    for f in pkg.all_functions():
        if f.name != "threshold" or f.cls is None or f.module.name.split(".")[-1] != "_straight_through":
            continue
        rel = f.module.relname
        for x in own_nodes(f.node):
            if isinstance(x, ast.BinOp) and isinstance(x.op, ast.Sub) and isinstance(x.right, ast.Call) \
                    and isinstance(x.right.func, ast.Attribute) and x.right.func.attr == "detach":
                n += 1
                grouped = u(x.left) == u(x.right.func.value)
                col.ob("G15", "S9", f"{rel}::{f.qualname}::straight-through-surrogate-formed-first", grouped,
                       f"`{u(x)}` subtracts `{u(x.right)}` from `{u(x.left)}` rather than from `{u(x.right.func.value)}`: in "
                       f"floating point (b + z) - z is not b, so the straight-through result is not exactly 0/1 and fails the "
                       f"distribution's own support check", rel, x.lineno)
    col.floor("straight_through_surrogates", n, 2)


def _estimate_rank(ctx: Ctx):
    """S10: an estimator returns a tensor of the proposal's batch shape, whatever `is_log` is. With the rank of
    `func(b)` as reference (0), reductions over the Monte Carlo axis lower the rank by one unless keepdim=True; an
    element-wise combination has the larger rank of its operands. Both valuations of `self.is_log` must return rank -1."""
    from sa.defuse import ReachingDefs
    from sa.specialise import specialise
    col, pkg = ctx.col, ctx.pkg
    f = pkg.func("_mc::DirectEstimator.__call__")
    rel = f.module.relname
    res = {}
    for flag in (True, False):
        node, folded = specialise(f.node, {"self.is_log": flag})
        if folded < 1:
            raise AnalysisError("C19: DirectEstimator.__call__ no longer branches on self.is_log")
        rd = ReachingDefs(node)
        NEG = -99

        def rk(e, depth=0):
            if depth > 30:
                return None
            if isinstance(e, ast.Constant):
                return NEG
            if isinstance(e, ast.Name):
                ds = list(rd.defs_of(e))
                vals = []
                for d in ds:
                    if d.kind == "assign" and d.value is not None:
                        vals.append(rk(d.value, depth + 1))
                    else:
                        vals.append(None)
                vals = [v for v in vals if v is not None]
                return max(vals) if vals else None
            if isinstance(e, ast.Attribute):
                return None if u(e).startswith("self.") else rk(e.value, depth + 1)
            if isinstance(e, ast.BinOp):
                a, b = rk(e.left, depth + 1), rk(e.right, depth + 1)
                vs = [v for v in (a, b) if v is not None]
                return max(vs) if vs else None
            if isinstance(e, ast.Subscript):
                return rk(e.value, depth + 1)
            if isinstance(e, ast.Call):
                cn = call_name(e)
                if isinstance(e.func, ast.Attribute) and u(e.func.value) in ("self", "self.proposal") or cn in ("self.func", "self.cv"):
                    if cn in ("self.func", "self.cv", "self.proposal.log_prob"):
                        return 0
                    return None
                if isinstance(e.func, ast.Attribute):
                    m, r = e.func.attr, rk(e.func.value, depth + 1)
                    if r is None:
                        return None
                    if m in ("mean", "sum", "max", "min", "logsumexp", "prod") and e.args and u(e.args[0]) == "0":
                        kd = any(k.arg == "keepdim" and isinstance(k.value, ast.Constant) and k.value.value for k in e.keywords)
                        return r if kd else r - 1
                    if m == "unsqueeze":
                        return r + 1
                    if m == "squeeze" and e.args:
                        return r - 1
                    return r
                if cn.startswith("math."):
                    return NEG
            return None
        rets = [n for n in ast.walk(node) if isinstance(n, ast.Return) and n.value is not None]
        res[flag] = [rk(r.value) for r in rets]
    ok = all(v == [-1] for v in res.values())
    col.ob("G19", "S10", f"{rel}::DirectEstimator.__call__::estimate-has-the-batch-shape", ok,
           f"relative to func(b) (Monte Carlo axis first) the returned estimate has rank offset {res} for is_log True / False; "
           f"both must be -1 (the batch shape): a term reduced with keepdim=True is added back after the mean, so the log-space "
           f"estimate keeps a leading axis of size 1", rel, f.line, sample={str(k): v for k, v in res.items()})


def _callback_results_not_mutated(ctx: Ctx):
    """S11: the value a user-supplied callable returned (`self.func(...)`) may alias the caller's tensors (a constant
    `c.expand(...)`): it must not be modified in place (augmented assignment or trailing-underscore method) through any
    local alias."""
    from sa.defuse import ReachingDefs
    col = ctx.col
    n_sites = 0
    for f in ctx.owned():
        if f.cls is None or f.name != "__call__":
            continue
        rd = ReachingDefs(f.node)
        rel = f.module.relname

        def aliases_callback(e, depth=0):
            if depth > 6:
                return False
            if isinstance(e, ast.Call):
                if call_name(e) in ("self.func", "self.cv"):
                    return True
                if isinstance(e.func, ast.Attribute) and e.func.attr in ("squeeze", "unsqueeze", "view", "expand", "detach", "t", "transpose"):
                    return aliases_callback(e.func.value, depth + 1)
                return False
            if isinstance(e, ast.Name):
                return any(d.kind == "assign" and d.value is not None and aliases_callback(d.value, depth + 1) for d in rd.defs_of(e))
            return False
        bad = []
        for n in own_nodes(f.node):
            if isinstance(n, ast.AugAssign) and isinstance(n.target, ast.Name):
                tl = ast.Name(id=n.target.id, ctx=ast.Load())
                rd.use_defs[id(tl)] = rd.use_defs.get(id(n.target), frozenset())
                if aliases_callback(tl):
                    bad.append(n)
        if any(call_name(c) in ("self.func",) for c in own_calls(f.node)):
            n_sites += 1
            col.ob("G29", "S11", f"{rel}::{f.qualname}::callback-result-not-modified-in-place", not bad,
                   f"`{u(bad[0]) if bad else ''}` modifies in place a tensor that can be the very object `self.func` returned "
                   f"(when exactly one sample is kept): an expanded constant raises, any other tensor of the caller is "
                   f"silently overwritten", rel, bad[0].lineno if bad else f.line, nontrivial=False)
    col.floor("estimator_calls_checked", n_sites, 4)



def _score_term_reads_the_corrected_integrand(ctx: Ctx):
    """S12: the direct estimator's value is mean(f - c + mu_c); its score-function term must multiply log p(b) by the SAME
    corrected integrand (detached). If the term is formed from an earlier version of the variable (before the control variate
    is applied) the value stays unbiased but the expected gradient gains grad mu_c. Decided by def-use: the integrand read by
    the score term and the one read by the Monte Carlo mean have the same reaching definitions."""
    from sa.defuse import ReachingDefs
    col, pkg = ctx.col, ctx.pkg
    f = pkg.func("_mc::DirectEstimator.__call__")
    rel = f.module.relname
    rd = ReachingDefs(f.node)
    # the score term: <X>.detach() * <log-probability of the sample>
    score_uses, mean_uses = [], []
    transformed = []
    for n in own_nodes(f.node):
        if isinstance(n, ast.BinOp) and isinstance(n.op, ast.Mult):
            for a, b in ((n.left, n.right), (n.right, n.left)):
                if isinstance(a, ast.Call) and isinstance(a.func, ast.Attribute) and a.func.attr == "detach" and any(
                        isinstance(c, ast.Call) and isinstance(c.func, ast.Attribute) and c.func.attr == "log_prob"
                        for c in rd.derives(b).calls()):
                    if isinstance(a.func.value, ast.Name):
                        score_uses.append(a.func.value)
                    else:
                        transformed.append(a)
    if transformed:
        # the weight of log p(b) in the score term is the integrand ITSELF (detached): E[(f - c) grad log p] is the gradient of the
        # expectation. Centring it by the mean of the same samples (a baseline that does not leave the own sample out), scaling or
        # clamping it changes the expected gradient - by the factor (N - 1) / N for the batch mean, to zero for a single sample.
        col.ob("G16", "S12", f"{rel}::DirectEstimator.__call__::score-term-reads-the-corrected-integrand", False,
               f"the score-function term weights log p(b) by `{u(transformed[0])[:70]}`, a transformation of the integrand instead of the (corrected) "
               f"integrand itself: the expected gradient is no longer the gradient of the expectation (a same-sample mean baseline shrinks it by "
               f"(N - 1) / N; nothing is left for one sample)", rel, transformed[0].lineno, sample=u(transformed[0])[:100])
        return
    names = {x.id for x in score_uses}
    for n in own_nodes(f.node):
        if isinstance(n, ast.Assign) and isinstance(n.value, ast.Call) and isinstance(n.value.func, ast.Attribute) \
                and n.value.func.attr == "mean" and isinstance(n.value.func.value, ast.Name) and n.value.func.value.id in names \
                and len(n.targets) == 1 and u(n.targets[0]) == n.value.func.value.id:
            mean_uses.append(n.value.func.value)
    if len(score_uses) != 1 or len(mean_uses) != 1:
        col.undecided(f"{rel}::DirectEstimator.__call__: score term / Monte Carlo mean of the integrand not recognised "
                      f"({len(score_uses)} / {len(mean_uses)})")
        return
    ds, dm = rd.defs_of(score_uses[0]), rd.defs_of(mean_uses[0])
    col.ob("G16", "S12", f"{rel}::DirectEstimator.__call__::score-term-reads-the-corrected-integrand", ds == dm,
           f"the score-function term reads `{score_uses[0].id}` as defined at line(s) {sorted(d.line for d in ds)} while the value "
           f"averages the version from line(s) {sorted(d.line for d in dm)}: the control variate is missing from the score term, so "
           f"the expected gradient is off by the gradient of cv_mean", rel, score_uses[0].lineno,
           sample=dict(score=sorted(d.line for d in ds), mean=sorted(d.line for d in dm)))


def _both_parameterisations_normalised(ctx: Ctx):
    """S13: a relaxed categorical may be given probs or logits; either is normalised over the last axis before it is stored
    (probs / probs.sum(-1), logits.log_softmax(-1)): tlog_prob, clog_prob and csample assume logsumexp(logits) = 0."""
    col, pkg = ctx.col, ctx.pkg
    f = pkg.func("_straight_through::GumbelOneHotCategorical.__init__")
    rel = f.module.relname
    n_ = 0
    for st in own_nodes(f.node):
        if not isinstance(st, ast.Assign):
            continue
        tg = [t for t in st.targets if isinstance(t, ast.Attribute) and u(t.value) == "self" and t.attr in ("probs", "logits")]
        if not tg:
            continue
        n_ += 1
        v = st.value
        norm = False
        for x in ast.walk(v):
            if isinstance(x, ast.Call) and isinstance(x.func, ast.Attribute) and x.func.attr in ("log_softmax", "softmax", "logsumexp", "sum") \
                    and x.args and u(x.args[0]) == "-1":
                norm = True
            if isinstance(x, ast.Call) and call_name(x).split(".")[-1] in ("log_softmax", "softmax", "logsumexp") and len(x.args) >= 2 and u(x.args[1]) == "-1":
                norm = True
        col.ob("G13", "S13", f"{rel}::GumbelOneHotCategorical.__init__::{tg[0].attr}-normalised-over-the-event-axis", norm,
               f"`{u(st)[:80]}` stores the {tg[0].attr} as given: the density of the relaxed sample and the conditional sampler assume "
               f"a normalised parameter, so with un-normalised {tg[0].attr} the probabilities over the one-hot support do not sum "
               f"to one and log P(z) != log P(H(z)) + log P(z | H(z))", rel, st.lineno)
    col.floor("gumbel_parameter_stores", n_, 2)


def _expand_copies_each_parameter_from_itself(ctx: Ctx):
    """S16: `expand` of the relaxed distributions builds the new instance parameter by parameter: under `'<p>' in self.__dict__` the new
    instance's `<p>` is the expansion of `self.<p>`. Filled from the other parametrisation (probabilities stored as logits) the expanded
    distribution is a different one - its threshold probability is sigmoid(p) - and `probs` and `logits` of one object disagree, so the
    conditional and the relaxed sampler no longer belong to one joint."""
    col, pkg = ctx.col, ctx.pkg
    n_sites = 0
    for f in pkg.all_functions():
        if f.name != "expand" or f.cls is None or f.module.name.split(".")[-1] != "_straight_through":
            continue
        rel = f.module.relname
        for n in own_nodes(f.node):
            if not (isinstance(n, ast.If) and isinstance(n.test, ast.Compare) and len(n.test.ops) == 1 and isinstance(n.test.ops[0], ast.In)
                    and isinstance(n.test.left, ast.Constant) and isinstance(n.test.left.value, str) and u(n.test.comparators[0]) == "self.__dict__"):
                continue
            pname = n.test.left.value
            for st in n.body:
                if not isinstance(st, ast.Assign):
                    continue
                tg = [t_ for t_ in st.targets if isinstance(t_, ast.Attribute) and isinstance(t_.value, ast.Name) and t_.value.id != "self"
                      and t_.attr in ("probs", "logits")]
                if not tg:
                    continue
                n_sites += 1
                reads = {x.attr for x in ast.walk(st.value) if isinstance(x, ast.Attribute) and isinstance(x.value, ast.Name) and x.value.id == "self"
                         and x.attr in ("probs", "logits")}
                ok = all(t_.attr == pname for t_ in tg) and reads == {pname}
                col.ob("G5", "S16", f"{rel}::{f.qualname}::expanded[{pname}]<-self.{pname}", ok,
                       f"under `'{pname}' in self.__dict__` the new instance's {[t_.attr for t_ in tg]} is filled from self.{sorted(reads)}: the expanded "
                       f"distribution stores one parametrisation under the other's name", rel, st.lineno, sample=u(st)[:100])
    col.floor("expand_parameter_copies", n_sites, 4)


def _chain_carry_over_uses_the_per_chain_decision(ctx: Ctx):
    """S17: in the Metropolis-Hastings chain the accept decision has one entry per chain element; it gains trailing singleton axes (a loop of
    unsqueeze) only to select whole SAMPLES with event dimensions. The importance ratio has no event dimensions: the statement that carries
    it over (reads the decision and the previous ratio) must read the decision as computed, not the version widened for the samples -
    otherwise the ratio grows an axis per step for categorical proposals (shape error, or element-wise acceptance when batch size and
    class count coincide). Decided by def-use versions: no definition of the decision that reaches the ratio's carry-over lies inside a
    loop."""
    from sa.defuse import ReachingDefs
    col, pkg = ctx.col, ctx.pkg
    f = pkg.func("_mc::IndependentMetropolisHastingsEstimator.__call__")
    rel = f.module.relname
    rd = ReachingDefs(f.node)
    pm = parent_map(f.node)
    # the decision: a name defined by a comparison with the uniform draws and later widened inside a while loop
    widened = {}
    for n in own_nodes(f.node):
        if isinstance(n, ast.While):
            for st in ast.walk(n):
                if isinstance(st, ast.Assign) and len(st.targets) == 1 and isinstance(st.targets[0], ast.Name) and isinstance(st.value, ast.Call) \
                        and isinstance(st.value.func, ast.Attribute) and st.value.func.attr == "unsqueeze" and u(st.value.func.value) == st.targets[0].id:
                    widened[st.targets[0].id] = n
    # the ratio: what the decision compares (`accept = (cur - last) > draw`)
    ratio_names = set()
    for n in own_nodes(f.node):
        if isinstance(n, ast.Assign) and len(n.targets) == 1 and isinstance(n.targets[0], ast.Name) and n.targets[0].id in widened \
                and any(isinstance(x, ast.Compare) for x in ast.walk(n.value)):
            ratio_names |= {x.id for x in ast.walk(n.value) if isinstance(x, ast.Name)} - set(widened)
    n_sites, bad = 0, None
    for n in own_nodes(f.node):
        if not isinstance(n, ast.Assign) or len(n.targets) != 1 or not isinstance(n.targets[0], ast.Name):
            continue
        reads = [x for x in ast.walk(n.value) if isinstance(x, ast.Name) and x.id in widened]
        if not reads or n.targets[0].id not in ratio_names:
            continue
        n_sites += 1
        for x in reads:
            inside = {id(y) for y in ast.walk(widened[x.id])}
            if any(d.stmt is not None and id(d.stmt) in inside for d in rd.defs_of(x)) and bad is None:
                bad = (n, x)
    col.floor("ratio_carry_over_sites", n_sites, 1)
    col.ob("G16", "S17", f"{rel}::{f.qualname}::ratio-carried-over-by-the-per-chain-decision", bad is None,
           (f"`{u(bad[0])[:90]}` reads `{bad[1].id}` after it was widened by trailing axes for the samples' event dimensions: the carried ratio gains "
            f"those axes, and from the next step on the decision has the wrong shape (categorical proposals: shape error, or element-wise "
            f"acceptance)") if bad else "", rel, bad[0].lineno if bad else f.line)


def _chain_average_table(ctx: Ctx):
    """S18 by value: with the proposal equal to the target every proposal is accepted and the Metropolis-Hastings estimate is the plain
    average of f over the draws after the burn-in. `IndependentMetropolisHastingsEstimator.__call__` is interpreted over exact values
    (sa/interp.py + sa/teval.py) with scripted leaves - draw n is the constant n + 1, both log-densities are 0, the uniform draws have
    logarithm -1, f(b) = 10 b - for (samples, burn-in) = (1, 0), (2, 0), (3, 1), (4, 2), (4, 0) with a start handed in: the result is
    10 * mean(burn-in + 1 .. samples). Skipped when outside the interpreted fragment."""
    import numpy as np
    from fractions import Fraction as Fr
    from sa.interp import Interp
    from sa.inteval import NotEvaluable
    from sa.teval import frac_array
    col, pkg = ctx.col, ctx.pkg
    f = pkg.func("_mc::IndependentMetropolisHastingsEstimator.__call__")
    rel = f.module.relname
    B = 2
    bad, rows = None, 0
    try:
        for mc, burn in ((2, 0), (3, 1), (4, 2), (4, 0), (1, 0)):
            state = {"n": 0}
            holder = {}

            def leaf(x, env):
                it_ = holder["it"]
                if isinstance(x, ast.Call):
                    cn = call_name(x)
                    if cn == "self.proposal.sample":
                        state["n"] += 1
                        return frac_array([[state["n"]] * B])
                    if cn in ("self.density.log_prob", "self.proposal.log_prob"):
                        a_ = np.asarray(it_.eval(x.args[0], env), dtype=object)
                        return frac_array(np.zeros(a_.shape, dtype=int).tolist())
                    if cn == "self.func":
                        return np.asarray(it_.eval(x.args[0], env), dtype=object) * Fr(10)
                    if isinstance(x.func, ast.Attribute) and x.func.attr == "log" and isinstance(x.func.value, ast.Call) and call_name(x.func.value) == "torch.rand":
                        return frac_array([[-1] * B for _ in range(mc)])
                if isinstance(x, ast.Attribute) and x.attr == "device":
                    return "<device>"
                if isinstance(x, ast.Attribute) and u(x) == "self.proposal.batch_shape":
                    return (B,)
                return None
            it = Interp(leaf=leaf, tensors=True)
            holder["it"] = it
            env = {"self.initial_sample": frac_array([[0] * B]), "self.mc_samples": mc, "self.burn_in": burn, "self.is_log": False}
            try:
                kind, got = it.run(f.node, env)
            except TypeError as e_:  # (arithmetic on a value that was never set: nothing was kept)
                kind, got = "raise", f"TypeError ({str(e_)[:60]})"
            except NotEvaluable:
                if rows == 0:
                    raise  # (the first row decides whether the function is inside the fragment at all)
                continue
            rows += 1
            want = Fr(10) * sum(range(burn + 1, mc + 1)) / (mc - burn)
            ok = kind == "return" and hasattr(got, "shape") and [Fr(v_) for v_ in np.asarray(got, dtype=object).reshape(-1).tolist()] == [want] * B
            if not ok and bad is None:
                bad = (mc, burn, [str(v_) for v_ in np.asarray(got, dtype=object).reshape(-1).tolist()] if kind == "return" and hasattr(got, "shape") else f"{kind} {got}", str(want))
    except (NotEvaluable, TypeError, KeyError, IndexError):
        return
    col.count("chain_average_table_rows", rows)
    col.ob("G12", "S18", f"{rel}::{f.qualname}::chain-average-table", bad is None,
           (f"{bad[0]} samples with a burn-in of {bad[1]}, every proposal accepted, draw n = n, f(b) = 10 b: the estimate is {bad[2]}; the average of f "
            f"over the draws after the burn-in is {bad[3]}") if bad else "", rel, f.line, sample=dict(rows=rows))


def _categorical_tlog_prob_table(ctx: Ctx):
    """S15 by value: `GumbelOneHotCategorical.tlog_prob` interpreted over exact values (sa/interp.py + sa/teval.py) for logits with a
    MASKED class (-inf, the usual way to exclude a category), unbatched and batched, and every one-hot sample: the result is the logit
    of the selected class - finite whenever the selected class is not the masked one. (Written as a product with the one-hot vector,
    -inf * 0 is NaN for every sample; thresholded probabilities over the support then no longer sum to one.)"""
    import math
    import numpy as np
    from fractions import Fraction as Fr
    from sa.interp import Interp
    from sa.inteval import NotEvaluable
    from sa.teval import frac_array
    col, pkg = ctx.col, ctx.pkg
    f = pkg.func("_straight_through::GumbelOneHotCategorical.tlog_prob")
    rel = f.module.relname
    bname = f.params[1].name
    rows, bad = 0, None
    try:
        for logits in ([Fr(-1), Fr(-2), -math.inf], [[Fr(-1, 2), -math.inf, Fr(-3)], [Fr(-2), Fr(-1), Fr(-5, 2)]]):
            L = np.array(logits, dtype=object)
            K = L.shape[-1]
            for k_ in range(K):
                b = np.zeros(L.shape, dtype=object)
                b[...] = Fr(0)
                b[..., k_] = Fr(1)
                env = {bname: b, "self.logits": L, "self._validate_args": False}
                kind, got = Interp(tensors=True).run(f.node, env)
                rows += 1
                want = L[..., k_]
                g = np.asarray(got, dtype=object) if kind == "return" else None
                ok = g is not None and g.shape == np.asarray(want, dtype=object).shape and all(
                    (a_ == b_) for a_, b_ in zip(g.reshape(-1).tolist(), np.asarray(want, dtype=object).reshape(-1).tolist()))
                if not ok and bad is None:
                    bad = (logits, k_, [str(v_) for v_ in g.reshape(-1).tolist()] if g is not None else f"{kind} {got}", [str(v_) for v_ in np.asarray(want, dtype=object).reshape(-1).tolist()])
    except NotEvaluable:
        return
    col.count("categorical_tlog_prob_rows", rows)
    col.ob("G12", "S15", f"{rel}::GumbelOneHotCategorical.tlog_prob::selected-logit-table", bad is None,
           (f"logits {bad[0]} and the one-hot sample of class {bad[1]}: tlog_prob gives {bad[2]}; the log-probability of the selected class is {bad[3]}") if bad else "",
           rel, f.line, sample=dict(rows=rows))


def _either_representation_alias_is_metadata_only(ctx: Ctx):
    """S14: an attribute that is stored together with `probs` on one branch and with `logits` on the other (`self._param = self.probs
    = ...` / `self._param = self.logits = ...`) holds whichever parameterisation the distribution was built from. It can serve for
    what both share - shape, device, dtype, `.new(...)` - but never as a number: `clamp_probs(self._param)` is right for a
    probs-built distribution and reads log-probabilities as probabilities for a logits-built one (the conditional sampler then draws
    from another distribution than the density describes). Found from the code: the aliases are the attributes chain-assigned with two
    different partners within one class."""
    col, pkg = ctx.col, ctx.pkg
    META = {"shape", "device", "dtype", "new", "new_empty", "new_zeros", "new_ones", "new_full", "new_tensor", "size", "dim", "ndim", "numel",
            "is_cuda", "requires_grad", "type"}
    n_alias = n_reads = 0
    bad = []
    for mname in ("_straight_through",):
        mod = pkg.module(mname)
        for ci in mod.classes.values() if isinstance(mod.classes, dict) else mod.classes:
            partners = {}
            for fl in ci.methods.values():
                for m in fl:
                    for st in own_nodes(m.node):
                        if isinstance(st, ast.Assign) and len(st.targets) >= 2:
                            attrs = [t.attr for t in st.targets if isinstance(t, ast.Attribute) and isinstance(t.value, ast.Name)]
                            for a in attrs:
                                partners.setdefault(a, set()).update(x for x in attrs if x != a)
            aliases = {a for a, ps in partners.items() if len(ps) >= 2 and a not in ("probs", "logits")}
            if not aliases:
                continue
            n_alias += len(aliases)
            for fl in ci.methods.values():
                for m in fl:
                    pm = parent_map(m.node)
                    for x in own_nodes(m.node):
                        if isinstance(x, ast.Attribute) and isinstance(x.ctx, ast.Load) and x.attr in aliases and isinstance(x.value, ast.Name):
                            n_reads += 1
                            par = pm.get(x)
                            if isinstance(par, ast.Attribute) and par.attr in META:
                                continue
                            bad.append((ci.name, m, x, par))
    col.floor("either_representation_aliases", n_alias, 2)
    col.floor("either_representation_reads", n_reads, 6)
    rel = pkg.module("_straight_through").relname
    col.ob("G13", "S14", f"{rel}::either-representation-alias-read-for-metadata-only", not bad,
           (f"`{u(bad[0][3] if bad[0][3] is not None else bad[0][2])[:70]}` in {bad[0][0]}.{bad[0][1].name} uses `{u(bad[0][2])}` as a value: it is the probs for a "
            f"distribution built from probs and the (log-space) logits for one built from logits, so the result is right for one construction "
            f"and wrong for the other") if bad else "", rel, bad[0][2].lineno if bad else 1, sample=dict(aliases=n_alias, reads=n_reads))


def _unbiased_defaults_and_exact_tables(ctx: Ctx):
    """S15: (a) the importance-sampling estimator is the unbiased one unless the caller asks otherwise: `self_normalize` defaults to
    False (the self-normalised estimator is biased for every finite number of samples - at one sample its weight is identically 1 and
    the gradient with respect to the density is exactly 0). (b) binomial_coefficient takes its values from a table of factorials
    only while the largest factorial fits in 64 bits: 20! < 2**63 <= 21!. The threshold of the switch to the overflow-safe recursion is
    read from the comparison and checked against that bound."""
    import math
    col, pkg = ctx.col, ctx.pkg
    f = pkg.func("_mc::ImportanceSamplingEstimator.__init__")
    p_ = f.param("self_normalize")
    d_ = p_.default if p_ is not None else None
    col.ob("G13", "S15", f"{f.module.relname}::{f.qualname}::unbiased-by-default", p_ is not None and isinstance(d_, ast.Constant) and d_.value is False,
           f"`self_normalize` defaults to {u(d_) if d_ is not None else None}: an estimator built the documented way silently is the self-normalised, biased one - "
           f"its value and gradient do not average to the expectation for small numbers of samples", f.module.relname, f.line)
    b = pkg.func("_combinatorics::binomial_coefficient")
    rd = ReachingDefs(b.node)
    sw = []
    for n in own_nodes(b.node):
        if isinstance(n, ast.If) and isinstance(n.test, ast.Compare) and len(n.test.ops) == 1 and isinstance(n.test.comparators[0], ast.Constant) \
                and isinstance(n.test.comparators[0].value, int) and n.test.comparators[0].value >= 10 and isinstance(n.test.left, ast.Name):
            c_ = n.test.comparators[0].value
            op = type(n.test.ops[0])
            # the largest length that still takes the table path
            top = {ast.Gt: c_, ast.GtE: c_ - 1, ast.LtE: c_, ast.Lt: c_ - 1}.get(op)
            if top is not None:
                sw.append((n, top))
    col.floor("factorial_table_switches", len(sw), 1)
    badsw = [(n, top) for n, top in sw if math.factorial(top) >= 2 ** 63]
    col.ob("G21", "S15", f"{b.module.relname}::binomial_coefficient::factorial-table-fits-64-bits", not badsw,
           (f"`{u(badsw[0][0].test)}` lets lengths up to {badsw[0][1]} use the table of factorials, but {badsw[0][1]}! = {math.factorial(badsw[0][1])} does not fit "
            f"a 64-bit integer (20! is the last that does): every coefficient of that length is garbage, the support size times the per-vector "
            f"probability is not one") if badsw else "", b.module.relname, badsw[0][0].lineno if badsw else b.line)


def _mutants():
    from selftest.mutate import Mutant as M
    F = "_mc.py"
    return [
        M("expand-logits-from-probs", "_straight_through.py", "new._param = new.logits = self.logits.expand(batch_shape)", "new._param = new.logits = self.probs.expand(batch_shape)", "expanded[logits]"),
        M("score-term-before-the-control-variate", "_mc.py", "            fb = fb - cvb + c\n        log_pb = self.proposal.log_prob(b)\n        deriv = (fb.detach() * log_pb).mean(0)", "            fb_ = fb - cvb + c\n        else:\n            fb_ = fb\n        log_pb = self.proposal.log_prob(b)\n        deriv = (fb.detach() * log_pb).mean(0)\n        fb = fb_", "score-term-reads-the-corrected-integrand"),
        M("gumbel-logits-stored-raw", "_straight_through.py", "self._param = self.logits = logits.log_softmax(-1)", "self._param = self.logits = logits", "logits-normalised-over-the-event-axis"),
        M("pascal-table-row-stride", "_combinatorics.py", "binom = binom.flatten()[length + count * (length_ + 1)]", "binom = binom.flatten()[length + count * (count_ + 1)]", "flat-index-stride-is-the-column-count"),
        M("straight-through-rounds", "_straight_through.py", "b = b + (z - z.detach())", "b = b + z - z.detach()", "straight-through-surrogate-formed-first"),
        M("log-estimate-keeps-sample-axis", "_mc.py", "v = fb.log() + deriv - deriv.detach() + fb_lmax.squeeze(0)", "v = fb.log() + deriv - deriv.detach() + fb_lmax", "estimate-has-the-batch-shape"),
        M("mh-divides-callback-result-in-place", "_mc.py", "v = v / num_kept", "v /= num_kept", "callback-result-not-modified-in-place"),
        M("categorical-mismatch-needs-all", "_straight_through.py", "zero_prob = (bcond != b).any(-1)", "zero_prob = (bcond != b).all(-1)", "zero-off-the-threshold-preimage"),
        M("bernoulli-mask-inverted", "_straight_through.py", "zero_prob = bcond != b", "zero_prob = bcond == b", "zero-off-the-threshold-preimage"),
        M("twin:mismatch-by-not-all-equal", "_straight_through.py", "zero_prob = (bcond != b).any(-1)", "zero_prob = ~(bcond == b).all(-1)", "", twin=True),
        M("direct-uses-rsample", F, "b = self.proposal.sample([self.mc_samples])\n        fb = self.func(b)\n        if self.is_log:\n            fb_lmax",
          "b = self.proposal.rsample([self.mc_samples])\n        fb = self.func(b)\n        if self.is_log:\n            fb_lmax", "sampling-mode"),
        M("reparam-uses-sample", F, "z = self.proposal.rsample([self.mc_samples])\n        fz = self.func(z)",
          "z = self.proposal.sample([self.mc_samples])\n        fz = self.func(z)", "sampling-mode"),
        M("direct-drop-detach-coefficient", F, "deriv = (fb.detach() * log_pb).mean(0)", "deriv = (fb * log_pb).mean(0)",
          "score-function-coefficient"),
        M("direct-surrogate-broken", F, "v = fb + deriv - deriv.detach()\n        return v\n", "v = fb + deriv\n        return v\n",
          "cancelled-by-its-detached-copy"),
        M("direct-surrogate-wrong-twin", F, "v = fb.log() + deriv - deriv.detach() + fb_lmax\n        else:\n            v = fb + deriv - deriv.detach()\n        return v\n",
          "v = fb.log() + deriv - fb.detach() + fb_lmax\n        else:\n            v = fb + deriv - deriv.detach()\n        return v\n", "G15/S2"),
        M("relax-drop-detach", F, "deriv = fb_cvzcond.detach() * log_pb", "deriv = fb_cvzcond * log_pb", "score-function-coefficient"),
        M("relax-logprob-detached", F, "deriv = fb_cvzcond.detach() * log_pb", "deriv = fb_cvzcond.detach() * log_pb.detach()",
          "G15/S3"),
        M("is-proposal-not-detached", F, "lqb = lqb.detach() + 0 * lqb.sum()", "lqb = lqb + 0 * lqb.sum()", "proposal-log-prob-gradient-blocked"),
        M("is-density-detached", F, "lpb = self.density.log_prob(b)\n        lqb", "lpb = self.density.log_prob(b).detach()\n        lqb", "density-log-prob"),
        M("mh-outside-no-grad", F, "with torch.no_grad():\n            if self.initial_sample is None:\n                last_sample = self.find_initial_sample()\n            else:\n                last_sample = self.initial_sample",
          "if True:\n            if self.initial_sample is None:\n                last_sample = self.find_initial_sample()\n            else:\n                last_sample = self.initial_sample", "under-no-grad"),
        M("mh-init-reads-self", F, "sample_shape = proposal.batch_shape + proposal.event_shape", "sample_shape = self.proposal.batch_shape + self.proposal.event_shape",
          "reads-before-initialisation"),
        M("enumerate-detaches", "_enumerate_estimator.py", "v = (fb * log_pb.exp()).sum(0)", "v = (fb * log_pb.exp().detach()).sum(0)", "detaches-nothing"),
        M("mh-func-on-last-sample", F, "fb = self.func(cur_sample).squeeze(0)", "fb = self.func(last_sample).squeeze(0)", "accepted-sample"),
        M("bernoulli-softmax-probs", "_straight_through.py", "return logits_to_probs(self.logits, is_binary=True)", "return logits_to_probs(self.logits)", "same-is_binary"),
        M("twin:rename-deriv", F, "deriv", "score", "", -1, twin=True),
    ]


def selftest(ctx: Ctx):
    from selftest.mutate import run_selftest
    return run_selftest("C19", ctx.pkg.repo, _mutants(), floor=10)


MANIFEST = dict(
    level_text=(
        "Static detach-taint / additive-term analysis (no execution) of every estimator's __call__: sampling mode "
        "per estimator, zero-valued surrogate pairs (+T - T.detach()), detached coefficient of the score function, "
        "gradient blocking of the proposal in importance weights, no_grad regions of the Metropolis-Hastings chain; "
        "plus definite assignment in all constructors of the estimator/distribution modules. A dropped or misplaced "
        "detach changes the gradient's mean - exactly what the statistical tests cannot see - and is decided here "
        "from the expression structure. The direct estimator's score-function term must weight log p(b) by the (corrected) integrand itself, detached - not by a "
        "centred, scaled or clamped transformation of it - and GumbelOneHotCategorical.tlog_prob is interpreted over exact values for logits with a masked "
        "(-inf) class, unbatched and batched, every one-hot sample: the logit of the selected class, finite unless that class is masked. "
        "Exact unbiasedness and the relaxed densities are numerical and not decided. `expand` of the relaxed distributions copies each parametrisation from itself (sibling rule over the `'p' in self.__dict__` arms), and the Metropolis-Hastings carry-over of the importance ratio reads the per-chain decision, not the version widened for the samples' event dimensions (def-use versions). With every proposal accepted the Metropolis-Hastings estimate is the plain average after the burn-in (the estimator's __call__ interpreted with scripted draws for five (samples, burn-in) pairs)."),
    level_note="Trusted: python ast; autograd semantics of detach/no_grad; the estimators' docstring formulas. F15 "
               "(MH constructor reads self.proposal before super().__init__) was found by G22 and repaired.",
    technique="static analysis: additive-term/detach structure analysis on def-use chains, path-based definite assignment; tlog_prob of the one-hot categorical by interpretation over exact values with a masked class; sibling-arm agreement in expand; def-use version rule on the chain's carry-over",
    design_ref="DESIGN.md section 4 C19",
)
