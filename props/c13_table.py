"""C13: the sampler's partition table.

`AbstractEpochSampler.__init__`, `get_samples_for_epoch` and `__len__` are interpreted (sa/interp.py - nothing is imported or run)
at every point of a small grid: the four `on_uneven_distributed` modes x the state of the process group (torch.distributed not
available / not initialised / initialised with rank -1, 0, 1, 2 of 3) x data-set sizes. The resulting (rank, world size, total,
effective total | raised) is compared with the documented table, and the rank slice / length with `range(N)[rank:effective:world]`:

    in a group  :=  mode != 'ignore' and available and initialised and rank >= 0
    (rank, world) = the group's if in a group else (0, 1)
    N % world != 0:  'raise' -> ValueError;  'drop' -> effective = N - N % world;  'uneven' / 'ignore' -> effective = N

How the code spells the test, whether the remainder is named, whether the group is looked up in a helper - none of it matters."""
from __future__ import annotations

import ast
from typing import Dict, List, Optional

from sa.astutil import call_name, u
from sa.interp import Interp
from sa.inteval import NotEvaluable

MODES = ("raise", "drop", "uneven", "ignore")
WORLD = 3
SIZES = (0, 1, 5, 6, 7, 12)
GROUPS = [(False, False, -1), (True, False, -1), (True, True, -1), (True, True, 0), (True, True, 1), (True, True, 2)]


def expected(mode: str, avail: bool, init: bool, rank: int, n: int):
    dist = mode != "ignore" and avail and init and rank >= 0
    r, w = (rank, WORLD) if dist else (0, 1)
    rem = n % w
    if rem and mode == "raise":
        return dict(raised=True)
    eff = n - rem if mode == "drop" else n
    return dict(raised=False, rank=r, world=w, total=n, effective=eff)


class SamplerTable:
    def __init__(self, module_tree: ast.Module, cls_node: ast.ClassDef, init: ast.FunctionDef, get: ast.FunctionDef, length: ast.FunctionDef,
                 mode_param: str, source_param: str):
        self.funcs = {st.name: st for st in module_tree.body if isinstance(st, ast.FunctionDef)}
        self.methods = {st.name: st for st in cls_node.body if isinstance(st, ast.FunctionDef)}
        self.init, self.get, self.length = init, get, length
        self.mode_param, self.source_param = mode_param, source_param

    def _lookup(self, call: ast.Call) -> Optional[ast.FunctionDef]:
        f = call.func
        if isinstance(f, ast.Name) and f.id in self.funcs:
            return self.funcs[f.id]
        if isinstance(f, ast.Attribute) and isinstance(f.value, ast.Name) and f.value.id == "self" and f.attr in self.methods \
                and f.attr not in ("get_samples_for_epoch_ignoring_distributed",):
            return self.methods[f.attr]
        return None

    def _leaf(self, state):
        avail, init, rank, n = state

        def leaf(x, env):
            if not isinstance(x, ast.Call):
                return None
            name = call_name(x)
            tail = name.split(".")[-1]
            if "distributed" in name or tail in ("is_available", "is_initialized", "get_rank", "get_world_size"):
                if tail == "is_available":
                    return avail
                if tail == "is_initialized":
                    return avail and init
                if tail == "get_rank":
                    return rank if (avail and init) else -1
                if tail == "get_world_size":
                    return WORLD if (avail and init) else -1
            if name == "len" and len(x.args) == 1 and u(x.args[0]) == self.source_param:
                return n
            if name.startswith("argcheck.") and x.args:
                return ("__same__", x.args[0])  # a validator returns the value it checked (its domain is decided by G8)
            return None
        return leaf

    def _interp(self, state) -> Interp:
        base = self._leaf(state)
        holder = {}

        def leaf(x, env):
            v = base(x, env)
            if isinstance(v, tuple) and len(v) == 2 and v[0] == "__same__":
                return holder["it"].eval(v[1], env)
            return v
        it = Interp(leaf=leaf, lookup=self._lookup)
        holder["it"] = it
        return it

    def rows(self) -> List[dict]:
        out = []
        for mode in MODES:
            for avail, init, rank in GROUPS:
                for n in SIZES:
                    state = (avail, init, rank, n)
                    env: Dict[str, object] = {a.arg: None for a in self.init.args.args}
                    defaults = self.init.args.defaults
                    names = [a.arg for a in self.init.args.args]
                    for nm, d in zip(names[len(names) - len(defaults):], defaults):
                        if isinstance(d, ast.Constant):
                            env[nm] = d.value
                    env[self.mode_param] = mode
                    env[self.source_param] = "<data source>"
                    env.pop("self", None)
                    it = self._interp(state)
                    kind, val = it.run(self.init, env)
                    want = expected(mode, avail, init, rank, n)
                    got: dict
                    if kind == "raise":
                        got = dict(raised=True, what=val)
                    else:
                        got = dict(raised=False, rank=env.get("self._rank"), world=env.get("self._world_size"), total=env.get("self.total"),
                                   effective=env.get("self.effective_total"))
                    row = dict(mode=mode, available=avail, initialised=init, group_rank=rank, n=n, want=want, got=got, slice=None, len=None)
                    if kind != "raise" and not want["raised"]:
                        # the rank's share of the epoch order 0..N-1 and the reported length
                        row["slice"], row["len"] = self._share(env, state, n)
                    out.append(row)
        return out

    def _share(self, env: dict, state, n: int):
        self_env = {k: v for k, v in env.items() if isinstance(k, str) and k.startswith("self.")}
        it = self._interp(state)
        ret = None
        for st in ast.walk(self.get):
            if isinstance(st, ast.Return) and st.value is not None:
                if ret is not None:
                    raise NotEvaluable("several returns in get_samples_for_epoch")
                ret = st
        if ret is None:
            raise NotEvaluable("no return in get_samples_for_epoch")
        from sa.inline import Inliner
        v = Inliner(self.get).expand(ret.value)
        if isinstance(v, ast.Call) and call_name(v).split(".")[-1] == "islice" and len(v.args) in (3, 4):
            parts = list(v.args[1:]) + [None] * (4 - len(v.args))
        elif isinstance(v, ast.Subscript) and isinstance(v.slice, ast.Slice):
            parts = [v.slice.lower, v.slice.upper, v.slice.step]
        else:
            raise NotEvaluable(f"rank share `{u(v)[:50]}`")
        e2 = dict(self_env)
        e2["epoch"] = 0
        vals = [it.eval(p, e2) if p is not None else None for p in parts]
        share = list(range(n))[slice(*vals)]
        e3 = dict(self_env)
        kind, ln = it.run(self.length, e3)
        if kind == "raise":
            raise NotEvaluable("__len__ raises")
        return share, ln
