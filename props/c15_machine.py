"""C15/S4-S5: the per-epoch update of the training history row as a transition function.

The statements of TrainingStateController.update_for_epoch / continue_training that (transitively) decide the countdown columns, the
learning rate and the returned continue flag are interpreted over small integers / rationals: the row's fields, self.params.*,
arithmetic, comparisons, max/min/bool, and/or/not, if/else, plain and augmented assignment. The two no-improvement predicates are
inputs of the transition table and are tabulated separately. Nothing of the repository is executed: this is an evaluator over the
syntax tree with its own value domain, and any construct outside the fragment makes the rule undecided (exit 2), never silent."""
import ast
from fractions import Fraction

from sa.astutil import call_name, u
from sa.inline import Inliner
from sa.model import own_nodes


class Und(Exception):
    pass


class _Ret(Exception):
    def __init__(self, v):
        self.v = v


_UNK = object()
CDS = ("es_resume_cd", "es_patience_cd", "rlr_resume_cd", "rlr_patience_cd")
PARAMS = dict(early_stopping_patience=2, early_stopping_burnin=1, early_stopping_threshold=Fraction(1, 10),
              reduce_lr_patience=2, reduce_lr_burnin=1, reduce_lr_cooldown=3, reduce_lr_threshold=Fraction(1, 10),
              reduce_lr_factor=Fraction(1, 8), reduce_lr_log10_epsilon=-6, num_epochs=None)


def _stores(st):
    for x in ast.walk(st):
        if isinstance(x, ast.Assign):
            for t in x.targets:
                for e in (t.elts if isinstance(t, ast.Tuple) else [t]):
                    yield e
        elif isinstance(x, (ast.AugAssign, ast.AnnAssign)):
            yield x.target


class Machine:
    def __init__(self, func_node, rd, rowvar, metric="val_met"):
        self.f = func_node
        self.rd = rd
        self.rowvar = rowvar
        self.metric = metric
        self.inl = Inliner(func_node, rd, keep={rowvar})
        self.formals = {a.arg for a in func_node.args.args + func_node.args.kwonlyargs}
        self.body = list(func_node.body)
        self.pred_nodes = {}  # Compare node -> kind
        self.relevant = self._relevant()

    # ---- which statements matter ----------------------------------------------------
    def _tracked_store(self, t):
        if isinstance(t, ast.Subscript) and isinstance(t.slice, ast.Constant):
            if u(t.value) == self.rowvar and (t.slice.value in CDS or t.slice.value == "lr"):
                return True
            if t.slice.value == "lr":
                return True
        return False

    def _relevant(self):
        """ids of the simple statements that decide the tracked state (a backward slice: tracked stores and returns, the
        temporaries they read, and the temporaries read by the tests they are control-dependent on), at any nesting depth."""
        from sa.astutil import parent_map
        pm = parent_map(self.f)
        simple = [n for n in own_nodes(self.f) if isinstance(n, (ast.Assign, ast.AugAssign, ast.AnnAssign, ast.Return))]
        rel = {id(n): n for n in simple if isinstance(n, ast.Return) or any(self._tracked_store(t) for t in _stores(n))}
        needed = set()
        changed = True
        while changed:
            changed = False
            for n in list(rel.values()):
                reads = [x for x in ast.walk(n) if isinstance(x, ast.Name) and isinstance(x.ctx, ast.Load)]
                cur = pm.get(n)
                while cur is not None and cur is not self.f:
                    if isinstance(cur, (ast.If, ast.While)):
                        reads += [x for x in ast.walk(cur.test) if isinstance(x, ast.Name) and isinstance(x.ctx, ast.Load)]
                    cur = pm.get(cur)
                for x in reads:
                    if x.id not in self.formals and x.id not in needed and x.id not in (self.rowvar, "self"):
                        needed.add(x.id)
                        changed = True
            for n in simple:
                if id(n) not in rel and any(isinstance(t, ast.Name) and t.id in needed for t in _stores(n)):
                    rel[id(n)] = n
                    changed = True
        out = set(rel)
        # compound statements containing a relevant statement
        for n in rel.values():
            cur = pm.get(n)
            while cur is not None and cur is not self.f:
                out.add(id(cur))
                cur = pm.get(cur)
        return out

    def kind_of(self, e):
        """'es' / 'rlr' for a comparison of the validation metric against a reference row under a threshold, else None."""
        if not isinstance(e, ast.Compare):
            return None
        x = self.inl.expand(e)
        reads_metric = any(isinstance(n, ast.Subscript) and isinstance(n.slice, ast.Constant) and n.slice.value == self.metric
                           and u(n.value) != self.rowvar for n in ast.walk(x))
        if not reads_metric:
            return None
        t = u(x)
        es, rl = "early_stopping_threshold" in t, "reduce_lr_threshold" in t
        if es == rl:
            raise Und(f"the comparison `{u(e)[:60]}` reads a reference metric under {'both' if es else 'neither'} threshold")
        return "es" if es else "rlr"

    # ---- evaluation ---------------------------------------------------------------------
    def run(self, row, preds=None, params=None, epoch=3, ref=None, val=None):
        """Interpret the relevant statements. preds: {'es': bool, 'rlr': bool} (predicates as inputs) or None with ref/val given
        (predicates evaluated). Returns (row, returned value, events)."""
        P = dict(PARAMS)
        P.update(params or {})
        env = {"epoch": epoch}
        if val is not None:
            env[self.metric] = val
        events = []
        rowvar = self.rowvar
        inl = self.inl

        def ev(e, depth=0):
            if depth > 60:
                raise Und("depth")
            if isinstance(e, ast.Constant):
                return Fraction(str(e.value)) if isinstance(e.value, float) else e.value
            if isinstance(e, ast.Compare) and preds is not None:
                k = self.kind_of(e)
                if k is not None:
                    self.pred_nodes[e] = k
                    return preds[k]
            if isinstance(e, ast.Name):
                if e.id == rowvar:
                    return row  # the row itself (`if info is None: raise`)
                if e.id in env:
                    if env[e.id] is _UNK:
                        raise Und(f"`{e.id}` is not in the interpreted fragment")
                    return env[e.id]
                v = inl.value_of(e)
                if v is not None:
                    return ev(v, depth + 1)
                raise Und(f"`{e.id}`")
            if isinstance(e, ast.Subscript) and isinstance(e.slice, ast.Constant):
                if u(e.value) == rowvar:
                    if e.slice.value in row:
                        return row[e.slice.value]
                    raise Und(f"row key {e.slice.value!r}")
                if e.slice.value == self.metric and ref is not None:
                    return ref
                if e.slice.value == "lr":
                    # the optimizer's current rate: deliberately NOT the recorded one ("just assume that the user knows what's
                    # what if the optimizer's lr doesn't match"), so that a rate derived from it shows up as a different write
                    return Fraction(7, 10)
                raise Und(u(e)[:40])
            if isinstance(e, ast.Attribute) and u(e.value) == "self.params":
                if e.attr in P:
                    return P[e.attr]
                raise Und(e.attr)
            if isinstance(e, ast.UnaryOp) and isinstance(e.op, ast.Not):
                return not ev(e.operand, depth + 1)
            if isinstance(e, ast.UnaryOp) and isinstance(e.op, ast.USub):
                return -ev(e.operand, depth + 1)
            if isinstance(e, ast.BoolOp):
                out = None
                for v_ in e.values:
                    out = ev(v_, depth + 1)
                    if (isinstance(e.op, ast.And) and not out) or (isinstance(e.op, ast.Or) and out):
                        return out
                return out
            if isinstance(e, ast.BinOp):
                a, b = ev(e.left, depth + 1), ev(e.right, depth + 1)
                if a is None or b is None:
                    raise Und(u(e)[:40])
                if isinstance(e.op, ast.Add):
                    return a + b
                if isinstance(e.op, ast.Sub):
                    return a - b
                if isinstance(e.op, ast.Mult):
                    return a * b
                if isinstance(e.op, ast.Div):
                    return Fraction(a) / Fraction(b)
                if isinstance(e.op, ast.Pow):
                    return Fraction(a) ** int(b)
                raise Und(u(e)[:40])
            if isinstance(e, ast.Compare):
                left = ev(e.left, depth + 1)
                for op, r_ in zip(e.ops, e.comparators):
                    right = ev(r_, depth + 1)
                    if isinstance(op, (ast.Is, ast.IsNot)):
                        res = (left is right) if isinstance(op, ast.Is) else (left is not right)
                    elif isinstance(op, (ast.Eq, ast.NotEq)):
                        res = (left == right) if isinstance(op, ast.Eq) else (left != right)
                    else:
                        if left is None or right is None:
                            raise Und(f"None in an ordering comparison `{u(e)[:40]}`")
                        res = {ast.Lt: left < right, ast.LtE: left <= right, ast.Gt: left > right, ast.GtE: left >= right}.get(type(op))
                        if res is None:
                            raise Und(u(e)[:40])
                    if not res:
                        return False
                    left = right
                return True
            if isinstance(e, ast.IfExp):
                return ev(e.body, depth + 1) if ev(e.test, depth + 1) else ev(e.orelse, depth + 1)
            if isinstance(e, (ast.Tuple, ast.List)) and isinstance(e.ctx, ast.Load):
                return tuple(ev(x, depth + 1) for x in e.elts)
            if isinstance(e, ast.Call) and call_name(e) in ("max", "min", "abs", "bool", "int", "float") and not e.keywords:
                args = [ev(a, depth + 1) for a in e.args]
                return {"max": max, "min": min, "abs": abs, "bool": bool, "int": int, "float": lambda x: x}[call_name(e)](*args)
            raise Und(u(e)[:50])

        def store(t, val_):
            if isinstance(t, (ast.Tuple, ast.List)):
                if val_ is _UNK:
                    for x in t.elts:
                        store(x, _UNK)
                    return
                if not isinstance(val_, tuple) or len(val_) != len(t.elts):
                    raise Und(f"store to `{u(t)[:40]}`")
                for x, v_ in zip(t.elts, val_):
                    store(x, v_)
                return
            if isinstance(t, ast.Subscript) and isinstance(t.slice, ast.Constant) and u(t.value) == rowvar:
                row[t.slice.value] = val_
            elif isinstance(t, ast.Subscript) and isinstance(t.slice, ast.Constant) and t.slice.value == "lr":
                events.append(("optimizer-lr", val_))
            elif isinstance(t, ast.Name):
                env[t.id] = val_
            elif isinstance(t, ast.Subscript) and u(t.value) == rowvar:
                pass  # row[key] = value for a user entry
            else:
                raise Und(f"store to `{u(t)[:40]}`")

        def ex(stmts, top=False):
            for i, st in enumerate(stmts):
                if id(st) not in self.relevant:
                    continue
                if isinstance(st, ast.If):
                    try:
                        arm = st.body if ev(st.test) else st.orelse
                    except Und:
                        # an argument check outside the fragment (`if <something about kwargs>: raise ...`): the table is
                        # about calls that pass validation, so the arm that does not raise is taken
                        if _raises(st.body) and not _raises(st.orelse):
                            arm = st.orelse
                        elif st.orelse and _raises(st.orelse) and not _raises(st.body):
                            arm = st.body
                        else:
                            raise
                    ex(arm)
                elif isinstance(st, ast.Assign):
                    simple = all(isinstance(t, ast.Name) or (isinstance(t, ast.Tuple) and all(isinstance(x, ast.Name) for x in t.elts))
                                 for t in st.targets)
                    try:
                        v = ev(st.value)
                    except Und:
                        if not simple:
                            raise
                        v = _UNK  # a temporary outside the fragment: an error only if it is read
                    for t in st.targets:
                        store(t, v)
                elif isinstance(st, ast.AugAssign):
                    cur = ev(ast.copy_location(_as_load(st.target), st.target))
                    val_ = ev(st.value)
                    if cur is None or val_ is None:
                        raise Und(u(st)[:40])
                    new = cur - val_ if isinstance(st.op, ast.Sub) else cur + val_ if isinstance(st.op, ast.Add) else \
                        cur * val_ if isinstance(st.op, ast.Mult) else None
                    if new is None:
                        raise Und(u(st)[:40])
                    store(st.target, new)
                elif isinstance(st, ast.For):
                    if any(isinstance(x, (ast.Return, ast.Break, ast.Continue)) for x in ast.walk(st)):
                        raise Und("loop with an exit")
                    env.pop(u(st.target), None)
                    ex(st.body)  # one representative iteration (the optimizer's parameter groups)
                elif isinstance(st, ast.With):
                    ex(st.body)
                elif isinstance(st, ast.Return):
                    raise _Ret(ev(st.value) if st.value is not None else None)
                elif isinstance(st, (ast.Expr, ast.Pass, ast.Assert)):
                    continue
                elif isinstance(st, ast.Raise):
                    raise Und("a raise on an interpreted path")
                else:
                    raise Und(type(st).__name__)

        ret = None
        try:
            ex(self.body, top=True)
        except _Ret as r:
            ret = r.v
        return row, ret, events


def _raises(body) -> bool:
    return bool(body) and isinstance(body[-1], ast.Raise)


def _as_load(t):
    import copy
    t2 = copy.deepcopy(t)
    t2.ctx = ast.Load()
    return t2


def _fmt(v):
    if isinstance(v, dict):
        return {k: _fmt(x) for k, x in v.items()}
    if isinstance(v, (list, tuple)):
        return [_fmt(x) for x in v]
    return str(v) if isinstance(v, Fraction) else v


def spec_update(row, preds, P, epoch):
    row = dict(row)
    events = []
    if row["es_resume_cd"]:
        row["es_resume_cd"] -= 1
    elif preds["es"]:
        row["es_patience_cd"] = max(row["es_patience_cd"] - 1, 0)
    else:
        row["es_patience_cd"] = P["early_stopping_patience"]
    if row["rlr_resume_cd"]:
        row["rlr_resume_cd"] -= 1
    elif preds["rlr"]:
        row["rlr_patience_cd"] -= 1
        if not row["rlr_patience_cd"]:
            new = row["lr"] * P["reduce_lr_factor"]
            if row["lr"] - new > Fraction(10) ** P["reduce_lr_log10_epsilon"]:
                row["lr"] = new
                events.append(("optimizer-lr", new))
            row["rlr_resume_cd"] = P["reduce_lr_cooldown"]
            row["rlr_patience_cd"] = P["reduce_lr_patience"]
    else:
        row["rlr_patience_cd"] = P["reduce_lr_patience"]
    return row, spec_continue(row, P, epoch), events


def spec_continue(row, P, epoch):
    cont = (not P["num_epochs"]) or epoch < P["num_epochs"]
    if P["early_stopping_threshold"] and not row["es_patience_cd"]:
        cont = False
    return cont


def transition_table(m: Machine):
    """Compare update_for_epoch with the documented transition over the grid. Returns (points, first mismatch or None)."""
    bad, n = None, 0
    for er in (0, 1, 2):
        for ep in (0, 1, 2):
            for rr in (0, 1):
                for rp in (1, 2):
                    for pe in (True, False):
                        for pr in (True, False):
                            # factor 1/8: the CHANGE (7/8 of the rate) and the NEW rate (1/8 of it) are different quantities - change well
                            # above, below, exactly at epsilon, and above it with the new rate below it
                            for lr in (Fraction(1, 10), Fraction(1, 10 ** 9), Fraction(8, 7 * 10 ** 6), Fraction(2, 10 ** 6)):
                                for thr in (Fraction(1, 10), 0):
                                    for ne, epoch in ((None, 3), (0, 3), (5, 3), (3, 3), (2, 3)):
                                        row0 = dict(es_resume_cd=er, es_patience_cd=ep, rlr_resume_cd=rr, rlr_patience_cd=rp, lr=lr)
                                        preds = dict(es=pe, rlr=pr)
                                        P = dict(PARAMS, early_stopping_threshold=thr, num_epochs=ne)
                                        got = m.run(dict(row0), preds, P, epoch)
                                        want = spec_update(row0, preds, P, epoch)
                                        n += 1
                                        g = ({k: got[0].get(k) for k in want[0]}, bool(got[1]) if got[1] is not None else None, got[2])
                                        if g != want and bad is None:
                                            bad = dict(row=_fmt(row0), no_improvement=preds, es_threshold=str(thr), num_epochs=ne, epoch=epoch,
                                                       does=_fmt(g), documented=_fmt(want))
    return n, bad


def continue_table(m: Machine):
    bad, n = None, 0
    for ep in (0, 1, 2):
        for er in (0, 1):
            for thr in (Fraction(1, 10), 0):
                for ne, epoch in ((None, 3), (0, 3), (5, 3), (3, 3), (2, 3)):
                    row0 = dict(es_resume_cd=er, es_patience_cd=ep, rlr_resume_cd=1 - er, rlr_patience_cd=2 - ep, lr=Fraction(1, 10))
                    P = dict(PARAMS, early_stopping_threshold=thr, num_epochs=ne)
                    got = m.run(dict(row0), dict(es=False, rlr=False), P, epoch)
                    want = spec_continue(row0, P, epoch)
                    n += 1
                    g = bool(got[1]) if got[1] is not None else None
                    if (g != want or got[0] != row0) and bad is None:
                        bad = dict(row=_fmt(row0), es_threshold=str(thr), num_epochs=ne, epoch=epoch, does=g, documented=want)
    return n, bad


def predicate_tables(m: Machine):
    """Each no-improvement predicate found by the transition run, tabulated over (reference metric, new metric, threshold) against
    max(reference - new, 0) < threshold. Returns {kind: (points, first mismatch)}."""
    out = {}
    vals = (Fraction(0), Fraction(1, 2), Fraction(1), Fraction(2))
    for node, kind in list(m.pred_nodes.items()):
        bad, n = None, 0
        for r in vals:
            for v in vals:
                for thr in (Fraction(0), Fraction(1, 2), Fraction(1), Fraction(3)):
                    P = dict(PARAMS, early_stopping_threshold=thr, reduce_lr_threshold=thr)
                    m2_row = dict(es_resume_cd=0, es_patience_cd=1, rlr_resume_cd=0, rlr_patience_cd=1, lr=Fraction(1, 10))
                    got = _eval_pred(m, node, m2_row, P, r, v)
                    want = max(r - v, 0) < thr
                    n += 1
                    if bool(got) != want and bad is None:
                        bad = dict(reference=str(r), new=str(v), threshold=str(thr), does=bool(got), documented=want)
        prev = out.get(kind)
        if prev is None or (prev[1] is None and bad is not None):
            out[kind] = (n + (prev[0] if prev else 0), bad, node)
    return out


def _eval_pred(m, node, row, P, ref, val):
    """Evaluate one predicate node in a machine whose predicates are NOT inputs."""
    holder = {}
    f = ast.FunctionDef(name="_p", args=m.f.args, body=[ast.Return(value=node)], decorator_list=[], lineno=node.lineno, col_offset=0)
    saved_body, saved_rel = m.body, m.relevant
    m.body, m.relevant = [f.body[0]], {id(f.body[0])}
    try:
        return m.run(dict(row), None, P, 3, ref=ref, val=val)[1]
    finally:
        m.body, m.relevant = saved_body, saved_rel
