"""C18: structural clauses (see DESIGN.md section 4)."""
from __future__ import annotations

from rules import fwd as R_fwd
from .common import Ctx, plumbing


def run(ctx: Ctx):
    plumbing(ctx, 'S1')
    R_fwd.g5_module_pairs(ctx.pkg, ctx.res, ctx.col, only=['feat_deltas', 'mean_var_norm', 'time_distributed_return'], clause='S1')
    ctx.col.floor('g5_pairs', ctx.col.counts.get('g5_pairs', 0), 3)
    R_fwd.g7_cli(ctx.pkg, ctx.res, ctx.col, clause='S2', only={'compute_mvn_stats_for_torch_feat_data_dir'})
    ctx.col.floor('g7_commands', ctx.col.counts.get('g7_commands', 0), 1)
    return dict(explanation='plumbing clauses only (work in progress)', decided=['S1'], not_decided=[])
