"""C18 normalisation statistics, deltas, returns: additive-monoid rule for accumulate (G16),
store formulas (G12), forwarding (G5/G1/G7), gamma == 0 short-circuit (G8/G9)."""
from __future__ import annotations

import ast

from rules import fwd as R_fwd
from sa.astutil import call_name, guards_of, kwarg, parent_map, u
from sa.defuse import ReachingDefs
from sa.model import AnalysisError, own_calls, own_nodes
from sa.norm import Normalizer, padd, pstr
from sa.resolve import bind_args
from .common import Ctx, plumbing

MOD = "_feats"
CLS = "MeanVarianceNormalization"
STATS = ("count", "sum", "sumsq")


def run(ctx: Ctx):
    col, pkg, res = ctx.col, ctx.pkg, ctx.res
    rel = pkg.module(MOD).relname
    acc = pkg.func(f"{MOD}::{CLS}.accumulate")
    store = pkg.func(f"{MOD}::{CLS}.store")
    W = lambda m: f"{rel}::{CLS}.{m}"

    # ---- S1 accumulate is an additive homomorphism of the data --------------------------------------------------
    rd = ReachingDefs(acc.node)
    alias = {}  # local name -> statistic
    for d in rd.defs:
        v = d.value
        if d.kind == "unpack" and isinstance(v, ast.Tuple) and d.slot and len(d.slot) == 1:
            e = v.elts[d.slot[0]]
            if isinstance(e, ast.Attribute) and u(e.value) == "self" and e.attr in STATS:
                alias[d.name] = e.attr
        elif d.kind == "assign" and isinstance(v, ast.Attribute) and u(v.value) == "self" and v.attr in STATS:
            alias[d.name] = v.attr
    # (a,b,c = self.count, self.sum, self.sumsq is bound element-wise by the def-use engine as plain assigns)
    for d in rd.defs:
        if d.kind == "assign" and isinstance(d.value, ast.Attribute) and u(d.value.value) == "self" and d.value.attr in STATS:
            alias[d.name] = d.value.attr
    updates = {}
    others = []
    for n in own_nodes(acc.node):
        tgt = None
        if isinstance(n, ast.AugAssign):
            tgt = n.target
        elif isinstance(n, ast.Assign) and len(n.targets) == 1:
            tgt = n.targets[0]
        if tgt is None:
            continue
        stat = None
        if isinstance(tgt, ast.Name) and tgt.id in alias:
            stat = alias[tgt.id]
        elif isinstance(tgt, ast.Attribute) and u(tgt.value) == "self" and tgt.attr in STATS:
            stat = tgt.attr
        if stat is None:
            continue
        if isinstance(n, ast.AugAssign) and isinstance(n.op, ast.Add):
            der = rd.derives(n.value)
            reads_stats = {alias.get(d.name) for d in der.defs if d.name in alias} | {
                x.attr for x in der.nodes() if isinstance(x, ast.Attribute) and u(x.value) == "self" and x.attr in STATS}
            reads_stats.discard(None)
            updates.setdefault(stat, []).append((n, reads_stats, "x" in der.params()))
        else:
            # initialisation to zeros under `self.count is None` is allowed
            gs = guards_of(parent_map(acc.node), n)
            init_ok = isinstance(n, ast.Assign) and isinstance(n.value, ast.Call) and call_name(n.value) == "torch.zeros" \
                and any(u(t) == "self.count is None" and pol for t, pol in gs)
            if not init_ok:
                others.append(n)
    for stat in STATS:
        us = updates.get(stat, [])
        ok = len(us) == 1 and not us[0][1] and us[0][2]
        col.ob("G16", "S1", f"{W('accumulate')}::{stat}+=term(x)", ok,
               f"`{stat}` must be updated exactly once, by in-place addition of a term computed from the new batch alone "
               f"(found {[u(x[0]) for x in us]}, reading statistics {[sorted(x[1]) for x in us]}): otherwise the stored "
               f"statistics depend on how the data was partitioned / ordered", rel, us[0][0].lineno if us else acc.line,
               sample=[u(x[0]) for x in us])
    col.ob("G16", "S1", f"{W('accumulate')}::no-other-writes-to-statistics", not others,
           f"`{u(others[0]) if others else ''}` overwrites an accumulated statistic", rel, others[0].lineno if others else acc.line)
    # the terms: frames counted, sum and sum of squares over the same flattened layout (axis 1 = everything but `dim`)
    from sa.inline import Inliner
    inl_a = Inliner(acc.node, rd, keep=set(alias))
    xp = acc.params[1].name
    LAY = f"{xp}.transpose(0, self.dim).unsqueeze(-1).flatten(1)"
    terms = {s: inl_a.text(updates[s][0][0].value) for s in STATS if updates.get(s)}
    layout = LAY if all(LAY in t for t in terms.values()) else None
    # the accumulators are allocated in double precision, all three alike: a single-precision sum of squares loses the variance of data
    # whose offset is large against its spread (sumsq / count - mean^2 cancels), whatever the partition
    allocs = {}
    for n in own_nodes(acc.node):
        if isinstance(n, ast.Assign) and isinstance(n.value, ast.Call) and call_name(n.value) in ("torch.zeros", "torch.zeros_like", "torch.empty", "torch.full"):
            for t_ in n.targets:
                if isinstance(t_, ast.Attribute) and u(t_.value) == "self" and t_.attr in STATS:
                    dt = kwarg(n.value, "dtype")
                    allocs[t_.attr] = u(dt) if dt is not None else None
    col.floor("statistic_allocations", len(allocs), 3)
    col.ob("G28", "S1", f"{W('accumulate')}::statistics-accumulate-in-double-precision", all(v in ("torch.double", "torch.float64") for v in allocs.values()),
           f"the accumulators are allocated as {allocs}: each of count / sum / sumsq must be double precision (an accumulator left at the default "
           f"single precision silently rounds every batch's contribution, and the variance sumsq / count - mean^2 cancels catastrophically for "
           f"data with a large offset)", rel, acc.line, sample=allocs)
    _norm_table(ctx)
    _deltas_table(ctx)
    mvn_decided = _mvn_table(ctx)  # (by value; the spelling rules below decide only when the code is outside the interpreted fragment)
    col.ob("G12", "S1", f"{W('accumulate')}::terms", mvn_decided or terms == {"count": f"{LAY}.shape[1]", "sum": f"{LAY}.sum(1)", "sumsq": f"{LAY}.square().sum(1)"},
           f"the accumulated terms are {terms} over the layout `{layout}`; expected the number of frames, the sum and the "
           f"sum of squares over axis 1 of x.transpose(0, dim)...flatten(1)", rel, acc.line, sample=terms)
    # ---- store: formulas -------------------------------------------------------------------------------------------
    # The stored mean and standard deviation as functions of (count, sum, sumsq): `store` specialised on each value of `bessel`,
    # the right-hand sides forward-substituted, and the resulting expressions evaluated over rationals at a few points (an
    # evaluator over the syntax tree - nothing of the repository runs). Whether the variance gets a name, the correction is an
    # in-place `*=` or a factor, the root is in place or not, does not matter.
    from fractions import Fraction
    from sa.specialise import specialise

    class _NoF(Exception):
        pass

    def _ev_stat(e, env, inl, depth=0):
        if depth > 40:
            raise _NoF("depth")
        if isinstance(e, ast.Constant) and isinstance(e.value, (int, float)) and not isinstance(e.value, bool):
            return Fraction(str(e.value))
        if isinstance(e, ast.Attribute) and u(e.value) == "self" and e.attr in STATS:
            return env[e.attr]
        if isinstance(e, ast.Name):
            v = inl.value_of(e)
            if v is None:
                raise _NoF(f"`{e.id}`")
            return _ev_stat(v, env, inl, depth + 1)
        if isinstance(e, ast.UnaryOp) and isinstance(e.op, ast.USub):
            return -_num(_ev_stat(e.operand, env, inl, depth + 1))
        if isinstance(e, ast.BinOp):
            x, y = _num(_ev_stat(e.left, env, inl, depth + 1)), _num(_ev_stat(e.right, env, inl, depth + 1))
            if isinstance(e.op, ast.Add):
                return x + y
            if isinstance(e.op, ast.Sub):
                return x - y
            if isinstance(e.op, ast.Mult):
                return x * y
            if isinstance(e.op, ast.Div):
                return x / y
            if isinstance(e.op, ast.Pow) and y.denominator == 1:
                return x ** int(y)
            raise _NoF(u(e)[:40])
        if isinstance(e, ast.Call):
            cn = call_name(e)
            if isinstance(e.func, ast.Attribute) and not cn.startswith("torch."):
                recv, m, args = e.func.value, e.func.attr, e.args
            elif cn.startswith("torch.") and e.args:
                recv, m, args = e.args[0], cn.split(".")[-1], e.args[1:]
            else:
                raise _NoF(u(e)[:40])
            x = _ev_stat(recv, env, inl, depth + 1)
            if m in ("square", "square_") and not args:
                return _num(x) * _num(x)
            if m in ("pow", "pow_") and len(args) == 1 and u(args[0]) == "2":
                return _num(x) * _num(x)
            if m in ("clamp_min", "clamp_min_") and len(args) == 1 and u(args[0]) in ("0", "0.0"):
                return ("clamp0", x)
            if m in ("relu", "relu_") and not args:
                return ("clamp0", x)
            if m in ("sqrt", "sqrt_") and not args:
                return ("sqrt", x)
            if m in ("double", "float", "clone", "detach", "to", "type_as", "contiguous"):
                return x
            raise _NoF(u(e)[:40])
        raise _NoF(u(e)[:40])

    def _num(x):
        if isinstance(x, tuple):
            raise _NoF("arithmetic on a root / clamp")
        return x
    PTS = [dict(count=Fraction(2), sum=Fraction(3), sumsq=Fraction(7)), dict(count=Fraction(5), sum=Fraction(1), sumsq=Fraction(9)),
           dict(count=Fraction(3), sum=Fraction(-4), sumsq=Fraction(11)), dict(count=Fraction(7), sum=Fraction(2), sumsq=Fraction(5))]
    for bval in (() if mvn_decided else (True, False)):
        try:
            node_b, _ = specialise(store.node, {"bessel": bval}, inline_tests=True)
            rdb = ReachingDefs(node_b)
            inl_b = Inliner(node_b, rdb)
            outs = {}
            for n in ast.walk(node_b):
                if isinstance(n, ast.Assign):
                    for t in n.targets:
                        if u(t) in ("self.mean", "self.std"):
                            outs.setdefault(u(t), []).append(n.value)
            badm = bads = None
            if len(outs.get("self.mean", [])) != 1 or len(outs.get("self.std", [])) != 1:
                badm = bads = f"stores found: { {k: len(v) for k, v in outs.items()} }"
            else:
                for env in PTS:
                    C, S_, Q = env["count"], env["sum"], env["sumsq"]
                    gm = _ev_stat(inl_b.expand(outs["self.mean"][0]), env, inl_b)
                    if gm != S_ / C and badm is None:
                        badm = f"at (count, sum, sumsq) = ({C}, {S_}, {Q}) the stored mean is {gm}, expected {S_ / C}"
                    gs = _ev_stat(inl_b.expand(outs["self.std"][0]), env, inl_b)
                    V = Q / C - (S_ / C) ** 2
                    if bval:
                        V = V * C / (C - 1)
                    inner = gs[1] if isinstance(gs, tuple) and gs[0] == "sqrt" else None
                    if isinstance(inner, tuple) and inner[0] == "clamp0":
                        inner = inner[1]
                    if (inner is None or isinstance(inner, tuple) or inner != V) and bads is None:
                        bads = f"at (count, sum, sumsq) = ({C}, {S_}, {Q}) the stored std is {gs}, expected the root of {V}"
            col.ob("G12", "S1", f"{W('store')}::mean=sum/count[bessel={bval}]", badm is None, f"{badm}", rel, store.line)
            col.ob("G12", "S1", f"{W('store')}::std=sqrt(var)[bessel={bval}]", bads is None,
                   f"{bads} (variance = sumsq / count - mean^2" + (", times count / (count - 1)" if bval else "") + ")", rel, store.line)
        except _NoF as ex_:
            col.undecided(f"{W('store')}: the stored statistics are outside the evaluated fragment ({ex_})")
    # store reads only the three statistics
    reads = {x.attr for x in own_nodes(store.node) if isinstance(x, ast.Attribute) and isinstance(x.ctx, ast.Load) and u(x.value) == "self"}
    col.ob("G16", "S1", f"{W('store')}::reads-only-the-statistics", reads <= set(STATS),
           f"store reads {sorted(reads - set(STATS))} besides the accumulated statistics", rel, store.line, sample=sorted(reads))
    # mean_var_norm without stored statistics uses the input's own (population) statistics
    mvn = pkg.func(f"{MOD}::mean_var_norm")
    pmv = parent_map(mvn.node)
    own = {}
    for n in own_nodes(mvn.node):
        if isinstance(n, ast.Assign) and u(n.targets[0]) in ("mean", "std"):
            gs = guards_of(pmv, n)
            if any(u(t) == f"{u(n.targets[0])} is None" and pol for t, pol in gs):
                own[u(n.targets[0])] = u(n.value)
    col.ob("G12", "S1", f"{rel}::mean_var_norm::own-statistics-when-none-stored",
           set(own) == {"mean", "std"} and own["mean"].endswith(".mean(1)") and own["std"].endswith(".std(1, False)"),
           f"without stored statistics the function uses {own}; expected the input's own mean and population (unbiased="
           f"False) standard deviation", rel, mvn.line, sample=own)

    # ---- S2 forwarding ----------------------------------------------------------------------------------------------
    R_fwd.g5_module_pairs(pkg, res, col, only={"mean_var_norm", "feat_deltas", "time_distributed_return"}, clause="S2")
    col.floor("g5_pairs", col.counts.get("g5_pairs", 0), 3)
    R_fwd.g7_cli(pkg, res, col, clause="S2", only={"compute_mvn_stats_for_torch_feat_data_dir"})
    cli = pkg.func("command_line::compute_mvn_stats_for_torch_feat_data_dir")
    ctor = [c for c in own_calls(cli.node) if call_name(c).endswith("MeanVarianceNormalization")]
    st = [c for c in own_calls(cli.node) if isinstance(c.func, ast.Attribute) and c.func.attr == "store"]
    okc = len(ctor) == 1 and len(ctor[0].args) == 1 and u(ctor[0].args[0]).endswith(".dim")
    oks = len(st) == 1 and [(k.arg, u(k.value).split(".")[-1]) for k in st[0].keywords] == [("bessel", "bessel")] and not st[0].args
    col.ob("G1", "S2", "command_line.py::compute_mvn_stats_for_torch_feat_data_dir::MeanVarianceNormalization(dim)/store(bessel)",
           okc and oks, f"the command builds {u(ctor[0]) if ctor else None} and calls {u(st[0]) if st else None}", "command_line.py", cli.line)
    accs = [c for c in own_calls(cli.node) if isinstance(c.func, ast.Attribute) and c.func.attr == "accumulate"]
    col.ob("G1", "S2", "command_line.py::compute_mvn_stats_for_torch_feat_data_dir::every-tensor-accumulated-once", len(accs) == 1,
           f"accumulate is called at {len(accs)} sites", "command_line.py", cli.line)

    # ---- S3 discounted return: gamma == 0 returns the rewards themselves; layouts are transposes of each other ---
    tdr = pkg.func("_rl::time_distributed_return")
    pmt = parent_map(tdr.node)
    # specialised on gamma == 0 (the test may be `not gamma`, `gamma == 0`, or the complement of `if gamma:`), every return that
    # remains either hands back the rewards (possibly copied) or is the general matrix path, which the next rule derives
    from sa.specialise import specialise as _spec
    from sa.inline import Inliner as _Inl0
    gname_ = tdr.params[1].name
    rname_ = tdr.params[0].name
    node0, _ = _spec(tdr.node, {gname_: 0.0}, inline_tests=True)
    inl0 = _Inl0(node0)
    rets0 = [n for n in ast.walk(node0) if isinstance(n, ast.Return) and n.value is not None]
    bad0 = []
    for n in rets0:
        x = inl0.expand(n.value)
        same = u(x) in (rname_, f"{rname_}.clone()", f"{rname_} + 0", f"{rname_} * 1")
        general = any(isinstance(c, ast.Call) and call_name(c).split(".")[-1] in ("matmul", "mm", "bmm", "einsum") for c in ast.walk(x))
        if not (same or general):
            bad0.append(u(n.value))
    col.ob("G9", "S3", "_rl.py::time_distributed_return::gamma==0-returns-r", bool(rets0) and not bad0,
           f"with gamma == 0 the function returns {bad0}, not the rewards themselves (R_t = r_t)", "_rl.py", tdr.line)
    # the discount matrix, derived symbolically per layout: R[t] = sum over t' >= t of gamma^(t' - t) r[t']
    _discount_matrix(ctx, tdr)
    # ---- S4 feat_deltas: each dimension argument is normalised against the rank of the tensor it indexes -----------
    _delta_dims(ctx)
    _time_axis_round_trip(ctx)
    # ---- S5 store refuses exactly the counts for which a divisor on its path is zero ------------------------------
    if not mvn_decided:
        _store_threshold(ctx)
    # ---- S1' store only reads the accumulated statistics: no in-place operation on them or on their aliases -------
    _store_is_read_only(ctx)
    _sqrt_of_a_difference_is_clamped(ctx)
    plumbing(ctx, "S2")
    return dict(
        explanation=(
            "Decides for C18: (S1) accumulate updates count / sum / sumsq exactly once each, by in-place addition of terms "
            "computed from the new batch alone (an additive homomorphism, hence invariant to partition and order in exact "
            "arithmetic), over one flattened layout; store reads only these three and computes mean = sum/count, var = "
            "sumsq/count - mean^2, Bessel factor count/(count-1), std = sqrt(var); without stored statistics the input's "
            "own population statistics are used; (S2) Module->functional forwarding for normalisation, deltas and returns, "
            "the statistics command builds MeanVarianceNormalization(dim), accumulates every tensor once and stores with "
            "the requested Bessel flag; (S3) gamma == 0 returns the rewards themselves; for each layout the discount matrix, "
            "derived symbolically (index vector -> exponent vector -> row/column-constant matrices -> exponent difference "
            "-> triangle), has exponent t' - t on exactly t' >= t and is contracted over the time axis of r, i.e. R_t = "
            "sum_(t' >= t) gamma^(t' - t) r_t' (equivalently R_t = r_t + gamma R_(t+1), R beyond the horizon 0). "
            "(S4) in feat_deltas the negative forms of `time_dim` / `dim` are resolved against the rank of the input / of "
            "the output (input rank + 1 when stacking), and the range checks use the same rank; (S5) store raises exactly "
            "below the smallest count for which every divisor on its path is non-zero (1 without, 2 with Bessel's "
            "correction) [F23 repaired]. "
            "NOT decided: delta filter values and dimension shuffling, floating-point value of the discount powers, unit "
            "variance after normalisation (floating point)."),
        decided=["S1", "S2", "S3", "S4", "S5"],
        not_decided=["delta filter values / layout", "zero mean / unit variance numerically"],
        assumptions=["exact (real) arithmetic for partition invariance; double precision accumulation is trusted"],
    )


def _delta_dims(ctx: Ctx):
    """S4: feat_deltas is specialised for concatenate in (True, False); the modulus that resolves a negative `time_dim`
    (`dim`) must be the input rank (the output rank: input rank, plus one when the deltas are stacked)."""
    from sa import minmax as MM
    from sa.defuse import ReachingDefs
    from sa.specialise import specialise
    col, pkg = ctx.col, ctx.pkg
    f = pkg.func("_feats::feat_deltas")
    rel = f.module.relname
    xname = f.params[0].name
    n_ok = 0
    for conc in (True, False):
        node, folded = specialise(f.node, {"concatenate": conc})
        if folded < 1:
            raise AnalysisError("C18: feat_deltas no longer branches on `concatenate`")
        rd = ReachingDefs(node)

        def leaf_of_expr(e):
            if isinstance(e, ast.Attribute) and e.attr == "ndim" and u(e.value) == xname:
                return "R"
            if isinstance(e, ast.Call) and isinstance(e.func, ast.Attribute) and e.func.attr == "dim" and u(e.func.value) == xname and not e.args:
                return "R"
            return None
        ex = MM.Extractor(rd, lambda d: None, leaf_of_expr)
        for pname, extra, what in (("time_dim", 0, "input"), ("dim", 0 if conc else 1, "output")):
            # the normalising definitions of the formal: `p = (p + M) % M`  or  `if p < 0: p += M`
            mods = []
            for d in rd.defs:
                if d.name != pname or d.kind not in ("assign", "aug"):
                    continue
                v = d.value
                if d.kind == "assign" and isinstance(v, ast.BinOp) and isinstance(v.op, ast.Mod) and isinstance(v.left, ast.BinOp) \
                        and isinstance(v.left.op, ast.Add):
                    a, b = v.left.left, v.left.right
                    other = b if (isinstance(a, ast.Name) and a.id == pname) else a
                    mods += [other, v.right]
                elif d.kind == "aug" and isinstance(v, ast.AugAssign) and isinstance(v.op, ast.Add):
                    mods.append(v.value)
                else:
                    col.undecided(f"C18: `{u(d.stmt)[:60]}` redefines `{pname}` in an unrecognised way")
            if not mods:
                raise AnalysisError(f"C18: feat_deltas does not resolve a negative `{pname}`")
            bad = []
            for m in mods:
                try:
                    t = ex.term(m)
                except MM.Unknown as e:
                    col.undecided(f"C18: modulus `{u(m)}` of `{pname}`: {e}")
                    continue
                env, g, w, n = MM.counterexample(t, lambda v: v["R"] + extra, (dict(R=r) for r in range(1, 7)))
                if env is not None:
                    bad.append((u(m), MM.show(t)))
            # range checks on the formal compare against the same rank
            for n_ in ast.walk(node):
                if isinstance(n_, ast.If) and any(isinstance(x, ast.Raise) for x in n_.body):
                    for c in ast.walk(n_.test):
                        if isinstance(c, ast.Compare) and isinstance(c.left, ast.Name) and c.left.id == pname and len(c.ops) == 1 \
                                and isinstance(c.ops[0], ast.GtE):
                            try:
                                t = ex.term(c.comparators[0])
                            except MM.Unknown as e:
                                col.undecided(f"C18: bound `{u(c)}`: {e}")
                                continue
                            env, g, w, n = MM.counterexample(t, lambda v: v["R"] + extra, (dict(R=r) for r in range(1, 7)))
                            if env is not None:
                                bad.append((u(c), MM.show(t)))
            n_ok += 1
            col.ob("G19", "S4", f"{rel}::feat_deltas::{pname}-resolved-against-{what}-rank[concatenate={conc}]", not bad,
                   f"with concatenate={conc}, `{pname}` indexes the {what} tensor of rank R{'+1' if extra else ''} but is "
                   f"resolved / range-checked against {bad}: a negative `{pname}` lands on a different axis than the "
                   f"same position counted from the left", rel, f.line, sample=[u(m) for m in mods])
    col.floor("delta_dim_obligations", n_ok, 4)


def _deltas_table(ctx: Ctx):
    """S4 by value: `feat_deltas` interpreted over exact values (sa/interp.py + sa/teval.py; `pad` on the last axis and `conv1d` are
    leaves computed exactly, the filters are handed in) for a (2, 3, 4) tensor, EVERY time axis (positive and negative), every target
    axis, stacked and concatenated: the order-o block is the o-th regression of the input along the time axis (replicated edges), laid
    out along the requested axis - `stack(blocks, dim)`, or `cat(blocks, dim)` when concatenating."""
    import numpy as np
    from fractions import Fraction as Fr
    from sa.interp import Interp
    from sa.inteval import NotEvaluable
    from sa.teval import frac_array
    col, pkg = ctx.col, ctx.pkg
    f = pkg.func(f"{MOD}::feat_deltas")
    rel = f.module.relname
    names = [p_.name for p_ in f.params]
    x = np.arange(24).reshape(2, 3, 4) ** 2 % 17
    filters = [[Fr(0), Fr(1), Fr(0)], [Fr(-1, 2), Fr(0), Fr(1, 2)]]  # order 1, width 1

    def blocks(time_ax):
        xs = np.moveaxis(frac_array(x.tolist()), time_ax, -1)
        pad = np.concatenate([xs[..., :1], xs, xs[..., -1:]], -1)
        out = []
        for filt in filters:
            o = np.zeros(xs.shape, dtype=object)
            for k_, c_ in enumerate(filt):
                o = o + pad[..., k_:k_ + xs.shape[-1]] * c_
            out.append(np.moveaxis(o, -1, time_ax))
        return out
    bad, n = None, 0
    try:
        for time_dim in range(-3, 3):
            for concat in (True, False):
                D = 3 if concat else 4
                for dim in range(-D, D):
                    holder = {}

                    def leaf(e, env):
                        it = holder["it"]
                        if isinstance(e, ast.Call):
                            cn = call_name(e)
                            if cn.endswith("functional.pad") or cn == "F.pad":
                                a = np.asarray(it.eval(e.args[0], env), dtype=object)
                                p_ = it.eval(e.args[1], env)
                                l_, r_ = int(p_[0]), int(p_[1])
                                return np.concatenate([np.repeat(a[..., :1], l_, -1), a, np.repeat(a[..., -1:], r_, -1)], -1)
                            if cn.endswith("conv1d"):
                                a, w = np.asarray(it.eval(e.args[0], env), dtype=object), np.asarray(it.eval(e.args[1], env), dtype=object)
                                M, _, L = a.shape
                                O, _, K = w.shape
                                out = np.zeros((M, O, L - K + 1), dtype=object)
                                for o_ in range(O):
                                    for k_ in range(K):
                                        out[:, o_, :] = out[:, o_, :] + a[:, 0, k_:k_ + L - K + 1] * w[o_, 0, k_]
                                return out
                            if cn == "movedim" and len(e.args) == 3:
                                return np.moveaxis(it.eval(e.args[0], env), int(it.eval(e.args[1], env)), int(it.eval(e.args[2], env)))
                        return None
                    it = Interp(leaf=leaf, tensors=True)
                    holder["it"] = it
                    env = dict(zip(names, (frac_array(x.tolist()), dim, time_dim, concat, 1, 1, "replicate", Fr(0), frac_array(filters))))
                    kind, got = it.run(f.node, env)
                    n += 1
                    bl = blocks(time_dim % 3)
                    want = np.concatenate(bl, dim % 3) if concat else np.stack(bl, dim % 4)
                    ok = kind == "return" and hasattr(got, "shape") and got.shape == want.shape and np.asarray(got, dtype=object).tolist() == want.tolist()
                    if not ok and bad is None:
                        bad = (time_dim, dim, concat, tuple(got.shape) if kind == "return" and hasattr(got, "shape") else f"{kind} {got}", want.shape)
    except NotEvaluable:
        return
    col.count("deltas_table_rows", n)
    col.ob("G12", "S4", f"{rel}::feat_deltas::layout-table", bad is None,
           (f"time_dim={bad[0]}, dim={bad[1]}, concatenate={bad[2]} on a (2, 3, 4) input: feat_deltas returns a tensor of shape {bad[3]} that differs from "
            f"the regressions along the time axis {'concatenated' if bad[2] else 'stacked'} along dim (shape {bad[4]})") if bad else "", rel, f.line, sample=dict(rows=n))


def _norm_table(ctx: Ctx):
    """S1b by value: `mean_var_norm` interpreted over exact values (sa/interp.py + sa/teval.py): the result is (x - mean) / max(std, eps)
    along the feature axis - with stored statistics (a stored deviation BELOW eps, zero included, is raised to eps: a coefficient that was
    constant over the accumulated frames gives 0, not NaN), with the input's own population statistics when none are stored (frames
    chosen so that the deviations are rational), for the feature axis first, last and negative."""
    import numpy as np
    from fractions import Fraction as Fr
    from sa.interp import Interp
    from sa.inteval import NotEvaluable
    from sa.teval import frac_array
    col, pkg = ctx.col, ctx.pkg
    f = pkg.func(f"{MOD}::mean_var_norm")
    rel = f.module.relname
    names = [p_.name for p_ in f.params]
    frames = np.array([[1, 0, 7], [3, 4, 7]])  # 2 frames x 3 coefficients: population deviations 1, 2, 0
    eps = Fr(1, 20)
    bad, n = None, 0
    try:
        for dim, x in ((1, frames), (-1, frames), (0, frames.T), (-2, frames.T)):
            ax = dim % 2
            for tag, mean, std in (("stored", [Fr(1), Fr(2), Fr(3)], [Fr(2), Fr(1, 1000), Fr(0)]), ("own", None, None), ("stored mean only", [Fr(1), Fr(2), Fr(3)], None)):
                env = dict(zip(names, (frac_array(x.tolist()), dim, frac_array(mean) if mean is not None else None, frac_array(std) if std is not None else None, eps)))
                kind, got = Interp(tensors=True).run(f.node, env)
                n += 1
                xs = np.moveaxis(frac_array(x.tolist()), ax, -1)  # (frames, coefficients)
                mu = mean if mean is not None else [sum(xs[:, k_].tolist(), Fr(0)) / xs.shape[0] for k_ in range(xs.shape[1])]
                if std is not None:
                    sd = std
                else:
                    sd = []
                    for k_ in range(xs.shape[1]):
                        v_ = sum(((z_ - mu[k_]) ** 2 for z_ in xs[:, k_].tolist()), Fr(0)) / xs.shape[0]
                        r_ = Fr(int(v_ ** Fr(1, 2))) if v_ >= 0 and Fr(int(float(v_) ** 0.5)) ** 2 == v_ else None
                        sd.append(r_)
                if any(s_ is None for s_ in sd):
                    continue  # (an irrational deviation: not a row of this table)
                want = np.empty(xs.shape, dtype=object)
                for i_ in range(xs.shape[0]):
                    for k_ in range(xs.shape[1]):
                        want[i_, k_] = (xs[i_, k_] - mu[k_]) / max(sd[k_], eps)
                want = np.moveaxis(want, -1, ax)
                ok = kind == "return" and hasattr(got, "shape") and got.shape == want.shape and np.asarray(got, dtype=object).tolist() == want.tolist()
                if not ok and bad is None:
                    bad = (dim, tag, [[str(v_) for v_ in r_] for r_ in np.asarray(got, dtype=object).tolist()] if kind == "return" and hasattr(got, "shape") else f"{kind} {got}",
                           [[str(v_) for v_ in r_] for r_ in want.tolist()])
    except NotEvaluable:
        return
    col.count("norm_table_rows", n)
    col.ob("G12", "S1", f"{rel}::mean_var_norm::normalisation-table", bad is None,
           (f"feature axis {bad[0]}, {bad[1]} statistics (eps = {eps}): mean_var_norm returns {str(bad[2])[:200]}; (x - mean) / max(std, eps) is {str(bad[3])[:200]}") if bad else "",
           rel, f.line, sample=dict(rows=n))


def _mvn_table(ctx: Ctx) -> bool:
    """S1 / S5 by value: `MeanVarianceNormalization.accumulate` and `.store` interpreted over exact values (sa/interp.py + sa/teval.py;
    nothing is run): a fresh normaliser accumulates zero, one or two batches (feature axis first, in the middle, last, negative), then
    stores with and without Bessel's correction, keeping or deleting the statistics. Compared with the definitions written out by hand:

        count = the number of frames seen, sum / sumsq = per-coefficient sum and sum of squares over everything but the feature axis,
        however the data was split into batches; store raises exactly when count < 1 (< 2 with Bessel's correction) - nothing
        accumulated included; mean = sum / count; std = sqrt(max(sumsq / count - mean^2, 0) [* count / (count - 1)]) (roots are kept exact:
        a rational for a perfect square, otherwise compared by radicand); the statistics are None afterwards iff delete_stats.

    Returns False when the code is outside the interpreted fragment (the symbolic rules below then decide)."""
    import numpy as np
    from fractions import Fraction as Fr
    from sa.interp import Interp
    from sa.inteval import NotEvaluable
    from sa.teval import exact_sqrt, frac_array
    col, pkg = ctx.col, ctx.pkg
    acc = pkg.func(f"{MOD}::MeanVarianceNormalization.accumulate")
    store = pkg.func(f"{MOD}::MeanVarianceNormalization.store")
    rel = acc.module.relname
    funcs = {st.name: st for st in pkg.module(MOD).tree.body if isinstance(st, ast.FunctionDef)}

    def lookup(c):
        return funcs.get(call_name(c)) if isinstance(c.func, ast.Name) and call_name(c).startswith("_") else None

    def leaf(x, env):
        if isinstance(x, ast.Call) and call_name(x) == "isinstance":
            return True
        return None
    batches = {
        0: [],
        1: [np.arange(12).reshape(2, 3, 2) % 5],
        2: [np.arange(12).reshape(2, 3, 2) % 5, (np.arange(24).reshape(4, 3, 2) * 7) % 11 - 3],
        3: [np.array([[[4, 9, 1]]]).reshape(1, 3, 1)],  # a single frame: count 1
    }
    bad, rows = None, 0
    try:
        # (last two: frame-by-frame accumulation - every batch a single frame handed in as a plain vector, feature axis 0 / -1)
        vecs = [np.array([4, 9, 1]), np.array([2, 0, 5])]
        for dim, key_xs in [(d_, kv_) for d_ in (1, -2) for kv_ in batches.items()] + [(0, (4, vecs)), (-1, (4, vecs))]:
            for key, xs in (key_xs,):
                for bessel in (False, True):
                    for delete in (True, False):
                        env = {"self.dim": dim, "self.eps": Fr(1, 1000), "self.count": None, "self.sum": None, "self.sumsq": None,
                               "self.mean": None, "self.std": None}
                        outcome = None
                        for x in xs:
                            e2 = {k: v for k, v in env.items()}
                            e2[acc.params[1].name] = frac_array(x.tolist())
                            kind, val = Interp(leaf=leaf, lookup=lookup, tensors=True).run(acc.node, e2)
                            for k in list(e2):
                                if k.startswith("self."):
                                    env[k] = e2[k]
                            if kind != "return":
                                outcome = f"accumulate raises {val}"
                        rows += 1
                        frames = np.concatenate([np.moveaxis(x, dim, 0).reshape(x.shape[dim], -1) for x in xs], 1) if xs else None
                        n = 0 if frames is None else frames.shape[1]
                        if outcome is None and xs:
                            cnt = env.get("self.count")
                            ok_acc = cnt is not None and [Fr(v) for v in np.asarray(cnt).reshape(-1).tolist()] == [Fr(n)] \
                                and np.asarray(env["self.sum"]).tolist() == [Fr(int(v)) for v in frames.sum(1)] \
                                and np.asarray(env["self.sumsq"]).tolist() == [Fr(int(v)) for v in (frames * frames).sum(1)]
                            if not ok_acc:
                                outcome = (f"after accumulating {len(xs)} batch(es) with {n} frames in all (count, sum, sumsq) = "
                                           f"({_show(env.get('self.count'))}, {_show(env.get('self.sum'))}, {_show(env.get('self.sumsq'))}); expected "
                                           f"({n}, {frames.sum(1).tolist()}, {(frames * frames).sum(1).tolist()})")
                        if outcome is None:
                            e3 = dict(env)
                            names = [p_.name for p_ in store.params[1:]]
                            e3.update({names[0]: delete, names[1]: bessel})
                            kind, val = Interp(leaf=leaf, lookup=lookup, tensors=True).run(store.node, e3)
                            want_raise = n < (2 if bessel else 1)
                            if want_raise != (kind == "raise"):
                                outcome = (f"store(bessel={bessel}) with {n} accumulated frame(s) " + ("raises" if kind == "raise" else "does not raise")
                                           + f"; the statistics are defined from {2 if bessel else 1} frame(s) on")
                            elif kind == "return":
                                mean = [Fr(int(v), n) for v in frames.sum(1)]
                                var = [Fr(int(q), n) - m_ * m_ for q, m_ in zip((frames * frames).sum(1), mean)]
                                if bessel:
                                    var = [v * Fr(n, n - 1) for v in var]
                                std = [exact_sqrt(max(v, Fr(0))) for v in var]
                                gm, gs = e3.get("self.mean"), e3.get("self.std")
                                if gm is None or np.asarray(gm).tolist() != mean:
                                    outcome = f"store(bessel={bessel}) over {n} frames stores the mean {_show(gm)}; sum / count is {[str(v) for v in mean]}"
                                elif gs is None or np.asarray(gs).tolist() != std:
                                    outcome = (f"store(bessel={bessel}) over {n} frames stores the deviation {_show(gs)}; the root of the "
                                               f"{'corrected ' if bessel else ''}variance is {[str(v) for v in std]}")
                                else:
                                    gone = [e3.get(k) is None for k in ("self.count", "self.sum", "self.sumsq")]
                                    if gone != [delete] * 3:
                                        outcome = f"store(delete_stats={delete}) leaves (count, sum, sumsq) {'deleted' if all(gone) else 'in place' if not any(gone) else gone}"
                        if outcome is not None and bad is None:
                            bad = (dim, key, bessel, delete, outcome)
    except NotEvaluable:
        return False
    col.count("mvn_table_rows", rows)
    col.ob("G12", "S1", f"{rel}::MeanVarianceNormalization::accumulate-store-table", bad is None,
           (f"feature axis {bad[0]}, batches #{bad[1]}, bessel={bad[2]}, delete_stats={bad[3]}: {bad[4]}") if bad else "", rel, store.line, sample=dict(rows=rows))
    return True


def _show(v):
    import numpy as np
    if v is None:
        return "None"
    try:
        return str([str(x) for x in np.asarray(v).reshape(-1).tolist()])
    except Exception:
        return str(v)[:80]


def _store_threshold(ctx: Ctx):
    """S5: store is specialised for bessel in (True, False); the count below which it raises must be the smallest count
    for which every divisor on the path is non-zero (population statistics: count >= 1; Bessel: count - 1 >= 1)."""
    from sa.defuse import ReachingDefs
    from sa.norm import Normalizer, const_of, padd
    from sa.specialise import specialise
    col, pkg = ctx.col, ctx.pkg
    f = pkg.func("_feats::MeanVarianceNormalization.store")
    rel = f.module.relname
    for bessel in (True, False):
        node, folded = specialise(f.node, {"bessel": bessel})
        if folded < 1:
            raise AnalysisError("C18: store no longer branches on `bessel`")
        rd = ReachingDefs(node)

        def is_count(e):
            if isinstance(e, ast.Attribute) and u(e) == "self.count":
                return True
            if isinstance(e, ast.Name):
                ds = list(rd.defs_of(e))
                if len(ds) != 1:
                    return False
                d = ds[0]
                v = d.value
                if d.kind == "unpack" and isinstance(v, ast.Tuple) and d.slot and len(d.slot) == 1 and d.slot[0] < len(v.elts):
                    v = v.elts[d.slot[0]]
                return isinstance(v, ast.Attribute) and u(v) == "self.count"
            return False
        # divisors linear in the count
        need = 0
        divisors = []
        for n in ast.walk(node):
            den = None
            if isinstance(n, ast.BinOp) and isinstance(n.op, ast.Div):
                den = n.right
            elif isinstance(n, ast.AugAssign) and isinstance(n.op, ast.Div):
                den = n.value
            elif isinstance(n, ast.Call) and isinstance(n.func, ast.Attribute) and n.func.attr in ("div", "div_", "true_divide") and len(n.args) == 1:
                den = n.args[0]
            if den is None:
                continue
            cnt = [x for x in ast.walk(den) if is_count(x) and not (isinstance(x, ast.Attribute) and False)]
            if not cnt:
                continue
            nz = Normalizer()
            c = const_of(padd(nz.poly(den), nz.poly(cnt[0]), -1))
            if c is None:
                col.undecided(f"C18: divisor `{u(den)}` in store is not count + constant")
                continue
            divisors.append(u(den))
            need = max(need, 1 - int(c))
        ths = []
        for n in ast.walk(node):
            if isinstance(n, ast.If) and any(isinstance(x, ast.Raise) for x in n.body) and isinstance(n.test, ast.Compare) \
                    and len(n.test.ops) == 1 and not isinstance(n.test.ops[0], (ast.Is, ast.IsNot)):
                from sa.astutil import oriented
                o = oriented(n.test, is_count)
                if o is None:
                    continue
                op, _, k = o
                from sa.inline import Inliner as _InlT
                k = _InlT(node, rd).expand(k)  # `min_count = 2 if bessel else 1` (folded by the specialisation) is looked through
                kv = k.value if isinstance(k, ast.Constant) else None
                if op == "lt" and isinstance(kv, int):
                    ths.append(kv)
                elif op == "le" and isinstance(kv, int):
                    ths.append(kv + 1)
                else:
                    col.undecided(f"C18: refusal test `{u(n.test)}` of store")
        if not divisors:
            col.undecided("C18: store divides by nothing that depends on the count")
            continue
        got = max(ths) if ths else 0
        col.ob("G12", "S5", f"{rel}::MeanVarianceNormalization.store::refuses-exactly-undefined-counts[bessel={bessel}]",
               got == need,
               f"with bessel={bessel} the divisors on the path are {sorted(set(divisors))}: the statistics are defined from "
               f"{need} accumulated frame(s) on, but store raises below {got} "
               f"({'refuses data whose pooled statistics exist - the docstring promises one frame suffices without Bessel correction' if got > need else 'divides by zero'})",
               rel, f.line, sample=dict(divisors=sorted(set(divisors)), raises_below=got, defined_from=need))


def _discount_matrix(ctx: Ctx, tdr):
    """S3: for each layout (batch_first specialised away) the returned value is matmul(r, D) or matmul(D, r); D is
    evaluated symbolically as gamma^(ci * i + cj * j) kept on one triangle (arange -> index vector, pow(gamma, .) ->
    exponent vector, unsqueeze(1) / unsqueeze(0) -> row- / column-constant matrix, division -> exponent difference,
    tril / triu -> i >= j / i <= j). With (source, target) = (row, col) for matmul(r, D) and (col, row) for
    matmul(D, r), the documented return R_t = sum_{t' >= t} gamma^(t' - t) r_{t'} needs exponent source - target on
    exactly the triangle source >= target, contracted over the time axis of r."""
    from sa.defuse import ReachingDefs
    from sa.specialise import specialise
    col = ctx.col
    rname, gname = tdr.params[0].name, tdr.params[1].name

    class Undecided(Exception):
        pass

    # The returns as a table: the function interpreted over exact values (sa/interp.py + sa/teval.py; nothing is run) for a 4-step,
    # 2-sequence reward matrix and discount factors below, at and above one and negative, compared with the recursion
    # R_t = r_t + gamma * R_(t+1), R_T = 0. None = outside the interpreted fragment (then the symbolic rule below must decide).
    from fractions import Fraction as Fr
    import numpy as np
    from sa.interp import Interp
    from sa.inteval import NotEvaluable
    from sa.teval import frac_array
    table = {}
    for bf in (True, False):
        verdict = "ok"
        try:
            for gamma in (Fr(1, 2), Fr(1), Fr(2), Fr(-3, 2)):
                r_tn = frac_array([[Fr(1), Fr(-2)], [Fr(3), Fr(5, 2)], [Fr(-7), Fr(11)], [Fr(13), Fr(1, 3)]])  # (T, N)
                want = np.empty_like(r_tn)
                nxt = np.array([Fr(0), Fr(0)], dtype=object)
                for t_ in range(r_tn.shape[0] - 1, -1, -1):
                    nxt = want[t_] = r_tn[t_] + gamma * nxt
                env = {a.arg: None for a in tdr.node.args.args}
                env.update({rname: r_tn.T if bf else r_tn, gname: gamma, "batch_first": bf})
                kind, got = Interp(tensors=True).run(tdr.node, env)
                if kind != "return" or not np.array_equal(np.asarray(got, dtype=object), want.T if bf else want):
                    verdict = (gamma, kind, got, want.T if bf else want)
                    break
        except NotEvaluable:
            verdict = None
        table[bf] = verdict
        if verdict is not None:
            bad_ = verdict != "ok"
            col.ob("G12", "S3", f"_rl.py::time_distributed_return::returns-table[batch_first={bf}]", not bad_,
                   (f"with gamma = {verdict[0]} and batch_first={bf} the function computes {str(verdict[2].tolist() if hasattr(verdict[2], 'tolist') else verdict[2])[:80]} "
                    f"for the reference rewards; the recursion R_t = r_t + gamma * R_(t+1), R_T = 0 gives {str(verdict[3].tolist())[:80]}") if bad_ else "",
                   "_rl.py", tdr.line, sample=dict(gammas=4))
    for bf in (True, False):
        # (also specialised on a non-zero gamma: the gamma == 0 shortcut, however it is written, is the previous rule's business)
        node, folded = specialise(tdr.node, {"batch_first": bf, gname: 0.5}, inline_tests=True)
        if folded < 1:
            raise AnalysisError("C18: time_distributed_return no longer branches on batch_first")
        rd = ReachingDefs(node)
        time_axis = 1 if bf else 0
        ratio = []
        maskmul = []

        def ev(e, depth=0):
            if depth > 20:
                raise Undecided("depth")
            if isinstance(e, ast.Name):
                ds = list(rd.defs_of(e))
                if len(ds) == 1 and ds[0].kind == "assign":
                    return ev(ds[0].value, depth + 1)
                raise Undecided(f"`{e.id}` has {len(ds)} definitions")
            if isinstance(e, ast.Call):
                cn = call_name(e)
                if cn == "torch.arange" and len(e.args) == 1:
                    n = e.args[0]
                    from sa.astutil import extent_of as _eo
                    hops = 0
                    while isinstance(n, ast.Name) and hops < 5:  # a named extent `T = r.shape[1]`
                        ds_ = list(rd.defs_of(n))
                        if len(ds_) != 1 or ds_[0].kind != "assign":
                            break
                        n, hops = ds_[0].value, hops + 1
                    eo_ = _eo(n)
                    if eo_ is None or eo_[0] != rname:
                        raise Undecided(f"arange extent `{u(n)}`")
                    return ("index", eo_[1])
                if cn == "torch.pow" and len(e.args) == 2 and u(e.args[0]) == gname:
                    v = ev(e.args[1], depth + 1)
                    if v[0] == "imat":
                        return ("mat", v[1], v[2], None, v[3])
                    if v[0] != "index":
                        raise Undecided("pow of a non-index")
                    return ("vec", 1, v[1])
                if isinstance(e.func, ast.Attribute):
                    m = e.func.attr
                    if m in ("clamp_min", "clamp_min_", "clamp") and e.args and u(e.args[0]) == "0":
                        v = ev(e.func.value, depth + 1)
                        if v[0] == "imat":
                            return v  # negative exponents only occur on the discarded triangle
                        raise Undecided("clamp of a non-exponent")
                    if m == "unsqueeze" and len(e.args) == 1 and isinstance(e.args[0], ast.Constant):
                        v = ev(e.func.value, depth + 1)
                        if v[0] == "index":
                            if e.args[0].value in (1, -1):
                                return ("imat", 1, 0, v[1])
                            if e.args[0].value in (0, -2):
                                return ("imat", 0, 1, v[1])
                            raise Undecided("unsqueeze axis")
                        if v[0] != "vec":
                            raise Undecided("unsqueeze of a non-vector")
                        if e.args[0].value in (1, -1):
                            return ("mat", v[1], 0, None, v[2])
                        if e.args[0].value in (0, -2):
                            return ("mat", 0, v[1], None, v[2])
                        raise Undecided("unsqueeze axis")
                    if m in ("tril", "triu") and not e.args and not e.keywords:
                        v = ev(e.func.value, depth + 1)
                        if v[0] != "mat" or v[3] is not None:
                            raise Undecided("triangle of a non-matrix")
                        return ("mat", v[1], v[2], "i>=j" if m == "tril" else "i<=j", v[4])
                    if m in ("to", "contiguous", "clone"):
                        return ev(e.func.value, depth + 1)
            if isinstance(e, ast.BinOp) and isinstance(e.op, (ast.Sub, ast.Add)):
                a, b = ev(e.left, depth + 1), ev(e.right, depth + 1)
                if a[0] == "imat" and b[0] == "imat" and a[3] == b[3]:
                    sg = -1 if isinstance(e.op, ast.Sub) else 1
                    return ("imat", a[1] + sg * b[1], a[2] + sg * b[2], a[3])
                raise Undecided("sum of non-exponents")
            if isinstance(e, ast.BinOp) and isinstance(e.op, ast.Pow) and u(e.left) == gname:
                v = ev(e.right, depth + 1)
                if v[0] == "imat":
                    return ("mat", v[1], v[2], None, v[3])
                if v[0] == "index":
                    return ("vec", 1, v[1])
                raise Undecided("power of a non-index")
            if isinstance(e, ast.Compare) and len(e.ops) == 1 and isinstance(e.ops[0], (ast.GtE, ast.Gt, ast.LtE, ast.Lt)) \
                    and u(e.comparators[0]) in ("0", "0.0"):
                v = ev(e.left, depth + 1)
                if v[0] == "imat":
                    sg_ = 1 if isinstance(e.ops[0], (ast.GtE, ast.Gt)) else -1
                    return ("cond", sg_ * v[1], sg_ * v[2], v[3])
                raise Undecided("comparison of a non-exponent")
            if isinstance(e, ast.BinOp) and isinstance(e.op, ast.Mult):
                # a 0/1 mask multiplied onto the powers: `pow(gamma, t' - t) * (t' - t >= 0)`
                a, b = ev(e.left, depth + 1), ev(e.right, depth + 1)
                if a[0] == "cond":
                    a, b = b, a
                if a[0] == "mat" and b[0] == "cond" and a[3] is None and a[4] == b[3]:
                    maskmul.append(u(e)[:80])
                    keep_ = "i>=j" if (b[1], b[2]) == (1, -1) else "i<=j" if (b[1], b[2]) == (-1, 1) else "?"
                    return ("mat", a[1], a[2], keep_, a[4])
            if isinstance(e, ast.BinOp) and isinstance(e.op, (ast.Div, ast.Mult)):
                ratio.append(u(e)[:70])
                a, b = ev(e.left, depth + 1), ev(e.right, depth + 1)
                if a[0] != "mat" or b[0] != "mat" or a[3] or b[3] or a[4] != b[4]:
                    raise Undecided("ratio of non-matrices")
                sg = -1 if isinstance(e.op, ast.Div) else 1
                return ("mat", a[1] + sg * b[1], a[2] + sg * b[2], None, a[4])
            raise Undecided(f"`{u(e)[:50]}`")

        rets = [n for n in ast.walk(node) if isinstance(n, ast.Return) and n.value is not None and u(n.value) != rname]
        key = f"_rl.py::time_distributed_return::discount-matrix[batch_first={bf}]"
        try:
            if len(rets) != 1:
                raise Undecided(f"{len(rets)} returns")
            v = rets[0].value
            if isinstance(v, ast.Name):
                ds = list(rd.defs_of(v))
                if len(ds) != 1:
                    raise Undecided("returned value has several definitions")
                v = ds[0].value
            if not (isinstance(v, ast.Call) and call_name(v) in ("torch.matmul", "torch.mm") and len(v.args) == 2):
                raise Undecided(f"returned value `{u(v)[:40]}` is not a matrix product")
            a, b = v.args
            r_first = isinstance(a, ast.Name) and a.id == rname and all(d.kind == "param" for d in rd.defs_of(a))
            r_second = isinstance(b, ast.Name) and b.id == rname and all(d.kind == "param" for d in rd.defs_of(b))
            if r_first == r_second:
                raise Undecided("cannot tell which operand is the reward tensor")
            D = ev(b if r_first else a)
            if D[0] != "mat":
                raise Undecided("discount operand is not a matrix")
        except Undecided as e_:
            if table.get(bf) is None:
                col.undecided(f"C18: {key}: {e_}")  # (neither the value table nor the symbolic matrix decides this layout)
            continue
        _, ci, cj, keep, axis = D
        # matmul(r, D) contracts r's last axis with D's rows; matmul(D, r) contracts D's columns with r's first axis
        contracted = 1 if r_first else 0
        want = (1, -1, "i>=j") if r_first else (-1, 1, "i<=j")
        ok = (ci, cj, keep) == want and contracted == time_axis and axis == time_axis
        col.ob("G12", "S3", f"_rl.py::time_distributed_return::exponent-difference-formed-in-the-exponent[batch_first={bf}]", not ratio,
               f"the discount gamma^(t' - t) is computed as a ratio / product of powers `{ratio[0] if ratio else ''}`: once gamma^t "
               f"underflows to 0 (gamma < 1) or overflows (gamma > 1) the entries are 0/0 or inf/inf = NaN and the matmul spreads "
               f"it - e.g. float32, gamma = 0.5, T = 200 gives 50 NaN returns; pow(gamma, t' - t) is exact", "_rl.py", rets[0].lineno)
        col.ob("G20", "S3", f"_rl.py::time_distributed_return::unused-triangle-removed-not-multiplied-away[batch_first={bf}]", not maskmul,
               f"`{maskmul[0] if maskmul else ''}` keeps the wanted triangle by multiplying the powers with a 0/1 mask: on the other triangle "
               f"the exponent t' - t is negative and gamma ** negative overflows to inf for gamma < 1 over a long horizon (0.5 ** -200), "
               f"and inf * 0 = NaN, which the matmul spreads over the returns; clamp the exponent or take tril / triu", "_rl.py",
               rets[0].lineno)
        col.ob("G12", "S3", key, ok,
               f"with batch_first={bf} the return is {'matmul(r, D)' if r_first else 'matmul(D, r)'} with D[i, j] = "
               f"gamma^({ci}*i + {cj}*j) kept where {keep}, D sized by axis {axis} and contracted over axis {contracted} of r; "
               f"R_t = sum_(t' >= t) gamma^(t' - t) r_t' needs exponents {want[0]}*i + {want[1]}*j on {want[2]} over the time "
               f"axis {time_axis}", "_rl.py", rets[0].lineno, sample=dict(ci=ci, cj=cj, keep=keep, axis=axis, r_first=r_first))


def _time_axis_round_trip(ctx: Ctx):
    """S4': feat_deltas takes the time axis to the end, convolves, and puts it back. A swap (transpose) is undone by the same swap and
    a move (movedim) by the opposite move; undoing a swap with a move rotates the axes in between, so for a time axis left of the
    last two the other axes come out permuted (or silently transposed when their sizes agree)."""
    col, pkg = ctx.col, ctx.pkg
    f = pkg.func("_feats::feat_deltas")
    rel = f.module.relname
    tname = "time_dim"
    if tname not in {p.name for p in f.params}:
        col.undecided(f"{rel}::feat_deltas: no time_dim formal")
        return
    kinds = []
    for c in own_calls(f.node):
        nm = c.func.attr if isinstance(c.func, ast.Attribute) else call_name(c).split(".")[-1]
        if nm in ("transpose", "swapaxes", "swapdims", "movedim", "moveaxis", "permute") and any(
                isinstance(a, ast.Name) and a.id == tname for a in list(c.args) + [k.value for k in c.keywords]):
            kinds.append(("swap" if nm in ("transpose", "swapaxes", "swapdims") else "move" if nm in ("movedim", "moveaxis") else nm, c))
    col.floor("time_axis_permutations", len(kinds), 1)
    ks = {k for k, _ in kinds}
    col.ob("G19", "S4", f"{rel}::feat_deltas::time-axis-put-back-the-way-it-was-taken-out", len(ks) == 1,
           f"the time axis is permuted with {[(k, u(c)[:50]) for k, c in kinds]}: a swap undone by a move (or the reverse) leaves the axes "
           f"between time_dim and the end rotated - for time_dim left of the last two dimensions the output has the wrong layout", rel,
           kinds[0][1].lineno if kinds else f.line, sample=[k for k, _ in kinds])


def _store_is_read_only(ctx: Ctx):
    """The accumulated statistics are the state that makes partition / order invariance hold; `store` may be called
    with delete_stats=False and followed by more accumulation, so it must not modify count / sum / sumsq: no in-place
    method (trailing underscore) and no augmented assignment on them or on a local alias of them."""
    from sa.defuse import ReachingDefs
    col, pkg = ctx.col, ctx.pkg
    f = pkg.func("_feats::MeanVarianceNormalization.store")
    rel = f.module.relname
    rd = ReachingDefs(f.node)
    STAT = ("self.count", "self.sum", "self.sumsq")

    def is_alias(e, depth=0):
        if depth > 6:
            return False
        if isinstance(e, ast.Attribute) and u(e) in STAT:
            return True
        if isinstance(e, ast.Name):
            for d in rd.defs_of(e):
                v = d.value
                if v is None:
                    continue
                if d.kind == "unpack" and isinstance(v, ast.Tuple) and d.slot and len(d.slot) == 1 and d.slot[0] < len(v.elts):
                    v = v.elts[d.slot[0]]
                if d.kind in ("assign", "unpack") and is_alias(v, depth + 1):
                    return True
            return False
        # an in-place method returns its receiver
        if isinstance(e, ast.Call) and isinstance(e.func, ast.Attribute) and e.func.attr.endswith("_") and not e.func.attr.startswith("_"):
            return is_alias(e.func.value, depth + 1)
        return False
    bad = []
    for n in own_nodes(f.node):
        if isinstance(n, ast.Call) and isinstance(n.func, ast.Attribute) and n.func.attr.endswith("_") and not n.func.attr.startswith("_") \
                and is_alias(n.func.value):
            bad.append(n)
        if isinstance(n, ast.AugAssign) and is_alias(n.target):
            bad.append(n)
    col.ob("G16", "S1", f"{rel}::MeanVarianceNormalization.store::statistics-are-not-modified", not bad,
           f"`{u(bad[0])[:80] if bad else ''}` modifies an accumulated statistic (or a local alias of it) in place: with "
           f"delete_stats=False a later accumulate()/store() pools the overwritten values, so the stored statistics are no "
           f"longer those of all frames", rel, bad[0].lineno if bad else f.line, sample=[u(b)[:60] for b in bad])


def _sqrt_of_a_difference_is_clamped(ctx: Ctx):
    """S6: var = sumsq / count - mean^2 is a difference of two nearly equal non-negative numbers for a (nearly) constant
    coefficient; in floating point it can come out slightly negative, and the square root of that is NaN where the pooled
    standard deviation is 0. Between the subtraction and the square root the value must be clamped at 0."""
    from sa.defuse import ReachingDefs
    col, pkg = ctx.col, ctx.pkg
    f = pkg.func("_feats::MeanVarianceNormalization.store")
    rel = f.module.relname
    rd = ReachingDefs(f.node)
    roots = [c for c in own_calls(f.node) if isinstance(c.func, ast.Attribute) and c.func.attr in ("sqrt", "sqrt_")] + \
            [c for c in own_calls(f.node) if call_name(c) in ("torch.sqrt", "math.sqrt")]
    if len(roots) != 1:
        raise AnalysisError(f"C18: expected one square root in store, found {len(roots)}")
    r = roots[0]
    arg = r.func.value if isinstance(r.func, ast.Attribute) and call_name(r) not in ("torch.sqrt", "math.sqrt") else r.args[0]
    der = rd.derives(arg)
    has_sub = any(isinstance(x, ast.BinOp) and isinstance(x.op, ast.Sub) for e in der.exprs + [arg] for x in ast.walk(e))
    clamp = any(isinstance(c.func, ast.Attribute) and c.func.attr in ("clamp_min", "clamp_min_", "clamp", "clamp_", "relu", "relu_", "abs")
                or call_name(c) in ("torch.clamp", "torch.relu", "max") for c in der.calls() + [x for x in ast.walk(arg) if isinstance(x, ast.Call)])
    col.ob("G12", "S6", f"{rel}::MeanVarianceNormalization.store::variance-clamped-before-the-root", (not has_sub) or clamp,
           f"`{u(r)}` takes the root of sumsq / count - mean^2 without clamping at 0: for a constant coefficient (or a single frame) the "
           f"difference rounds to a tiny negative number and the stored std is NaN instead of 0, which then poisons every "
           f"normalised feature", rel, r.lineno)


def _mutants():
    from selftest.mutate import Mutant as M
    _extra = [
        M("pad-value-dropped", "_feats.py", "x = torch.nn.functional.pad(x, (width * order, width * order), pad_mode, value)", "x = torch.nn.functional.pad(x, (width * order, width * order), pad_mode)", "every-accepted-option-is-read"),
        M("dim-resolved-before-stack-rank", "_feats.py", "if not concatenate:\n        D += 1", "dim = (dim + D) % D\n    if not concatenate:\n        D += 1", "dim-resolved-against-output-rank"),
        M("time-dim-against-output-rank", "_feats.py", "time_dim = (time_dim + D) % D\n    if not concatenate:\n        D += 1", "if not concatenate:\n        D += 1\n    time_dim = (time_dim + D) % D", "time_dim-resolved-against-input-rank"),
        M("store-divides-sumsq-in-place", "_feats.py", "var = sumsq / count - mean.square()", "var = sumsq.div_(count) - mean.square()", "statistics-are-not-modified"),
        M("store-scales-sum-in-place", "_feats.py", "self.mean = mean = sum_ / count", "sum_ /= count\n        self.mean = mean = sum_", "statistics-are-not-modified"),
        M("root-of-negative-rounding", "_feats.py", "self.std = var.clamp_min_(0).sqrt_()", "self.std = var.sqrt_()", "variance-clamped-before-the-root"),
        M("store-needs-two-frames", "_feats.py", "if count < (2 if bessel else 1):", "if count < 2:", "accumulate-store-table"),
        M("store-divides-by-zero", "_feats.py", "if count < (2 if bessel else 1):", "if count < 1:", "accumulate-store-table"),
        M("twin:threshold-by-lte", "_feats.py", "if count < (2 if bessel else 1):", "if count <= (1 if bessel else 0):", "", twin=True),
        M("twin:dim-resolved-by-if", "_feats.py", "dim = (dim + D) % D", "if dim < 0:\n        dim += D", "", twin=True),
    ]
    F = "_feats.py"
    R = "_rl.py"
    C = "command_line.py"
    return _extra + [
        M("running-mean-update", F, "sum_ += x.sum(1)", "sum_ += x.sum(1) - sum_ / count.clamp_min(1)", "sum+=term(x)"),
        M("count-overwritten", F, "count += x.size(1)", "count.fill_(x.size(1))", "count+=term(x)"),
        M("sumsq-of-sum", F, "sumsq += x.square().sum(1)", "sumsq += x.sum(1).square()", "accumulate-store-table"),
        M("count-batches-not-frames", F, "count += x.size(1)", "count += 1", "accumulate-store-table"),
        M("var-without-mean-sq", F, "var = sumsq / count - mean.square()", "var = sumsq / count - mean", "accumulate-store-table"),
        M("bessel-inverted", F, "var *= count / (count - 1)", "var *= (count - 1) / count", "accumulate-store-table"),
        M("bessel-always", F, "if bessel:\n            var *= count / (count - 1)", "var *= count / (count - 1)", "accumulate-store-table"),
        M("mean-by-sumsq", F, "self.mean = mean = sum_ / count", "self.mean = mean = sumsq / count", "accumulate-store-table"),
        M("own-std-bessel", F, "std = x.transpose(0, dim).unsqueeze(-1).flatten(1).double().std(1, False)", "std = x.transpose(0, dim).unsqueeze(-1).flatten(1).double().std(1, True)", "own-statistics"),
        M("module-drops-eps", F, "return mean_var_norm(x, self.dim, self.mean, self.std, self.eps)", "return mean_var_norm(x, self.dim, self.mean, self.std)", "G5/S2"),
        M("cli-bessel-unread", C, "mvn.store(bessel=options.bessel)", "mvn.store()", "G"),
        M("gamma0-zeros", R, "if not gamma:\n        return r", "if not gamma:\n        return torch.zeros_like(r)", "gamma==0-returns-r"),
        M("twin:gamma0-copy", R, "if not gamma:\n        return r", "if not gamma:\n        return r.clone()", "", twin=True),
        M("layout-asymmetry", R, "discount = torch.pow(gamma, exp).triu()", "discount = torch.pow(gamma, exp).tril()", "discount-matrix[batch_first=False]"),
        M("both-layouts-discount-the-past", R, "exp = (exp.unsqueeze(1) - exp.unsqueeze(0)).clamp_min(0)", "exp = (exp.unsqueeze(0) - exp.unsqueeze(1)).clamp_min(0)", "discount-matrix[batch_first=True]"),
        M("time-extent-from-batch-axis", R, "exp = torch.arange(r.size(1), device=r.device, dtype=r.dtype)", "exp = torch.arange(r.size(0), device=r.device, dtype=r.dtype)", "discount-matrix[batch_first=True]"),
        M("operands-swapped", R, "R = torch.matmul(discount, r)", "R = torch.matmul(r, discount)", "discount-matrix[batch_first=False]"),
        M("ratio-of-powers", R, "exp = (exp.unsqueeze(0) - exp.unsqueeze(1)).clamp_min(0)\n        discount = torch.pow(gamma, exp).triu()", "discount = torch.pow(gamma, exp)\n        discount = (discount.unsqueeze(0) / discount.unsqueeze(1)).triu()", "exponent-difference-formed-in-the-exponent"),
        M("twin:power-operator", R, "discount = torch.pow(gamma, exp).tril()", "discount = (gamma ** exp).tril()", "", twin=True),
        M("twin:rename-last-filt", F, "last_filt", "prev_filt", "", -1, twin=True),
    ]


def selftest(ctx: Ctx):
    from selftest.mutate import run_selftest
    return run_selftest("C18", ctx.pkg.repo, _mutants(), floor=11)


MANIFEST = dict(
    level_text=(
        "Static analysis (no execution): the additive-monoid rule on MeanVarianceNormalization.accumulate (each "
        "statistic changes only by += of a term of the new batch, never reading the current statistics), which makes "
        "the stored statistics a function of the multiset of frames - i.e. invariant to every partition and order of "
        "accumulation in exact arithmetic; the store formulas in rational normal form; forwarding of the three Modules "
        "and of the statistics command; the gamma == 0 short-circuit and a symbolic derivation of the discount matrix of "
        "each layout (exponent t' - t on exactly t' >= t, contracted over the time axis), which is the stated recurrence "
        "in exact arithmetic; "
        "in feat_deltas each dimension argument is resolved and range-checked against the rank of the tensor it "
        "indexes (input rank for time_dim; output rank, one more when stacking, for dim). "
        "Necessary (and, for partition invariance, sufficient up to floating point) structural clauses of C18; delta "
        "filter values and floating-point rounding are numerical and not decided. accumulate / store are also interpreted over exact values "
        "(fresh object, 0-2 batches, Bessel on / off, statistics kept / deleted; in-place updates shared between aliases, exact roots): 32 rows "
        "against the definitions; the symbolic formulas are the fallback. mean_var_norm is interpreted for stored statistics (a deviation below "
        "eps is raised to eps), for the input's own statistics, and for the feature axis first, last and negative; feat_deltas for a (2, 3, 4) "
        "tensor, every time axis and target axis, stacked and concatenated (pad / conv1d are exact leaves): the order-o block is the o-th "
        "regression along the time axis laid out along the requested axis; the accumulators keep double precision (dtype rule)."),
    level_note="Trusted: python ast; real-number idealisation of double-precision accumulation.",
    technique="static analysis: additive-homomorphism (monoid) effect rule, rational evaluation of the stored statistics per bessel mode, symbolic exponent-matrix derivation, forwarding completeness, partial evaluation + rank-term comparison; interpretation of the return computation over exact values compared with the recursion for discounts below, at and above one; accumulate / store interpreted the same way (in-place tensor semantics, exact roots) against the definitions; mean_var_norm and feat_deltas layout tables by the same interpretation; accumulator-dtype def-use rule",
    design_ref="DESIGN.md section 4 C18",
)
