"""C08: which bands does the zero fill cover? A small abstract interpretation of `spec_augment_apply_parameters`.

For each of the four combinations (time masking drawn or not) x (frequency masking drawn or not) the function body is walked with
abstract values: a variable is None, a boolean (True / False / unknown) or 'a tensor derived from these bands' (a set of tags out of
{time, freq}: the tags of the mask slots t_0, t, f_0, f it was computed from). Tests are evaluated in three-valued logic - `x is None`
from the abstract value, `slot.numel()` / `slot is not None` from the combination, anything else unknown (both arms are walked).
At every exit the bands of the masks handed to a zero fill must be exactly the bands that were drawn: a mask that is built and
then dropped leaves the drawn frames untouched; a fill by a mask of the wrong band zeroes cells that are not masked.

Nothing is executed; the layout (merged mask, two fills, flags, a helper that builds the interval mask) does not matter."""
from __future__ import annotations

import ast
from typing import Dict, List, Optional, Tuple

from sa.astutil import call_name, u

UNK = "unknown"


class Tags:
    def __init__(self, tags=()):
        self.tags = frozenset(tags)

    def __repr__(self):
        return f"Tags({sorted(self.tags)})"


class Undecided(Exception):
    pass


class MaskMachine:
    def __init__(self, fn: ast.FunctionDef, slot_names: List[str], max_paths: int = 4000):
        self.fn = fn
        self.band = {slot_names[4]: "time", slot_names[5]: "time", slot_names[6]: "freq", slot_names[7]: "freq"}
        self.warp = set(slot_names[0:4])
        self.max_paths = max_paths

    # ---- values ------------------------------------------------------------------------------------------------------
    def value(self, e: ast.AST, env: dict, on: dict):
        if isinstance(e, ast.Constant):
            if e.value is None:
                return None
            if isinstance(e.value, bool):
                return e.value
            return Tags()
        if isinstance(e, ast.Name):
            if e.id in env:
                return env[e.id]
            if e.id in self.band:
                return Tags({self.band[e.id]}) if on[self.band[e.id]] else UNK
            return Tags()
        if isinstance(e, (ast.BoolOp, ast.Compare)) or (isinstance(e, ast.UnaryOp) and isinstance(e.op, ast.Not)):
            return self.truth(e, env, on)
        if isinstance(e, ast.IfExp):
            t = self.truth(e.test, env, on)
            if t is True:
                return self.value(e.body, env, on)
            if t is False:
                return self.value(e.orelse, env, on)
            a, b = self.value(e.body, env, on), self.value(e.orelse, env, on)
            if isinstance(a, Tags) and isinstance(b, Tags):
                return Tags(a.tags | b.tags)
            raise Undecided(f"conditional expression `{u(e)[:50]}`")
        tags = set()
        for x in ast.walk(e):
            if isinstance(x, ast.Name) and isinstance(x.ctx, ast.Load):
                v = env.get(x.id)
                if isinstance(v, Tags):
                    tags |= v.tags
                elif x.id in self.band and x.id not in env:
                    tags.add(self.band[x.id])
        return Tags(tags)

    def truth(self, e: ast.AST, env: dict, on: dict):
        if isinstance(e, ast.Constant):
            return bool(e.value)
        if isinstance(e, ast.UnaryOp) and isinstance(e.op, ast.Not):
            t = self.truth(e.operand, env, on)
            return UNK if t is UNK else (not t)
        if isinstance(e, ast.BoolOp):
            vs = [self.truth(v, env, on) for v in e.values]
            if isinstance(e.op, ast.And):
                return False if any(v is False for v in vs) else (UNK if any(v is UNK for v in vs) else True)
            return True if any(v is True for v in vs) else (UNK if any(v is UNK for v in vs) else False)
        if isinstance(e, ast.Compare) and len(e.ops) == 1 and isinstance(e.ops[0], (ast.Is, ast.IsNot)) \
                and isinstance(e.comparators[0], ast.Constant) and e.comparators[0].value is None:
            v = self._noneness(e.left, env, on)
            if v is UNK:
                return UNK
            return v == isinstance(e.ops[0], ast.Is)
        if isinstance(e, ast.Name):
            v = env.get(e.id, UNK if e.id not in self.band else None)
            if isinstance(v, bool):
                return v
            if e.id in self.band and e.id not in env:
                return UNK
            if v is None and e.id in env:
                return False
            return UNK
        # slot.numel() / len(slot) / slot.numel() > 0 : non-empty exactly when the band was drawn
        for x in ast.walk(e):
            if isinstance(x, ast.Name) and x.id in self.band and x.id not in env:
                txt = u(e)
                if "numel" in txt or "len(" in txt or "size(" in txt or "shape" in txt:
                    inner = isinstance(e, ast.Compare) and isinstance(e.ops[0], (ast.Eq, ast.LtE)) and u(e.comparators[0]) in ("0",)
                    val = on[self.band[x.id]]
                    return (not val) if inner else val
        return UNK

    def _noneness(self, e: ast.AST, env: dict, on: dict):
        """True if the value is None, False if it is not, UNK otherwise."""
        if isinstance(e, ast.Name):
            if e.id in env:
                v = env[e.id]
                if v is None:
                    return True
                if v is UNK:
                    return UNK
                return False
            if e.id in self.band:
                return False if on[self.band[e.id]] else UNK
        return UNK

    # ---- statements --------------------------------------------------------------------------------------------------
    def run(self, on: dict) -> List[Tuple[frozenset, frozenset]]:
        """All (built, applied) pairs at the normal exits for this combination."""
        self.paths = 0
        out = []
        body = self.fn.body
        self._block(body, 0, {}, frozenset(), frozenset(), on, out, [])
        return out

    def _fills(self, e: ast.AST, env: dict, on: dict) -> frozenset:
        applied = set()
        for c in ast.walk(e):
            if isinstance(c, ast.Call) and isinstance(c.func, ast.Attribute) and c.func.attr in ("masked_fill", "masked_fill_") and c.args:
                v = self.value(c.args[0], env, on)
                if isinstance(v, Tags):
                    applied |= v.tags
                elif v is None:
                    raise Undecided("fill by a mask that is None on this path")
        return frozenset(applied)

    def _direct(self, e: ast.AST, env: dict, on: dict) -> frozenset:
        return frozenset(self.band[x.id] for x in ast.walk(e) if isinstance(x, ast.Name) and x.id in self.band and x.id not in env
                         and isinstance(x.ctx, ast.Load) and on[self.band[x.id]]
                         and not self._only_tested(e))

    @staticmethod
    def _only_tested(e: ast.AST) -> bool:
        return isinstance(e, (ast.BoolOp, ast.Compare)) or (isinstance(e, ast.UnaryOp) and isinstance(e.op, ast.Not))

    def _block(self, stmts, i, env, built, applied, on, out, cont):
        """Walk stmts[i:], then the continuation stack `cont` (list of (stmts, index))."""
        while True:
            if i >= len(stmts):
                if not cont:
                    out.append((built, applied))
                    return
                (stmts, i), cont = cont[-1], cont[:-1]
                continue
            st = stmts[i]
            i += 1
            if isinstance(st, (ast.Assign, ast.AnnAssign, ast.AugAssign)):
                val = st.value
                if val is None:
                    continue
                applied = applied | self._fills(val, env, on)
                v = self.value(val, env, on)
                tgts = st.targets if isinstance(st, ast.Assign) else [st.target]
                if isinstance(v, Tags) and not self._only_tested(val):
                    built = built | self._direct(val, env, on)
                env = dict(env)
                for t in tgts:
                    names = [t] if isinstance(t, ast.Name) else ([x for x in t.elts if isinstance(x, ast.Name)] if isinstance(t, (ast.Tuple, ast.List)) else [])
                    for nm in names:
                        if isinstance(st, ast.AugAssign):
                            old = env.get(nm.id)
                            if isinstance(old, Tags) and isinstance(v, Tags):
                                env[nm.id] = Tags(old.tags | v.tags)
                            elif isinstance(v, Tags):
                                env[nm.id] = v
                            else:
                                env[nm.id] = UNK
                        elif isinstance(t, (ast.Tuple, ast.List)):
                            if nm.id in self.band or nm.id in self.warp:
                                continue  # the unpacking of the parameter tuple: slots stay symbolic
                            env[nm.id] = Tags(v.tags) if isinstance(v, Tags) else UNK
                        else:
                            env[nm.id] = v
            elif isinstance(st, ast.Expr):
                applied = applied | self._fills(st.value, env, on)
                # in-place fill of the output through a method call is covered by _fills; other expression statements are inert
            elif isinstance(st, ast.If):
                t = self.truth(st.test, env, on)
                arms = [st.body] if t is True else ([st.orelse] if t is False else [st.body, st.orelse])
                if len(arms) == 2:
                    self.paths += 1
                    if self.paths > self.max_paths:
                        raise Undecided("too many paths")
                    self._block(arms[0], 0, env, built, applied, on, out, cont + [(stmts, i)])
                    self._block(arms[1], 0, env, built, applied, on, out, cont + [(stmts, i)])
                    return
                cont = cont + [(stmts, i)]
                stmts, i = arms[0], 0
            elif isinstance(st, ast.Return):
                if st.value is not None:
                    applied = applied | self._fills(st.value, env, on)
                out.append((built, applied))
                return
            elif isinstance(st, ast.Raise):
                return
            elif isinstance(st, (ast.Pass, ast.Assert)):
                continue
            elif isinstance(st, (ast.For, ast.While, ast.With, ast.Try)):
                raise Undecided(f"{type(st).__name__} statement in the apply function")
            else:
                raise Undecided(type(st).__name__)


def mask_table(fn: ast.FunctionDef, slot_names: List[str]):
    """[(combination, built, applied)] for every exit whose fill does not cover exactly the drawn bands, and the number of exits."""
    m = MaskMachine(fn, slot_names)
    bad, n = [], 0
    for time_on in (False, True):
        for freq_on in (False, True):
            on = {"time": time_on, "freq": freq_on}
            want = frozenset(k for k, v in on.items() if v)
            for built, applied in m.run(on):
                n += 1
                if applied != want:
                    bad.append((on, sorted(built), sorted(applied)))
    return bad, n
