"""C20 attention: mask blindness (G16), one sequence dimension (G13), bias table (G3/G13),
head split/merge (G13/G1)."""
from __future__ import annotations

import ast

from sa.astutil import call_name, guards_of, is_neg_inf, kwarg, parent_map, u
from sa.defuse import ReachingDefs
from sa.model import AnalysisError, own_calls, own_nodes
from sa.resolve import bind_args
from .common import Ctx, plumbing

MOD = "_attn"


def run(ctx: Ctx):
    col, pkg, res = ctx.col, ctx.pkg, ctx.res
    rel = pkg.module(MOD).relname
    fwd = pkg.func(f"{MOD}::GlobalSoftAttention.forward")
    where = f"{rel}::{fwd.qualname}"
    rd = ReachingDefs(fwd.node)
    pm = parent_map(fwd.node)

    # ---- S1 / S2 / S5 as a value table first (props/c20.py::_forward_table): when GlobalSoftAttention.forward is inside the interpreted
    # fragment the shape-based clauses on the masking, the softmax axis and the weighted sum are not consulted
    fwd_decided = _forward_table(ctx, fwd, rel)
    _SKIP = ("masked-scores-are--inf-before-softmax", "softmax-input-is-(masked)-score", "output-from-weights-and-values-only",
             "output-is-weighted-sum", "dimension-denotes-one-axis", "masked-values-cleared-before-the-weighted-sum")
    _orig_ob = col.ob

    def _ob(rule, clause, key, ok, *a, **k):
        if fwd_decided and key.endswith(_SKIP):
            return None
        return _orig_ob(rule, clause, key, ok, *a, **k)
    col.ob = _ob
    try:
        return _run_rest(ctx, col, pkg, res, rel, fwd, where, rd, pm)
    finally:
        col.ob = _orig_ob


def _run_rest(ctx, col, pkg, res, rel, fwd, where, rd, pm):
    # ---- S1 blind to masked positions ------------------------------------------------------------------
    sms = [c for c in own_calls(fwd.node) if call_name(c).endswith("softmax")]
    if len(sms) != 1:
        raise AnalysisError("C20: GlobalSoftAttention.forward does not call softmax exactly once")
    sm = sms[0]
    e_arg = sm.args[0]
    # masked selections applied to the SCORES (the receiver derives from self.score(...)); the values are masked separately
    def on_scores(e):
        return any(isinstance(c.func, ast.Attribute) and u(c.func) == "self.score" for c in rd.derives(e).calls()) or \
            any(isinstance(x, ast.Call) and u(x.func) == "self.score" for x in ast.walk(e))
    fills = [c for c in own_calls(fwd.node) if isinstance(c.func, ast.Attribute) and c.func.attr == "masked_fill" and len(c.args) == 2
             and on_scores(c.func.value)]
    wheres = [c for c in own_calls(fwd.node) if call_name(c) == "torch.where" and len(c.args) == 3 and (on_scores(c.args[1]) or on_scores(c.args[2]))]
    ok_fill = False
    detail = None
    for c in fills:
        m, v = c.args
        neg = isinstance(m, ast.UnaryOp) and isinstance(m.op, ast.Invert) and u(m.operand) == "mask"
        detail = u(c)
        if neg and is_neg_inf(v):
            gs = guards_of(pm, c)
            ok_fill = any(u(t) == "mask is not None" and pol for t, pol in gs)
    for c in wheres:
        if u(c.args[0]) == "mask" and is_neg_inf(c.args[2]):
            detail = u(c)
            ok_fill = any(u(t) == "mask is not None" and pol for t, pol in guards_of(pm, c))
    col.ob("G16", "S1", f"{where}::masked-scores-are--inf-before-softmax", ok_fill,
           f"scores are masked by `{detail}`; masked-out (mask == False) positions must be set to -inf when a mask is "
           f"given (fill of the NEGATED mask), otherwise the output depends on masked keys/values", rel,
           sm.lineno, sample=detail)
    # the value reaching softmax: every reaching definition is either the raw score (no mask) or the masked fill
    srcs = []
    if isinstance(e_arg, ast.Name):
        for d in rd.defs_of(e_arg):
            v = d.value
            if isinstance(v, ast.Call) and u(v.func) == "self.score":
                srcs.append("score")
            elif isinstance(v, ast.Call) and (v in fills or v in wheres):
                srcs.append("masked")
            else:
                srcs.append("other:" + u(v)[:30] if v is not None else "other")
    col.ob("G16", "S1", f"{where}::softmax-input-is-(masked)-score", sorted(srcs) == ["masked", "score"],
           f"softmax is applied to a value defined by {srcs}; expected the score, overwritten by its masked version when "
           f"a mask is given", rel, sm.lineno, sample=srcs)
    # nothing after the softmax re-introduces raw scores: the returned value derives from the softmax weights and value
    ret = [st for st, _ in rd.return_envs][-1]
    # (the softmax may be a named temporary or written in place in the returned expression: what lies under it is the masked
    # score by the previous obligations; what lies beside it must not reach back to the scores)
    in_sm = {id(x) for x in ast.walk(sm)}
    inline_sm = any(x is sm for x in ast.walk(ret.value))
    outside = [x for x in ast.walk(ret.value) if isinstance(x, ast.Name) and isinstance(x.ctx, ast.Load) and id(x) not in in_sm]
    ders = [rd.derives(x, stop=lambda d: isinstance(d.value, ast.Call) and d.value is sm) for x in outside]
    names = {d.name for der in ders for d in der.defs}
    a_names = {d.name for d in rd.defs if d.value is sm}
    params_ = set().union(*[der.params() for der in ders]) if ders else set()
    ok_ret = (bool(a_names & names) or inline_sm) and "value" in params_ and not any(
        isinstance(d.value, ast.Call) and (u(d.value.func) == "self.score" or d.value in fills) for der in ders for d in der.defs)
    col.ob("G16", "S1", f"{where}::output-from-weights-and-values-only", ok_ret,
           "the returned value does not derive from (softmax weights, value) alone: unmasked scores reach the output",
           rel, ret.lineno, sample=u(ret.value))
    from sa.inline import Inliner
    inl_f = Inliner(fwd.node, rd, keep={fwd.params[3].name})
    retx = inl_f.expand(ret.value)  # the product / the softmax axis may have been given names first
    shape_ok = isinstance(retx, ast.Call) and isinstance(retx.func, ast.Attribute) and retx.func.attr == "sum" \
        and isinstance(retx.func.value, ast.BinOp) and isinstance(retx.func.value.op, ast.Mult)
    col.ob("G16", "S1", f"{where}::output-is-weighted-sum", shape_ok,
           f"the output `{u(ret.value)}` is not sum(weights * value): not a convex combination of values", rel, ret.lineno)

    # ---- S2 one sequence dimension --------------------------------------------------------------------------
    dims = {"softmax": u(sm.args[1]) if len(sm.args) > 1 else u(kwarg(sm, "dim")) if kwarg(sm, "dim") is not None else None,
            "sum": u(ret.value.args[0]) if shape_ok and ret.value.args else None}
    for cname in ("DotProductSoftAttention", "GeneralizedDotProductSoftAttention"):
        sc = pkg.func(f"{MOD}::{cname}.score")
        uq = [c for c in own_calls(sc.node) if isinstance(c.func, ast.Attribute) and c.func.attr == "unsqueeze" and u(c.func.value) == "query"]
        dims[f"{cname}.score"] = u(uq[0].args[0]) if len(uq) == 1 else None
        red = [c for c in own_calls(sc.node) if isinstance(c.func, ast.Attribute) and c.func.attr == "sum"]
        col.ob("G13", "S2", f"{rel}::{cname}.score::reduces-feature-axis", len(red) == 1 and u(red[0].args[0]) == "-1",
               f"{cname}.score reduces {[u(c) for c in red]}; the inner product runs over the last (feature) axis", rel, sc.line)
    csa = pkg.func(f"{MOD}::_concat_soft_attention")
    cs = pkg.func(f"{MOD}::ConcatSoftAttention.score")
    calls = [c for c in own_calls(cs.node) if call_name(c) == "_concat_soft_attention"]
    if len(calls) != 1:
        raise AnalysisError("C20: ConcatSoftAttention.score does not call _concat_soft_attention once")
    b = bind_args(calls[0], csa, False)
    got = {p.name: u(a) for p, a, _ in b.pairs}
    col.ob("G1", "S2", f"{rel}::ConcatSoftAttention.score::_concat_soft_attention-binding",
           got == {"query": "query", "key": "key", "weight": "self.weight", "bias": "self.bias", "v": "self.v", "dim": "self.dim"},
           f"_concat_soft_attention is called with {got}", rel, calls[0].lineno, sample=got)
    uq = [c for c in own_calls(csa.node) if isinstance(c.func, ast.Attribute) and c.func.attr == "unsqueeze" and u(c.func.value) == "query"]
    dims["_concat_soft_attention"] = ("self.dim" if len(uq) == 1 and u(uq[0].args[0]) == "dim" and got.get("dim") == "self.dim" else None)
    # the dimension symbol must denote the same AXIS at every use. `self.dim` is specified relative to the key's
    # rank R (check_input admits negative values); a negative index means axis R + dim only on a tensor of rank R.
    # Relative ranks: key/value 0, query -1, query.unsqueeze(dim) 0 (the index is relative to the RESULT's rank),
    # scores e -1 (feature axis reduced), weights*value 0.
    sm_dim = sm.args[1] if len(sm.args) > 1 else kwarg(sm, "dim")
    sites = {"softmax(e, .)": (-1, inl_f.expand(sm_dim) if sm_dim is not None else None),
             "sum(.)": (0, retx.args[0] if shape_ok and retx.args else None)}

    pm_f = parent_map(fwd.node)

    class _NoVal(Exception):
        pass

    def dim_value(e, d, depth=0):
        """The integer the expression denotes when self.dim == d (conditional expressions and if/else definitions followed)."""
        if depth > 12 or e is None:
            raise _NoVal()
        if isinstance(e, ast.Constant) and isinstance(e.value, int):
            return e.value
        if isinstance(e, ast.Attribute) and u(e) == "self.dim":
            return d
        if isinstance(e, ast.UnaryOp) and isinstance(e.op, ast.USub):
            return -dim_value(e.operand, d, depth + 1)
        if isinstance(e, ast.UnaryOp) and isinstance(e.op, ast.Not):
            return not dim_value(e.operand, d, depth + 1)
        if isinstance(e, ast.BinOp) and isinstance(e.op, (ast.Add, ast.Sub)):
            x, y = dim_value(e.left, d, depth + 1), dim_value(e.right, d, depth + 1)
            return x + y if isinstance(e.op, ast.Add) else x - y
        if isinstance(e, ast.Compare) and len(e.ops) == 1:
            x, y = dim_value(e.left, d, depth + 1), dim_value(e.comparators[0], d, depth + 1)
            f_ = {ast.Lt: x < y, ast.LtE: x <= y, ast.Gt: x > y, ast.GtE: x >= y, ast.Eq: x == y, ast.NotEq: x != y}.get(type(e.ops[0]))
            if f_ is None:
                raise _NoVal()
            return f_
        if isinstance(e, ast.IfExp):
            return dim_value(e.body if dim_value(e.test, d, depth + 1) else e.orelse, d, depth + 1)
        if isinstance(e, ast.Name):
            live = []
            for df in rd.defs_of(e):
                if df.kind != "assign" or df.value is None or getattr(df, "stmt", None) is None:
                    raise _NoVal()
                holds = True
                for t, pol in guards_of(pm_f, df.stmt):
                    try:
                        if bool(dim_value(t, d, depth + 1)) != pol:
                            holds = False
                    except _NoVal:
                        pass  # a guard that does not concern the dimension (mask given or not)
                if holds:
                    live.append(df)
            vals = {dim_value(df.value, d, depth + 1) for df in live}
            if len(vals) == 1:
                return vals.pop()
        raise _NoVal()

    def adjusted_for_negative(e, shift):
        """Does expression e denote, for every admissible self.dim, the same axis on a tensor whose rank is R + shift as self.dim
        does on a tensor of rank R? shift 0: e == self.dim; shift -1: e == self.dim for self.dim >= 0 and self.dim + 1 otherwise."""
        try:
            return all(dim_value(e, d) == (d if (d >= 0 or shift == 0) else d - shift) for d in range(-4, 5))
        except _NoVal:
            return False

    bad_sites = {k: u(e) if e is not None else None for k, (sh, e) in sites.items() if not adjusted_for_negative(e, sh)}
    col.ob("G19", "S2", f"{rel}::GlobalSoftAttention.forward::dimension-denotes-one-axis", not bad_sites,
           f"`self.dim` is relative to the key's rank R and may be negative (check_input admits [-R+1, R-2]); it is used "
           f"unadjusted as {bad_sites} - the scores have rank R-1, so for a negative dim softmax normalises over a "
           f"different axis than the one the weighted sum reduces (needs dim + 1 for negative dim)", rel, sm.lineno,
           sample={k: (sh, u(e) if e is not None else None) for k, (sh, e) in sites.items()})
    score_dims = {k: v for k, v in dims.items() if k not in ("softmax", "sum")}
    col.ob("G13", "S2", f"{rel}::attention::score-functions-use-self.dim", set(score_dims.values()) == {"self.dim"},
           f"score functions unsqueeze the query at {score_dims}; the index is relative to the result's rank R, so all "
           f"must use self.dim", rel, fwd.line, sample=score_dims)
    cat = [c for c in own_calls(csa.node) if call_name(c) == "torch.cat"]
    col.ob("G13", "S2", f"{rel}::_concat_soft_attention::concat-(query,key)-on-features", len(cat) == 1 and u(cat[0].args[0]) == "[query, key]" and u(cat[0].args[1]) == "-1",
           "query and key are not concatenated in (query, key) order over the feature axis (the weight is laid out as "
           "query_size + key_size)", rel, csa.line)

    # both operands of the concatenation are expanded to the broadcast of BOTH batch shapes
    rdc_ = ReachingDefs(csa.node)
    qn, kn = csa.params[0].name, csa.params[1].name
    exps = [c for c in own_calls(csa.node) if isinstance(c.func, ast.Attribute) and c.func.attr == "expand" and c.args]
    bad_e = []
    for c in exps:
        ps_ = set()
        for a_ in c.args:
            # the batch part of the target: everything except a trailing `[x.size(-1)]`
            parts = [a_.left] if isinstance(a_, ast.BinOp) and isinstance(a_.op, ast.Add) else [a_]
            for pt_ in parts:
                ps_ |= rdc_.derives(pt_).params()
        if not {qn, kn} <= ps_:
            bad_e.append((c, sorted(ps_)))
    col.ob("G13", "S2", f"{rel}::_concat_soft_attention::operands-expanded-to-the-common-batch-shape", len(exps) >= 2 and not bad_e,
           f"`{u(bad_e[0][0])[:70] if bad_e else ''}` expands to a shape computed from {bad_e[0][1] if bad_e else ''} only: query and key "
           f"must both be expanded to the broadcast of the two batch shapes, otherwise a key with singleton batch dimensions "
           f"(one encoder sequence shared by a beam) cannot be concatenated with the query", rel,
           bad_e[0][0].lineno if bad_e else csa.line, sample=[u(c)[:60] for c in exps])

    # ---- S3 bias exactly where requested -------------------------------------------------------------------------
    init = pkg.func(f"{MOD}::MultiHeadedAttention.__init__")
    lins = {}
    for n in own_nodes(init.node):
        if isinstance(n, ast.Assign) and isinstance(n.value, ast.Call) and call_name(n.value) == "torch.nn.Linear" \
                and isinstance(n.targets[0], ast.Attribute) and u(n.targets[0].value) == "self":
            lins[n.targets[0].attr] = n.value
    if set(lins) != {"WQ", "WK", "WV", "WC"}:
        raise AnalysisError(f"C20: projections found: {sorted(lins)}")
    for name, c in sorted(lins.items()):
        bk = kwarg(c, "bias")
        col.ob("G13", "S3", f"{rel}::MultiHeadedAttention.__init__::{name}(bias=bias_{name})", bk is not None and u(bk) == f"bias_{name}",
               f"projection {name} is built with bias={u(bk) if bk is not None else 'default'}; expected bias_{name}", rel,
               c.lineno, sample=u(c))
    # ---- S4 head split / merge -----------------------------------------------------------------------------------------
    dmap = {"WQ": ("query_size", "self.d_q"), "WK": ("key_size", "self.d_k"), "WV": ("value_size", "d_v")}
    for name, (insz, dx) in dmap.items():
        c = lins[name]
        a0, a1 = u(c.args[0]), u(c.args[1])
        okp = a0 == insz and a1 in (f"num_heads * {dx}", f"{dx} * num_heads", f"num_heads * self.{dx}" if not dx.startswith("self") else "")
        col.ob("G13", "S4", f"{rel}::MultiHeadedAttention.__init__::{name}(in={insz}, out=num_heads*d)", okp,
               f"{name} = Linear({a0}, {a1}); expected ({insz}, num_heads * {dx})", rel, c.lineno, sample=u(c))
    c = lins["WC"]
    col.ob("G13", "S4", f"{rel}::MultiHeadedAttention.__init__::WC(in=num_heads*d_v, out=out_size)",
           u(c.args[0]) in ("d_v * num_heads", "num_heads * d_v") and u(c.args[1]) == "out_size",
           f"WC = Linear({u(c.args[0])}, {u(c.args[1])})", rel, c.lineno)
    ddefs = {}
    for n in own_nodes(init.node):
        if isinstance(n, ast.Assign) and isinstance(n.targets[0], ast.Attribute) and n.targets[0].attr in ("d_q", "d_k", "d_v"):
            ddefs[n.targets[0].attr] = u(n.value)
    col.ob("G13", "S4", f"{rel}::MultiHeadedAttention.__init__::head-sizes", ddefs == {
        "d_q": "single_head_attention.query_size", "d_k": "single_head_attention.key_size", "d_v": "d_v"},
        f"per-head sizes are {ddefs}", rel, init.line, sample=ddefs)
    mf = pkg.func(f"{MOD}::MultiHeadedAttention.forward")
    rdm = ReachingDefs(mf.node)
    sha = [c for c in own_calls(mf.node) if u(c.func) == "self.single_head_attention"]
    direct_mask_axes = None
    if len(sha) > 1:
        # one call per arm of a branch on the mask (`if mask is None: .. attention(q, k, v, None) else: .. attention(q, k, v, mask.unsqueeze(-1))`):
        # the same three tensors everywhere, the mask argument either None or the unsqueezed mask
        same = len({tuple(u(a_) for a_ in c.args[:3]) for c in sha}) == 1
        m4s = [c.args[3] for c in sha if len(c.args) > 3 and not (isinstance(c.args[3], ast.Constant) and c.args[3].value is None)]
        if not same or not all(isinstance(v, ast.Call) and isinstance(v.func, ast.Attribute) and v.func.attr == "unsqueeze" and u(v.func.value) == "mask"
                               and len(v.args) == 1 for v in m4s) or not m4s:
            raise AnalysisError("C20: MultiHeadedAttention.forward calls the single-head attention at several sites that do not agree")
        direct_mask_axes = {u(v.args[0]) for v in m4s}
    elif len(sha) != 1:
        raise AnalysisError("C20: MultiHeadedAttention.forward does not call the single-head attention once")
    roles = []
    for a in sha[0].args[:3]:
        der = rdm.derives(a)
        projs = {c.func.attr for c in der.calls() if isinstance(c.func, ast.Attribute) and u(c.func.value) == "self" and c.func.attr in lins}
        unf = [c for c in der.calls() if call_name(c) == "unflatten"]
        dsz = {u(c.args[2]) for c in unf if len(c.args) == 3}
        src = der.params() - {"self"}
        roles.append((sorted(projs), sorted(dsz), sorted(src)))
    want = [(["WQ"], ["[self.num_heads, self.d_q]"], ["query"]), (["WK"], ["[self.num_heads, self.d_k]"], ["key"]),
            (["WV"], ["[self.num_heads, self.d_v]"], ["value"])]
    col.ob("G1", "S4", f"{rel}::MultiHeadedAttention.forward::(query, key, value)-projected-and-split", roles == want,
           f"the single-head attention receives {roles}; expected (WQ(query), WK(key), WV(value)) each unflattened to "
           f"[num_heads, d_x] with its own d_x, in that order", rel, sha[0].lineno, sample=roles)
    # where is the head axis in the per-head score tensor? The projections are unflattened at their last axis into
    # [num_heads, d_x], so heads sit at axis -2 of the projected tensors; every score function reduces the last
    # (feature) axis (S2), hence heads are the LAST axis of the scores and the mask - which has the scores' shape
    # without heads (check_input broadcasts it against e_shape) - needs a trailing singleton: unsqueeze(-1)
    unf_axes = {u(c.args[1]) for c in own_calls(mf.node) if call_name(c) == "unflatten" and len(c.args) == 3}
    head_axis_in_scores = None
    if unf_axes == {"-1"}:
        head_axis_in_scores = -2 + 1
    m4 = sha[0].args[3] if len(sha[0].args) > 3 else None
    okmask = False
    got_axis = None
    if direct_mask_axes is not None and head_axis_in_scores is not None:
        if len(direct_mask_axes) == 1:
            got_axis = next(iter(direct_mask_axes))
            okmask = got_axis == str(head_axis_in_scores)
    elif isinstance(m4, ast.Name) and head_axis_in_scores is not None:
        # every definition that carries a mask (the parameter itself re-assigned, or a separate optional local that starts as
        # None) is the mask unsqueezed on one and the same axis
        pm_mf = parent_map(mf.node)

        def _none_alias(d):
            # `head_mask = mask` on the branch where mask is None
            return isinstance(d.value, ast.Name) and d.value.id == "mask" and d.stmt is not None and any(
                u(t_).replace(" ", "") in ("maskisNone",) and p_ or u(t_).replace(" ", "") in ("maskisnotNone",) and not p_ for t_, p_ in guards_of(pm_mf, d.stmt))
        vals = [d.value for d in rdm.defs_of(m4) if d.kind != "param" and not (isinstance(d.value, ast.Constant) and d.value.value is None)
                and not _none_alias(d)]
        axes = {u(v.args[0]) if isinstance(v, ast.Call) and isinstance(v.func, ast.Attribute) and v.func.attr == "unsqueeze"
                and u(v.func.value) == "mask" and len(v.args) == 1 else "?" for v in vals}
        if len(axes) == 1 and "?" not in axes:
            got_axis = axes.pop()
            okmask = got_axis == str(head_axis_in_scores)
    col.ob("G19", "S4", f"{rel}::MultiHeadedAttention.forward::mask-broadcast-over-heads", okmask,
           f"the mask is unsqueezed at axis {got_axis} before the per-head attention, but the heads are the last axis "
           f"({head_axis_in_scores}) of the per-head scores (projections unflattened at -1 into [heads, d]; scores reduce "
           f"the feature axis): a mask of the documented shape fails to broadcast, or - when batch size equals the number "
           f"of heads - masks the wrong cells", rel, sha[0].lineno, sample=dict(unsqueeze=got_axis, head_axis=head_axis_in_scores))
    ret = [st for st, _ in rdm.return_envs][-1]
    from sa.inline import Inliner as _InlM
    rv_ = _InlM(mf.node, rdm, max_depth=2).expand(ret.value)  # `cat = cat.flatten(-2); return self.WC(cat)` or in one expression
    a0 = rv_.args[0] if isinstance(rv_, ast.Call) and u(rv_.func) == "self.WC" and len(rv_.args) == 1 and not rv_.keywords else None
    okmerge = isinstance(a0, ast.Call) and ((isinstance(a0.func, ast.Attribute) and a0.func.attr == "flatten" and [u(x) for x in a0.args] in (["-2"], ["-2", "-1"]))
                                            or (call_name(a0) == "torch.flatten" and [u(x) for x in a0.args[1:]] in (["-2"], ["-2", "-1"])))
    col.ob("G13", "S4", f"{rel}::MultiHeadedAttention.forward::heads-concatenated-then-WC", okmerge,
           f"the result `{u(ret.value)}` is not WC applied to the heads flattened over the last two axes", rel, ret.lineno)
    _masked_values_excluded_by_selection(ctx)
    _legal_dims_table(ctx)
    _check_input_table(ctx)
    _constructor_and_precision_clauses(ctx)
    plumbing(ctx, "S3")
    return dict(
        explanation=(
            "Decides for C20: (S1) when a mask is given the value reaching softmax is the score with the NEGATED mask "
            "filled by -inf, and the output derives only from the softmax weights and value as sum(weights * value); "
            "(S2) softmax, the weighted sum and all four score functions use the one sequence dimension self.dim, "
            "inner products reduce the feature axis, concat order is (query, key); (S3) each projection W<X> is built "
            "with bias=bias_W<X> and every bias flag is validated under its own name [F9 repaired]; (S4) projection "
            "sizes num_heads * d_x, per-argument projection + unflatten with its own d_x in (query, key, value) order, "
            "mask unsqueezed on the head axis, heads flattened before WC. NOT decided: convexity bounds, permutation "
            "invariance, broadcasting equivalence (relations between pairs of runtime inputs)."),
        decided=["S1", "S2", "S3", "S4"],
        not_decided=["convex-combination bounds", "permutation invariance", "broadcast == explicit expansion"],
        assumptions=["softmax(-inf) contributes exactly zero weight"],
    )


def _masked_values_excluded_by_selection(ctx: Ctx):
    """S5: 'the output does not change when keys and values at masked positions are replaced by anything'. Keys are covered
    (their scores are overwritten with -inf before the softmax). Values are only multiplied by the attention weight, which
    is exactly 0 at a masked position - and 0 * inf = 0 * nan = nan. When a mask is given, the value tensor must be cleared at
    the masked positions (masked_fill / where) before the weighted sum."""
    from sa.defuse import ReachingDefs
    col, pkg = ctx.col, ctx.pkg
    f = pkg.func("_attn::GlobalSoftAttention.forward")
    rel = f.module.relname
    rd = ReachingDefs(f.node)
    vname, mname = f.params[3].name, f.params[4].name
    prods = [n for n in own_nodes(f.node) if isinstance(n, ast.BinOp) and isinstance(n.op, ast.Mult)
             and any(isinstance(x, ast.Name) and x.id == vname for x in ast.walk(n))]
    if len(prods) != 1:
        raise AnalysisError(f"C20: expected one weight * value product in GlobalSoftAttention.forward, found {len(prods)}")
    vn = [x for x in ast.walk(prods[0]) if isinstance(x, ast.Name) and x.id == vname][0]
    der = rd.derives(vn)
    from sa.inline import Inliner
    inl = Inliner(f.node, rd, keep={vname})

    def _by_mask(c):  # the selection is by the mask, directly or through a named view of it (`keep = mask.unsqueeze(-1)`)
        return any(isinstance(x, ast.Name) and x.id == mname for a in list(c.args) + [k.value for k in c.keywords]
                   for x in ast.walk(inl.expand(a)))
    cleared = any((isinstance(c.func, ast.Attribute) and c.func.attr in ("masked_fill", "masked_fill_", "where") and _by_mask(c)) or
                  (call_name(c) == "torch.where" and _by_mask(c))
                  for c in der.calls())
    col.ob("G20", "S5", f"{rel}::GlobalSoftAttention.forward::masked-values-cleared-before-the-weighted-sum", cleared,
           f"`{u(prods[0])}` excludes masked positions only through their zero weight; a non-finite value there (uninitialised or "
           f"NaN padding) gives 0 * inf = nan and the whole output row is NaN, although the property lets masked values be "
           f"anything", rel, prods[0].lineno)


def _forward_table(ctx: Ctx, fwd, rel: str) -> bool:
    """GlobalSoftAttention.forward interpreted over exact values (sa/interp.py + sa/teval.py; nothing is run). The scores come from a
    leaf (`self.score(query, key)` -> given integers, so the table holds for every score function), softmax is replaced by the exact
    surrogate 2**e / sum 2**e along the same axis (-inf -> weight 0: any positive monotone normaliser shows the same masking and axis
    behaviour), check_input is not entered. Keys of 3 and 4 dimensions with the sequence axis addressed by every legal `dim`
    (positive and negative), with no mask and with a mask whose excluded positions carry a huge score and an INFINITE value. The output
    must be the weighted sum of the values at the kept positions only, reduced over the sequence axis - a finite number, equal to the
    one computed from the kept positions alone."""
    import math
    import numpy as np
    from fractions import Fraction as Fr
    from sa.interp import Interp
    from sa.inteval import NotEvaluable
    from sa.teval import frac_array
    col = ctx.col
    where = f"{rel}::{fwd.qualname}"
    names = [a.arg for a in fwd.node.args.args if a.arg != "self"]
    bad, n_rows = None, 0

    def surrogate(e, d):
        e = np.asarray(e, dtype=object)
        # (+inf - a non-finite score, e.g. padding garbage - poisons its group with NaN, as the library's softmax does)
        w = np.vectorize(lambda z: Fr(0) if z == -math.inf else (math.nan if z == math.inf else Fr(2) ** z), otypes=[object])(e)
        tot = w.sum(axis=d, keepdims=True)
        if (tot == 0).any():
            raise NotEvaluable("softmax over an all-masked group")
        return w / tot
    try:
        for shape, dims in (((3, 2), (0, -3 + 1)), ((2, 3), (1,)), ((2, 3, 2), (1, -3)), ((2, 2, 3), (2, -2))):
            # `shape` = key.shape[:-1]; the sequence axis has extent 3
            for dim in dims:
                R = len(shape) + 1
                ax = dim if dim >= 0 else dim + R
                if shape[ax] != 3:
                    continue
                for use_mask in (False, True, "broadcast"):
                    E = np.empty(shape, dtype=object)
                    V = np.empty(shape + (2,), dtype=object)
                    M = np.ones(shape, dtype=bool)
                    for idx in np.ndindex(shape):
                        E[idx] = Fr(sum((i + 1) * (k + 1) for k, i in enumerate(idx)) % 4)
                        for c_ in range(2):
                            V[idx + (c_,)] = Fr(1 + 3 * sum((7 ** k) * i for k, i in enumerate(idx)) + c_, 5)
                    if use_mask:
                        for idx in np.ndindex(shape):
                            if idx[ax] == 1 and sum(idx) % 2 == 0:
                                M[idx] = False
                                E[idx] = math.inf if use_mask is True else Fr(50)  # (a huge - here even non-finite - score behind the mask)
                                V[idx + (0,)] = math.inf
                                V[idx + (1,)] = math.inf
                    holder = {}
                    E_given = E
                    if use_mask == "broadcast":
                        # one shared query / key (singleton batch axes) attended under per-batch masks and values: the scores have extent 1
                        # where the mask has the batch; the result is that of the explicitly expanded scores
                        sl_ = tuple(slice(None) if k_ == ax else slice(0, 1) for k_ in range(len(shape)))
                        E_given = E[sl_].copy()
                        E = np.broadcast_to(E_given, shape).copy()
                        for idx in np.ndindex(shape):
                            if not M[idx]:
                                E[idx] = Fr(50)  # (what the expanded scores would hold there does not matter: the position is masked)

                    def leaf(x, env, E=E_given):
                        if isinstance(x, ast.Call):
                            nm = call_name(x)
                            if nm == "self.score":
                                return E.copy()
                            if nm.endswith("softmax") and not nm.endswith("log_softmax"):
                                it_ = holder["it"]
                                if isinstance(x.func, ast.Attribute) and not nm.startswith(("torch", "F.")):
                                    e_, rest = it_.eval(x.func.value, env), list(x.args)
                                else:
                                    e_, rest = it_.eval(x.args[0], env), list(x.args[1:])
                                dk = [k.value for k in x.keywords if k.arg == "dim"]
                                d_ = it_.eval((rest or dk)[0], env)
                                return surrogate(e_, int(d_))
                        return None
                    it = Interp(leaf=leaf, tensors=True)
                    holder["it"] = it
                    qshape = shape if use_mask != "broadcast" else tuple(s_ if k_ == ax else 1 for k_, s_ in enumerate(shape))
                    env = dict(zip(names, (frac_array(np.zeros(qshape[:ax] + qshape[ax + 1:] + (2,), dtype=int).tolist()),
                                           frac_array(np.zeros(qshape + (2,), dtype=int).tolist()), V, M if use_mask else None)))
                    env["self.dim"] = dim
                    kind, got = it.run(fwd.node, env)
                    n_rows += 1
                    # documented value from the kept positions alone
                    Em, Vm, Mm = np.moveaxis(E, ax, -1), np.moveaxis(V, ax, -2), np.moveaxis(M, ax, -1)
                    want = np.empty(Em.shape[:-1] + (2,), dtype=object)
                    for idx in np.ndindex(Em.shape[:-1]):
                        keep = [t_ for t_ in range(3) if Mm[idx + (t_,)]]
                        tot = sum(Fr(2) ** Em[idx + (t_,)] for t_ in keep)
                        for c_ in range(2):
                            want[idx + (c_,)] = sum((Fr(2) ** Em[idx + (t_,)]) / tot * Vm[idx + (t_, c_)] for t_ in keep)
                    ok = kind == "return" and hasattr(got, "shape") and got.shape == want.shape and all(
                        isinstance(a_, Fr) and a_ == b_ for a_, b_ in zip(np.asarray(got, dtype=object).reshape(-1).tolist(), want.reshape(-1).tolist()))
                    if not ok and bad is None:
                        bad = (shape, dim, use_mask, got if kind == "return" else f"raise {got}", want)
    except NotEvaluable as e:
        return False
    if n_rows < 8:
        return False
    col.floor("attention_table_rows", n_rows, 8)

    def _show(v):
        return str([str(x) for x in np.asarray(v, dtype=object).reshape(-1).tolist()][:6] if hasattr(v, "shape") else v)[:140]
    col.ob("G12", "S1", f"{where}::attention-table", bad is None,
           (f"for a key of shape {bad[0] + ('K',)} with dim={bad[1]} and {'a mask' if bad[2] else 'no mask'} the layer returns {_show(bad[3])}; the weighted sum "
            f"of the values at the kept positions alone (masked positions carry a huge score and an infinite value) over the sequence axis is "
            f"{_show(bad[4])}: the output depends on masked positions, is normalised over another axis than it is reduced over, or is not "
            f"finite") if bad else "", rel, fwd.line, sample=dict(rows=n_rows))
    return True


def _constructor_and_precision_clauses(ctx: Ctx):
    """S8: (a) MultiHeadedAttention inserts a head axis just before the feature axis of the projected tensors; a wrapped attention whose
    `dim` counts from the END then addresses another axis of the per-head tensors (softmax over the heads or over a singleton). The
    constructor must refuse it: some `raise` of __init__ is reached exactly for negative `dim` (its guards evaluated for dim = -3 .. 2).
    (b) the attention weights are normalised in the precision of the scores: a softmax forced to a fixed dtype (single precision) makes
    double-precision weights sum to one only to 1e-7 (outputs leave the convex hull of the values) and hands half-precision modules a
    float32 tensor their output projection refuses."""
    from sa.inteval import NotEvaluable, int_eval
    col, pkg = ctx.col, ctx.pkg
    init = pkg.func(f"{MOD}::MultiHeadedAttention.__init__")
    rel = init.module.relname
    pm = parent_map(init.node)
    sha = next((p_.name for p_ in init.params if "head_attention" in p_.name or "attention" in p_.name), None)
    if sha is None:
        raise AnalysisError("C20: MultiHeadedAttention.__init__ has no wrapped-attention formal")
    refusals = []
    from sa.inline import Inliner as _InlI
    inl_i = _InlI(init.node)
    for n in own_nodes(init.node):
        if not isinstance(n, ast.Raise):
            continue
        gs = [(inl_i.expand(t_), p_) for t_, p_ in guards_of(pm, n)]  # (`dim = attention.dim; if dim < 0` is the same guard)
        if not any(f"{sha}.dim" in u(t_) for t_, _ in gs):
            continue
        try:
            reach = {}
            for d_ in (-3, -2, -1, 0, 1, 2):
                def leaf(x, d_=d_):
                    if isinstance(x, ast.Attribute) and u(x) == f"{sha}.dim":
                        return d_
                    return None
                reach[d_] = all(bool(int_eval(t_, {"__leaf__": leaf})) == p_ for t_, p_ in gs if f"{sha}.dim" in u(t_))
            refusals.append(reach)
        except NotEvaluable:
            continue
    ok = any(all(r_[d_] == (d_ < 0) for d_ in r_) for r_ in refusals)
    col.ob("G8", "S8", f"{rel}::MultiHeadedAttention.__init__::negative-dim-of-the-wrapped-attention-is-refused", ok,
           f"no `raise` of the constructor is reached exactly for a wrapped attention with a negative `dim` (refusals found: {refusals}): counted from the end, "
           f"`dim` addresses another axis once the head axis is inserted - the softmax runs over the heads or over a singleton axis", rel, init.line,
           sample=len(refusals))
    fwd = pkg.func(f"{MOD}::GlobalSoftAttention.forward")
    sms = [c for c in own_calls(fwd.node) if call_name(c).split(".")[-1] == "softmax"]
    col.floor("softmax_sites", len(sms), 1)
    forced = [c for c in sms if any(k.arg == "dtype" and not (isinstance(k.value, ast.Attribute) and k.value.attr == "dtype") and not
                                    (isinstance(k.value, ast.Constant) and k.value.value is None) for k in c.keywords)]
    col.ob("G28", "S8", f"{rel}::GlobalSoftAttention.forward::weights-in-the-precision-of-the-scores", not forced,
           (f"`{u(forced[0])[:80]}` forces the dtype of the attention weights: for double-precision inputs they sum to one only to single precision (the "
            f"output leaves the convex hull of the values), and half-precision modules receive float32 weights") if forced else "", rel,
           forced[0].lineno if forced else fwd.line)


def _check_input_table(ctx: Ctx):
    """S7 by value: `check_input` of GlobalSoftAttention and of MultiHeadedAttention (a hand-written copy of the parent's checks plus the
    value width) interpreted over exact shapes (sa/interp.py + sa/teval.py) with three DIFFERENT widths (query 5, key 3, value 8):
    well-formed input is accepted; a query / key / (multi-headed) value whose last extent is off - in particular a value as wide as the
    KEY - is refused. A check against the wrong attribute is invisible while the widths coincide, as they do in self-attention."""
    import numpy as np
    from sa.interp import Interp, Raised
    from sa.inteval import NotEvaluable
    from sa.teval import frac_array
    col, pkg = ctx.col, ctx.pkg
    n_rows = 0
    for cls_, has_value in (("GlobalSoftAttention", False), ("MultiHeadedAttention", True)):
        f = pkg.func(f"{MOD}::{cls_}.check_input")
        rel = f.module.relname
        names = [p_.name for p_ in f.params[1:]]
        Q, K, V, T, B = 5, 3, 8, 4, 2

        def leaf(x, env):
            if isinstance(x, ast.Call) and call_name(x).split(".")[-1] == "broadcast_shapes":
                shapes = [holder["it"].eval(a_, env) for a_ in x.args]
                try:
                    return tuple(int(v_) for v_ in np.broadcast_shapes(*[tuple(int(z_) for z_ in sh_) for sh_ in shapes]))
                except ValueError:
                    raise Raised("RuntimeError")
            return None
        cases = [("well-formed input", (Q, K, V), True), ("a query one too wide", (Q + 1, K, V), False), ("a key one too wide", (Q, K + 1, V), False)]
        if has_value:
            cases += [("a value as wide as the key", (Q, K, K), False), ("a value one too narrow", (Q, K, V - 1), False), ("a value as wide as the query", (Q, K, Q), False)]
        else:
            cases += [("a value of another width (no width is prescribed)", (Q, K, 6), True)]
        bad = None
        try:
            for tag, (q_, k_, v_), legal in cases:
                holder = {}
                it = Interp(leaf=leaf, tensors=True)
                holder["it"] = it
                env = dict(zip(names, (frac_array(np.zeros((B, q_), dtype=int).tolist()), frac_array(np.zeros((T, B, k_), dtype=int).tolist()),
                                       frac_array(np.zeros((T, B, v_), dtype=int).tolist()), np.ones((T, B), dtype=bool))))
                env.update({"self.query_size": Q, "self.key_size": K, "self.value_size": V, "self.dim": 0})
                kind, got = it.run(f.node, env)
                n_rows += 1
                if (kind == "return") != legal and bad is None:
                    bad = (tag, (q_, k_, v_), kind, got)
        except NotEvaluable as e:
            col.undecided(f"{rel}::{cls_}.check_input: outside the interpreted fragment ({e})")
            continue
        col.ob("G12", "S7", f"{rel}::{cls_}.check_input::widths-table", bad is None,
               (f"with query_size, key_size, value_size = ({Q}, {K}, {V}): {bad[0]} (last extents of query / key / value {bad[1]}) is "
                f"{'accepted' if bad[2] == 'return' else 'refused (' + str(bad[3]) + ')'}; each tensor's last extent is checked against its OWN size attribute") if bad else "",
               rel, f.line, sample=dict(cases=len(cases)))
    col.count("check_input_table_rows", n_rows)


def _legal_dims_table(ctx: Ctx):
    """S6: the sequence dimension may be any axis of the key except its last, counted from either end - [-key_dim + 1, key_dim - 2]
    without -1 (which, counted from the end of the QUERY, would be the feature axis). check_input's refusal is evaluated
    (sa/inteval.py) for keys of 3 and 4 dimensions and every dim in [-key_dim - 1, key_dim]: it must raise exactly outside that set."""
    from sa.inteval import NotEvaluable, int_eval
    col, pkg = ctx.col, ctx.pkg
    f = pkg.func("_attn::GlobalSoftAttention.check_input")
    rel = f.module.relname
    cands = [n for n in own_nodes(f.node) if isinstance(n, ast.If) and any(isinstance(x, ast.Raise) for x in n.body)
             and any(isinstance(x, ast.Attribute) and u(x) == "self.dim" for x in ast.walk(n.test))]
    col.floor("dim_range_checks", len(cands), 1)
    bad = None
    from sa.inline import Inliner as _InlLD
    inl_ld = _InlLD(f.node)
    keyn = [p_.name for p_ in f.params if p_.name != "self"][1]
    tests_ld = [inl_ld.expand(n.test) for n in cands]  # named bounds (`min_dim = 1 - key_dim`) and the rank are looked through
    try:
        for kd in (3, 4):
            for d in range(-kd - 1, kd + 1):
                def leaf(x, kd=kd):
                    if isinstance(x, ast.Call) and isinstance(x.func, ast.Attribute) and x.func.attr in ("dim", "ndimension") and not x.args \
                            and u(x.func.value) == keyn:
                        return kd
                    if isinstance(x, ast.Attribute) and x.attr == "ndim" and u(x.value) == keyn:
                        return kd
                    if isinstance(x, ast.Call) and call_name(x) == "len" and len(x.args) == 1 and u(x.args[0]) == f"{keyn}.shape":
                        return kd
                    return None
                raised = any(bool(int_eval(t_, {"self.dim": d, "__leaf__": leaf})) for t_ in tests_ld)
                legal = -kd + 1 <= d <= kd - 2 and d != -1
                if raised == legal and bad is None:
                    bad = (kd, d, raised)
    except NotEvaluable as e:
        col.undecided(f"{rel}::{f.qualname}: the dimension check is outside the evaluated fragment ({e})")
        return
    col.ob("G12", "S6", f"{rel}::{f.qualname}::legal-dims-table", bad is None,
           (f"for a key of {bad[0]} dimensions dim={bad[1]} is {'refused' if bad[2] else 'accepted'}; the legal sequence dimensions are "
            f"[{-bad[0] + 1}, {bad[0] - 2}] without -1: a documented-legal configuration yields no output at all (or an illegal one is let through "
            f"to mis-shaped products)") if bad else "", rel, cands[0].lineno if cands else f.line)


def _mutants():
    from selftest.mutate import Mutant as M
    A = "_attn.py"
    return [
        M("common-shape-from-key-only", "_attn.py", "shape = list(broadcast_shapes(query.shape[:-1], key.shape[:-1]))", "shape = list(key.shape[:-1])", "operands-expanded-to-the-common-batch-shape"),
        M("masked-values-only-weighted-out", "_attn.py", "value = torch.where(mask.unsqueeze(-1), value, torch.zeros_like(value))\n", "", "attention-table"),
        M("rank-compared-with-minus-one", "_attn.py", "self.dim == -1", "key_dim == -1", "no-vacuous-rank-test"),
        M("mask-not-negated", A, "e = e.masked_fill(~mask, -float('inf'))", "e = e.masked_fill(mask, -float('inf'))", "masked-scores-are--inf"),
        M("mask-fill-zero", A, "e = e.masked_fill(~mask, -float('inf'))", "e = e.masked_fill(~mask, 0.0)", "attention-table"),
        M("mask-after-softmax", A, "e = e.masked_fill(~mask, -float('inf'))\n        a = torch.nn.functional.softmax(e, self.dim)",
          "a = torch.nn.functional.softmax(e, self.dim)\n        if mask is not None:\n            a = a * mask", "G16/S1"),
        M("softmax-dim-unadjusted", A, "torch.nn.functional.softmax(e, self.dim if self.dim >= 0 else self.dim + 1)", "torch.nn.functional.softmax(e, self.dim)", "attention-table"),
        M("sum-dim-minus-1", A, "return (a.unsqueeze(-1) * value).sum(self.dim)", "return (a.unsqueeze(-1) * value).sum(-2)", "attention-table"),
        M("dot-unsqueeze-0", A, "query = query.unsqueeze(self.dim)\n        return (query * key).sum(-1) * self.scale_factor", "query = query.unsqueeze(0)\n        return (query * key).sum(-1) * self.scale_factor", "score-functions-use-self.dim"),
        M("bias-wk-from-wq", A, "self.WK = torch.nn.Linear(key_size, num_heads * self.d_k, bias=bias_WK)", "self.WK = torch.nn.Linear(key_size, num_heads * self.d_k, bias=bias_WQ)", "WK(bias=bias_WK)"),
        M("validate-sibling", A, "bias_WV = argcheck.is_bool(bias_WV, 'bias_WV')", "bias_WV = argcheck.is_bool(bias_WK, 'bias_WV')", "G3"),
        M("key-split-with-dq", A, "key_heads = unflatten(key_heads, -1, [self.num_heads, self.d_k])", "key_heads = unflatten(key_heads, -1, [self.num_heads, self.d_q])", "projected-and-split"),
        M("heads-kv-swapped", A, "self.single_head_attention(query_heads, key_heads, value_heads, mask)", "self.single_head_attention(query_heads, value_heads, key_heads, mask)", "projected-and-split"),
        M("mask-unsqueeze-minus-2", A, "mask = mask.unsqueeze(-1)", "mask = mask.unsqueeze(-2)", "mask-broadcast-over-heads"),
        M("concat-order", A, "cat = torch.cat([query, key], -1)", "cat = torch.cat([key, query], -1)", "concat-(query,key)"),
        M("concat-binding", A, "query, key, self.weight, self.bias, self.v, self.dim", "query, key, self.weight, self.v, self.bias, self.dim", "G1"),
        M("wv-out-size", A, "self.WV = torch.nn.Linear(value_size, num_heads * d_v, bias=bias_WV)", "self.WV = torch.nn.Linear(value_size, d_v, bias=bias_WV)", "WV(in=value_size"),
        M("twin:rename-e", A, "value_heads", "vh", "", -1, twin=True),
    ]


def selftest(ctx: Ctx):
    from selftest.mutate import run_selftest
    return run_selftest("C20", ctx.pkg.repo, _mutants(), floor=12)


MANIFEST = dict(
    level_text=(
        "Static dataflow/table analysis (no execution) of the attention modules: the def-use rule that the value "
        "reaching softmax is the score overwritten by a -inf fill of the negated mask, that the output is "
        "sum(weights * value) deriving from weights and values only, agreement of the one sequence dimension across "
        "softmax / weighted sum / all score functions, the per-projection bias table and the head split/merge size "
        "table. Necessary conditions of 'blind to masked positions' and 'a bias exactly on the projections for which "
        "one was requested'; the forward pass of GlobalSoftAttention is also interpreted over exact values with a surrogate softmax (2**e, "
        "normalised) for masked / unmasked keys and every legal dim, and check_input for the legal range of dim; the MultiHeadedAttention "
        "constructor's guards are evaluated for dim = -3 .. 2 (a wrapped attention counting its axis from the end must be refused) and the "
        "softmax keeps the precision of the scores (no forced dtype); convexity bounds and "
        "permutation invariance relate pairs of runtime inputs and are not decided. Masked positions carry non-finite scores in some rows (a +inf score poisons its softmax group, as in the library)."),
    level_note="Trusted: python ast; softmax(-inf) = 0 weight. F9 (bias_WK/bias_WV validated from bias_WQ) was found by G3 "
               "and repaired.",
    technique="static analysis: reaching-definition (def-use) rules, dimension/size table agreement (softmax axis evaluated as a function of dim), argcheck idiom lint, argument binding; interpretation of the forward pass over exact values with a surrogate softmax; check_input of both classes interpreted for three different widths; shared-query rows (an in-place operation cannot broadcast its receiver); constructor guards evaluated over a range of dim; softmax dtype rule",
    design_ref="DESIGN.md section 4 C20",
)
