"""C04 beam search: plumbing (G1/G2), model state follows the surviving paths (G10/G16),
index spaces (G14), finished-path forcing and padding sentinels (G13)."""
from __future__ import annotations

import ast

from sa.astutil import under_flag, call_name, guards_of, is_const, is_neg_inf, parent_map, u
from sa.defuse import ReachingDefs
from sa.model import AnalysisError, own_calls, own_nodes
from sa.resolve import bind_args
from .common import Ctx, plumbing
from .search_common import SearchLoop, check_index_spaces, make_call_summary

MOD = "_decoding"
ADV = "beam_search_advance"


def run(ctx: Ctx):
    col, pkg, res = ctx.col, ctx.pkg, ctx.res
    rel = pkg.module(MOD).relname
    adv = pkg.func(f"{MOD}::{ADV}")
    fwd = pkg.func(f"{MOD}::BeamSearch.forward")
    where = f"{rel}::{fwd.qualname}"
    sl = SearchLoop(fwd, ADV, src_slot=3, n_slots=4)
    rd = sl.rd
    pm = sl.pm

    # ---- S1 slots of the step function -------------------------------------------------------
    # returned (y_next, y_next_lens, log_probs_next, next_src): the score slot must be the top-k values, the
    # source slot must derive from the top-k indices divided by the vocabulary size
    rda = ReachingDefs(adv.node)
    ret = [st for st, _ in rda.return_envs][-1]
    if not (isinstance(ret.value, ast.Tuple) and len(ret.value.elts) == 4):
        raise AnalysisError("C04: beam_search_advance does not return a 4-tuple")
    topk_assign = None
    for n in own_nodes(adv.node):
        if isinstance(n, ast.Assign) and isinstance(n.value, ast.Call) and isinstance(n.value.func, ast.Attribute) \
                and n.value.func.attr == "topk" and isinstance(n.targets[0], ast.Tuple):
            topk_assign = n
    if topk_assign is None:
        raise AnalysisError("C04: the top-k selection of beam_search_advance was not found")
    val_name = [d.name for d in rda.defs if d.stmt is topk_assign and d.slot == (0,)][0]
    ind_name = [d.name for d in rda.defs if d.stmt is topk_assign and d.slot == (1,)][0]
    dscore = rda.derives(ret.value.elts[2], value_flow=True)
    dsrc = rda.derives(ret.value.elts[3])
    ok_score = any(d.stmt is topk_assign and d.slot == (0,) for d in dscore.defs) and not any(
        d.stmt is topk_assign and d.slot == (1,) for d in dscore.defs)
    ok_src = any(d.stmt is topk_assign and d.slot == (1,) for d in dsrc.defs) and any(
        isinstance(c, ast.Call) and call_name(c) == "trunc_divide" for c in dsrc.calls())
    col.ob("G2", "S1", f"{rel}::{ADV}::returned-slots(score=topk values, src=topk indices // V)", ok_score and ok_src,
           f"the returned score slot must be the top-k values (`{val_name}`) and the source slot the top-k indices "
           f"(`{ind_name}`) divided by the vocabulary size", rel, ret.lineno, sample=u(ret.value))
    # the candidate scores are prefix score + extension score (joint), flattened over (beam, vocab)
    cand = topk_assign.value.func.value
    dc = rda.derives(cand, value_flow=True)
    uses = {d.name for d in dc.defs if d.kind == "param"}
    col.ob("G16", "S1", f"{rel}::{ADV}::candidates=prev+ext", {"log_probs_prev", "log_probs_t"} <= uses,
           f"top-k is taken over scores deriving from {sorted(uses)}; it must be over log_probs_prev + log_probs_t",
           rel, topk_assign.lineno, sample=u(topk_assign))
    # token of a candidate = index % V ; source = index // V with the same V
    mods = [n for n in own_nodes(adv.node) if isinstance(n, ast.BinOp) and isinstance(n.op, ast.Mod)
            and u(n.left) == ind_name]
    divs = [c for c in own_calls(adv.node) if call_name(c) == "trunc_divide" and c.args and u(c.args[0]) == ind_name]
    vshape = [n for n in own_nodes(adv.node) if isinstance(n, ast.Assign) and isinstance(n.targets[0], ast.Tuple)
              and u(n.value) == "log_probs_t.shape" and len(n.targets[0].elts) == 3]
    vname = u(vshape[0].targets[0].elts[2]) if vshape else None
    okv = len(mods) == 1 and len(divs) == 1 and u(mods[0].right) == u(divs[0].args[1]) == vname
    if not okv and len(divs) == 1 and u(divs[0].args[1]) == vname:
        # the token written another way (`index - source * V`): some expression over the top-k index evaluates to index % V at every
        # point of a grid, with trunc_divide by its meaning for non-negative operands
        from sa.inline import Inliner as _InlTok
        from sa.inteval import NotEvaluable as _NEt, int_eval as _iet
        inl_t = _InlTok(adv.node, rda, keep={ind_name, vname})
        for n in own_nodes(adv.node):
            if not (isinstance(n, ast.BinOp) and isinstance(n.op, (ast.Mod, ast.Sub)) and ind_name in {x.id for x in ast.walk(inl_t.expand(n)) if isinstance(x, ast.Name)}):
                continue
            ex_ = inl_t.expand(n)
            try:
                def leaf_(x, env_={}):
                    return None
                good = True
                for i_ in range(0, 23):
                    for v_ in (1, 4, 7):
                        def leaf(x, i_=i_, v_=v_):
                            if isinstance(x, ast.Call) and call_name(x) == "trunc_divide" and len(x.args) == 2:
                                a_ = _iet(x.args[0], {ind_name: i_, vname: v_, "__leaf__": leaf})
                                b_ = _iet(x.args[1], {ind_name: i_, vname: v_, "__leaf__": leaf})
                                return ("__v__", a_ // b_)[1] if a_ // b_ != 0 else 0
                            return None
                        if _iet(ex_, {ind_name: i_, vname: v_, "__leaf__": leaf}) != i_ % v_:
                            good = False
                okv = okv or good
            except _NEt:
                continue
    col.ob("G12", "S1", f"{rel}::{ADV}::index=(src, token) over V", okv,
           "candidate index is not split as (index // V, index % V) with the vocabulary size", rel,
           topk_assign.lineno)

    # the beam keeps min(width, number of candidates); candidates = (old width) x (vocabulary)
    from sa.norm import Normalizer, padd, pmul, pstr
    shp = [n for n in own_nodes(adv.node) if isinstance(n, ast.Assign) and isinstance(n.targets[0], ast.Tuple)
           and u(n.value) == "log_probs_t.shape" and len(n.targets[0].elts) == 3]
    kdef = [n for n in own_nodes(adv.node) if isinstance(n, ast.Assign) and isinstance(n.value, ast.Call)
            and call_name(n.value) == "min" and len(n.value.args) == 2 and any(u(a) == "width" for a in n.value.args)]
    okk = False
    if shp and kdef:
        kp, vv = [t.id for t in shp[0].targets[0].elts[1:]]
        other = [a for a in kdef[0].value.args if u(a) != "width"][0]
        nz = Normalizer()
        want = pmul(nz.poly(ast.Name(id=kp, ctx=ast.Load())), nz.poly(ast.Name(id=vv, ctx=ast.Load())))
        okk = not padd(nz.poly(other), want, -1)
        kname = u(kdef[0].targets[0])
        okk = okk and u(topk_assign.value.args[0]) == kname
    col.ob("G12", "S1", f"{rel}::{ADV}::K=min(width, old_width*V)", okk,
           f"the number of kept candidates is `{u(kdef[0].value) if kdef else None}`; the flattened candidate axis has "
           f"old_width * V entries, so fewer are kept than exist when the beam is wider than the vocabulary (the "
           f"search is not exhaustive at large width)", rel, kdef[0].lineno if kdef else adv.line,
           sample=u(kdef[0]) if kdef else None)

    # ---- S2 model state follows survivors -------------------------------------------------------
    in_next = sl.slot_name(sl.calc_assign, (1,))
    ex = [c for c in own_calls(fwd.node) if isinstance(c.func, ast.Attribute) and c.func.attr == "extract_by_src"]
    col.count("extract_by_src_sites", len(ex))
    col.ob("G16", "S2", f"{where}::state-is-reordered", len(ex) >= 1, "the model state is never re-ordered by extract_by_src: it does not follow the surviving paths", rel, fwd.line)
    for c in ex:
        s = c.args[0]
        sd = rd.defs_of(s) if isinstance(s, ast.Name) else ()
        ok = bool(sd) and all(d.stmt is sl.calc_assign and d.slot == (1,) for d in sd)
        col.ob("G16", "S2", f"{where}::extract_by_src(state of this step)", ok,
               f"`{u(c)}` re-orders `{u(s)}`, which is not the state returned by this iteration's "
               f"lm.calc_idx_log_probs (`{in_next}`): the model would continue from a stale state", rel, c.lineno,
               sample=u(c))
    # the state passed to calc on the next iteration is the extracted one (or the initial one)
    prev_arg = sl.calc_assign.value.args[1]
    kinds = set()
    if isinstance(prev_arg, ast.Name):
        for d in rd.defs_of(prev_arg):
            v = d.value
            if isinstance(v, ast.Call) and isinstance(v.func, ast.Attribute):
                kinds.add(v.func.attr)
            else:
                kinds.add("?")
    col.ob("G16", "S2", f"{where}::state-fed-to-next-step", kinds == {"update_input", "extract_by_src"},
           f"the state passed to lm.calc_idx_log_probs comes from {sorted(kinds)}; expected the initial "
           f"update_input state or the survivors' extract_by_src state", rel, sl.calc_assign.lineno, sample=sorted(kinds))
    # the paths fed to calc/advance are the survivors of the previous step (y_prev <- y_next)
    ynext = sl.slot_name(sl.adv_assign, (0,))
    b = bind_args(sl.adv_call, adv, False)
    got = {p.name: a for p, a, _ in b.pairs}
    for formal, slot in (("y_prev", (0,)), ("y_prev_lens", (1,)), ("log_probs_prev", (2,))):
        a = got.get(formal)
        der = rd.derives(a, value_flow=True, stop=lambda d: d.stmt is sl.adv_assign,
                         call_summary=make_call_summary(res, fwd)) if a is not None else None
        ok = der is not None and any(d.stmt is sl.adv_assign and d.slot == slot for d in der.defs) and not any(
            d.stmt is sl.adv_assign and d.slot not in (slot,) and d.slot != (3,) for d in der.defs)
        col.ob("G2", "S2", f"{where}::{ADV}({formal}<-slot {slot[0]} of the previous step)", ok,
               f"`{formal}` of the next step (`{u(a) if a is not None else None}`) is not fed from the same slot of "
               f"the previous step's result", rel, sl.adv_call.lineno, sample=u(a) if a is not None else None)

    # ---- S3 index spaces -------------------------------------------------------------------------------
    n_g, n_e = check_index_spaces(col, sl, rel, "S3", "log_probs_t")
    col.count("gather_by_source_index_sites", n_g)

    # ---- S4 finished-path forcing and padding ----------------------------------------------------------
    fills = [c for c in own_calls(fwd.node) if isinstance(c.func, ast.Attribute) and c.func.attr == "masked_fill"
             and len(c.args) == 2]
    eos_fills = []
    for c in fills:
        mder = rd.derives(c.args[0])
        if any(isinstance(x, ast.Attribute) and u(x) == "self.eos" for x in mder.nodes()):
            eos_fills.append(c)
    col.floor("eos_forcing_fills", len(eos_fills), 2)
    vals = sorted("-inf" if is_neg_inf(c.args[1]) else u(c.args[1]) for c in eos_fills)
    col.ob("G13", "S4", f"{where}::finished-paths-forced-to-eos", vals == ["-inf", "0.0"],
           f"finished paths' extension scores are filled with {vals}; expected -inf everywhere and 0.0 at eos "
           f"(probability one on re-emitting eos)", rel, eos_fills[0].lineno if eos_fills else fwd.line, sample=vals)
    # order: -inf first, then 0.0 on the eos column (the second mask includes the one-hot of eos)
    if len(eos_fills) == 2:
        first, second = sorted(eos_fills, key=lambda c: c.lineno)
        d2 = rd.derives(second.args[0])
        column = any(call_name(x).endswith("one_hot") for x in d2.calls()) or any(
            isinstance(x, ast.Compare) and len(x.ops) == 1 and isinstance(x.ops[0], ast.Eq)
            and {True} == {any(isinstance(c_, ast.Call) and call_name(c_) == "torch.arange" for c_ in ast.walk(s_)) or "self.eos" in u(s_) for s_ in (x.left, x.comparators[0])}
            and any("self.eos" in u(s_) for s_ in (x.left, x.comparators[0])) and any(
                isinstance(c_, ast.Call) and call_name(c_) == "torch.arange" for s_ in (x.left, x.comparators[0]) for c_ in ast.walk(s_))
            for x in list(d2.nodes()) + list(ast.walk(second.args[0])))
        ok = is_neg_inf(first.args[1]) and column  # (the eos column: its one-hot, or `arange(V) == eos`)
        col.ob("G13", "S4", f"{where}::eos-forcing-order", ok,
               "the 0.0 fill of the eos column must come after the -inf fill and use the one-hot of eos", rel,
               second.lineno)
    # length decrement for finished paths uses the same eos mask, gathered by the (beam-local) source index
    dec = [n for n in own_nodes(fwd.node) if isinstance(n, ast.Assign) and isinstance(n.value, ast.BinOp)
           and isinstance(n.value.op, ast.Sub) and u(n.targets[0]) == u(n.value.left)
           and u(n.targets[0]) == sl.slot_name(sl.adv_assign, (1,))]
    from sa.inline import Inliner as _InlF
    inl_fw = _InlF(fwd.node, rd)
    frozen_by_value = None
    if len(dec) != 1:
        # by value: the block under the eos test that re-defines the lengths is interpreted (sa/interp.py + sa/teval.py) with lengths
        # [[3, 4], [2, 5]], sources [[1, 0], [0, 1]] and every other tensor it reads as the 'had finished' mask [[T, F], [F, T]]: the new
        # lengths must be the old ones minus the mask gathered by source - `lens - mask.gather(1, src)`, `where(.., lens - 1, lens)` alike
        import numpy as _np
        from sa.interp import Interp as _Interp
        from sa.teval import frac_array as _fa
        lens_n, src_n = sl.slot_name(sl.adv_assign, (1,)), sl.slot_name(sl.adv_assign, (3,))
        blocks = [n for n in own_nodes(fwd.node) if isinstance(n, ast.If) and "self.eos" in u(n.test) and n.lineno > sl.adv_assign.lineno
                  and any(isinstance(x, ast.Assign) and any(u(t_) == lens_n for t_ in x.targets) for x in ast.walk(n))]
        blocks.sort(key=lambda n_: n_.lineno)  # (the first one after the step: later ones freeze whole batch elements)
        if blocks:
            body = blocks[0].body
            stored = {t_.id for x in ast.walk(ast.Module(body=body, type_ignores=[])) if isinstance(x, ast.Assign) for t_ in x.targets if isinstance(t_, ast.Name)}
            free = {x.id for b_ in body for x in ast.walk(b_) if isinstance(x, ast.Name) and isinstance(x.ctx, ast.Load)} - {"torch", "self", "math", lens_n, src_n}
            mask_ = _np.array([[True, False], [False, True]])
            env_ = {nm: mask_.copy() for nm in free if nm not in stored or nm == lens_n}
            env_.update({lens_n: _fa([[3, 4], [2, 5]]), src_n: _fa([[1, 0], [0, 1]])})
            fn_ = ast.FunctionDef(name="_block", args=ast.arguments(posonlyargs=[], args=[], kwonlyargs=[], kw_defaults=[], defaults=[]),
                                  body=list(body) + [ast.Return(value=ast.Name(id=lens_n, ctx=ast.Load()))], decorator_list=[])
            try:
                kind_, got_ = _Interp(tensors=True).run(fn_, env_)
                frozen_by_value = kind_ == "return" and hasattr(got_, "shape") and [[int(v_) for v_ in r_] for r_ in _np.asarray(got_).tolist()] == [[3, 3], [2, 4]]
            except Exception as _e:
                import os as _os
                if _os.environ.get("VERIF_DEBUG"):
                    import traceback as _tb
                    _tb.print_exc()
                frozen_by_value = None
    col.ob("G13", "S4", f"{where}::finished-paths-length-frozen", frozen_by_value if frozen_by_value is not None else (len(dec) == 1 and "gather" in inl_fw.text(dec[0].value.right)),
           "the length of a path that had finished before the step is not decremented back (lengths would count "
           "the re-emitted eos)", rel, dec[0].lineno if dec else fwd.line, sample=u(dec[0]) if dec else None)
    # the finished-path bookkeeping (forcing fills, length decrement) runs whenever an eos is configured - in BOTH finish_all_paths modes:
    # a path below the top slot that ends early is carried along (and re-emits eos) while the top path is still unfinished. The
    # conditions each of these statements is reached under are evaluated for eos unset / set x finish_all_paths False / True.
    from sa.inteval import NotEvaluable as _NE, int_eval as _ie
    def _guard3(t_, env_):
        """The truth of a guard in a configuration, or None when it depends on run-time values (the step number, tensors): evaluated with
        every truth assignment of its opaque operands - such a guard excludes nothing."""
        try:
            return bool(_ie(t_, dict(env_)))
        except _NE:
            pass
        import itertools as _it

        def _opaque(e_):
            if u(e_) in env_:
                return False
            if isinstance(e_, ast.Call) and call_name(e_) not in ("bool", "int", "min", "max", "abs"):
                return True
            return isinstance(e_, (ast.Name, ast.Attribute, ast.Subscript))
        keys = []

        def _collect(e_):
            if _opaque(e_):
                if u(e_) not in keys:
                    keys.append(u(e_))
                return
            for c_ in ast.iter_child_nodes(e_):
                _collect(c_)
        _collect(t_)
        if len(keys) > 6:
            return None
        outs = set()
        for combo in _it.product((True, False), repeat=len(keys)):
            val = dict(zip(keys, combo))
            outs.add(bool(_ie(t_, dict(env_, __leaf__=lambda e_: val.get(u(e_)) if _opaque(e_) else None))))
        return outs.pop() if len(outs) == 1 else None
    for tag, node in ([("length-decrement", dec[0])] if len(dec) == 1 else []) + [(f"forcing-fill#{i_}", c_) for i_, c_ in enumerate(sorted(eos_fills, key=lambda c: c.lineno))]:
        gs = [(t_, p_) for t_, p_ in guards_of(pm, node)]
        badg = None
        try:
            for eos_v in (None, 3):
                for fap in (False, True):
                    reach = all(_guard3(inl_fw.expand(t_), {"self.eos": eos_v, "self.finish_all_paths": fap}) in (p_, None) for t_, p_ in gs)
                    if reach != (eos_v is not None) and badg is None:
                        badg = (eos_v, fap, reach)
        except _NE as e_:
            col.undecided(f"{where}: the condition of the finished-path bookkeeping ({tag}) is outside the evaluated fragment ({e_})")
            continue
        col.ob("G13", "S4", f"{where}::finished-path-bookkeeping-whenever-eos-is-set[{tag}]", badg is None,
               (f"with eos={'unset' if badg[0] is None else 'set'} and finish_all_paths={badg[1]} the {tag} is {'reached' if badg[2] else 'skipped'} "
                f"(under {[(u(t_)[:50], p_) for t_, p_ in gs]}): a finished path that stays in the beam must be frozen in either mode, else its "
                f"length counts the re-emitted eos / its score keeps changing") if badg else "", rel, node.lineno, sample=[u(t_)[:60] for t_, _ in gs])
    # the "already finished" mask: last token == eos AND the path is non-empty; the gather index is (len - 1)
    # clamped at 0, so the validity test must be exactly len - 1 >= 0 (len > 0)
    em = [n for n in own_nodes(fwd.node) if isinstance(n, ast.Assign) and isinstance(n.value, ast.BinOp)
          and isinstance(n.value.op, ast.BitAnd) and "self.eos" in inl_fw.text(n.value) and "gather" in inl_fw.text(n.value)]
    okm = False
    detail = None
    if em:
        emv = inl_fw.expand(em[0].value)  # the gather index / the gathered token may carry names of their own
        cmpn = [x for x in (emv.left, emv.right) if isinstance(x, ast.Compare) and "self.eos" not in u(x)]
        idx = [x for x in ast.walk(emv) if isinstance(x, ast.Call) and isinstance(x.func, ast.Attribute)
               and ((x.func.attr == "clamp" and any(k.arg == "min" and u(k.value) == "0" for k in x.keywords))
                    or (x.func.attr == "clamp_min" and [u(a_) for a_ in x.args] == ["0"]))]
        if len(cmpn) == 1 and len(idx) == 1:
            c_, ix = cmpn[0], idx[0].func.value
            detail = (u(ix), u(c_))
            nz = Normalizer()
            # integer domain: L > c  <=>  L - c - 1 >= 0 ;  L >= c  <=>  L - c >= 0
            opn = type(c_.ops[0]).__name__
            lhs = padd(nz.poly(c_.left), nz.poly(c_.comparators[0]), -1)
            if opn == "Gt":
                lhs = padd(lhs, nz.poly(ast.Constant(value=1)), -1)
                opn = "GtE"
            okm = opn == "GtE" and not padd(lhs, nz.poly(ix), -1)
    col.ob("G12", "S4", f"{where}::finished-mask-validity==clamped-index-domain", okm,
           f"a path counts as finished iff its token at index clamp({detail[0] if detail else '?'}, 0) is eos and "
           f"`{detail[1] if detail else '?'}`; the validity test must be exactly 'index >= 0' (length > 0), otherwise a "
           f"path consisting of eos alone is not frozen (or an empty path is)", rel, em[0].lineno if em else fwd.line,
           sample=detail)
    # padding: pad_y uses self.pad_value; scores padded with -inf (both _to_width and advance)
    pads = [n for n in own_nodes(fwd.node) if isinstance(n, ast.Assign) and isinstance(n.value, ast.Call)
            and call_name(n.value) == "torch.full" and "pad" in u(n.targets[0])]
    okp = bool(pads) and all(len(n.value.args) >= 2 and u(n.value.args[1]) == "self.pad_value" for n in pads)
    col.ob("G13", "S4", f"{where}::pad-value", okp, "finished batch elements are not padded with self.pad_value", rel,
           pads[0].lineno if pads else fwd.line)
    tw = pkg.func(f"{MOD}::BeamSearch._to_width")
    for f_, tag in ((tw, "BeamSearch._to_width"), (adv, ADV)):
        rdx = ReachingDefs(f_.node)
        n_ = 0
        score_formals = {p_.name for p_ in f_.params if "log_probs" in p_.name}
        for n in own_nodes(f_.node):
            # every concatenation that widens a score tensor (its first block derives, by value, from a score formal) - as the
            # right-hand side of an assignment or inside a returned tuple
            cat_ = n if isinstance(n, ast.Call) and call_name(n) == "torch.cat" and n.args and isinstance(n.args[0], (ast.List, ast.Tuple)) \
                and len(n.args[0].elts) == 2 else None

            def _score_block(b_):
                dv = rdx.derives(b_, value_flow=True)
                return bool(dv.params() & score_formals) and not (dv.params() - score_formals - {"width", "self"}) \
                    and not any(d_.slot == (1,) and isinstance(d_.value, ast.Call) and isinstance(d_.value.func, ast.Attribute)
                                and d_.value.func.attr in ("topk", "sort", "max", "min") for d_ in dv.defs)
            which = [i_ for i_, b_ in enumerate(cat_.args[0].elts) if _score_block(b_)] if cat_ is not None else []
            if len(which) == 1:
                n = ast.Assign(targets=[ast.Name(id="scores", ctx=ast.Store())], value=cat_, lineno=cat_.lineno)
                n_ += 1
                from sa.inline import Inliner as _Inl
                e = _Inl(f_.node, rdx).expand(n.value.args[0].elts[1 - which[0]])
                ok = isinstance(e, ast.Call) and call_name(e).split(".")[-1] in ("new_full", "full") \
                    and len(e.args) >= 2 and is_neg_inf(e.args[1])
                col.ob("G13", "S4", f"{rel}::{tag}::unusable-slots=-inf", ok,
                       f"`{u(n)[:90]}` pads scores with something other than -inf (an unusable slot would outrank "
                       f"real paths)", rel, n.lineno, sample=u(n)[:120])
                # the filler goes BEHIND the scores: the tokens, lengths and sources of the unusable slots are appended behind
                # the real ones, so a filler in front gives the real paths' slots the score -inf and the junk slots the real scores
                col.ob("G13", "S4", f"{rel}::{tag}::unusable-slots-behind-the-real-ones", which[0] == 0,
                       f"`{u(n)[:90]}` puts the filler scores in front of the real ones while the filler tokens / lengths are appended "
                       f"behind: every real path gets the score of an unusable slot", rel, n.lineno, sample=u(n)[:120])
        col.floor(f"score_pad_sites[{tag}]", n_, 1)
    _all_paths_done_ignores_empty_slots(ctx)
    _initial_score_is_zero(ctx)
    from .search_common import finished_mass_on_eos
    finished_mass_on_eos(ctx, pkg.func(f"{MOD}::BeamSearch.forward"), "S3")
    _pad_block_takes_extents_from_its_partner(ctx)
    _batch_axis_dropped_iff_unset(ctx)
    _beam_table(ctx)
    # shallow fusion: each component keeps its own state through split / extract / mix / merge
    from .search_common import fusion_component_lineage
    fusion_component_lineage(ctx, "S3")
    from .search_common import eos_is_stored_normalised as _eosn
    _eosn(ctx, ctx.pkg.func("_decoding::BeamSearch.__init__"), "S12")
    from .search_common import initial_state_reaches_the_model as _isr
    _isr(ctx, ctx.pkg.func("_decoding::BeamSearch.forward"), "S11")
    plumbing(ctx, "S1")
    return dict(
        explanation=(
            "Decides for C04: (S1) the step function returns (paths, lengths, top-k values, top-k index // V) over "
            "joint scores prev + ext, token = index % V; (S2) the model state re-ordered after a step is the state "
            "returned by that step's lm.calc_idx_log_probs, the next step consumes the re-ordered state and the "
            "same-slot results of the previous step; (S3) per-element gathers use the beam-local source index and "
            "extract_by_src the flat one with the stride the scores were shaped with; (S4) finished paths are "
            "forced to eos with (-inf, then 0.0 at eos), their length is restored, padding uses pad_value and "
            "unusable slots get -inf. NOT decided: distinctness, best-first order, score equality with the chained "
            "model probability, exhaustiveness, batch-vs-single equality (search trajectories over runtime scores)."),
        decided=["S1", "S2", "S3", "S4"],
        not_decided=["distinctness", "best-first order", "score equals chained model log-probability",
                     "exhaustive at large width", "batch element independence"],
        assumptions=["user language models implement extract_by_src as documented (opaque)"],
    )


def _all_paths_done_ignores_empty_slots(ctx: Ctx):
    """S5: beam_search_advance fills the beam with score -inf slots whenever the width exceeds the number of candidates,
    and zero-probability extensions are -inf too. Such slots never end in eos, so the 'every path has finished' test of
    BeamSearch.forward (the reduction with .all over the beam axis) must treat a slot whose score is -inf as finished;
    otherwise the search never terminates (or runs to max_iters, calling the model with idx > hist.size(0))."""
    from sa.defuse import ReachingDefs
    col, pkg = ctx.col, ctx.pkg
    f = pkg.func("_decoding::BeamSearch.forward")
    rel = f.module.relname
    rd = ReachingDefs(f.node)
    pm = parent_map(f.node)
    adv = [c for c in own_calls(f.node) if call_name(c) == "beam_search_advance"]
    advf = pkg.func("_decoding::beam_search_advance")
    sarg = bind_args(adv[0], advf, False).arg_for(advf.params[2].name) if len(adv) == 1 else None  # (positional or by keyword)
    if not isinstance(sarg, ast.Name):
        raise AnalysisError("C04: BeamSearch.forward no longer calls beam_search_advance(log_probs_t, width, <scores>, ...)")
    score = sarg.id
    sites, anys = [], []
    for n in own_nodes(f.node):
        if isinstance(n, ast.Call) and isinstance(n.func, ast.Attribute) and n.func.attr in ("all", "any") and n.args and u(n.args[0]) == "1" \
                and under_flag(guards_of(pm, n), "self.finish_all_paths", True):
            sites.append(n)
    # 'run all paths to completion' by value: the statement that holds the batch-wide reduction is evaluated (sa/teval.py) on six beams
    # of three slots - an active slot among finished / empty ones, only finished and empty ones, only empty ones, only finished
    # ones, one active slot among finished ones: an element is done iff EVERY slot has finished or is empty (score -inf)
    import math
    import numpy as np
    from sa.inline import Inliner as _InlAP
    from sa.inteval import NotEvaluable as _NEap
    from sa.teval import frac_array, teval as _teval
    # (sixth beam: the only unfinished slot carries a very low but FINITE score - a path of many improbable steps is still a path)
    E = np.array([[True, False, False], [True, False, True], [False, False, False], [True, True, True], [False, True, True], [False, True, True]])
    L = np.empty((6, 3), dtype=object)
    L[...] = frac_array([[0, -1, 0], [0, 0, -2], [0, 0, 0], [-1, -2, -3], [-1, -2, -3], [-10 ** 6, -2, -3]])
    for i_, j_ in ((0, 2), (1, 1), (2, 0), (2, 1), (2, 2)):
        L[i_, j_] = -math.inf
    want_done = [False, True, True, True, False, False]
    verdicts, n_und = [], 0
    for n in sites:
        st = n
        while st is not None and not isinstance(st, ast.stmt):
            st = pm.get(st)
        if not isinstance(st, ast.Assign):
            continue
        # temporaries defined inside the finish_all_paths arm are looked through; what the arm receives (the eos mask, the scores) stays
        arm_defined = {d_.name for d_ in rd.defs if d_.stmt is not None and d_.kind == "assign"
                       and under_flag(guards_of(pm, d_.stmt), "self.finish_all_paths", True)}
        outer = {x.id for x in ast.walk(f.node) if isinstance(x, ast.Name)} - arm_defined
        ex = _InlAP(f.node, rd, keep=outer | {score}).expand(st.value)

        def leaf(x):
            if isinstance(x, ast.Name):
                return L if x.id == score else E
            if isinstance(x, ast.Attribute) and isinstance(x.value, ast.Name) and x.value.id == "config":
                from sa.constfold import fold_constant
                v_ = fold_constant(pkg.module("config").tree, x.attr)  # (a library constant, from its definition)
                if isinstance(v_, float) and v_ == v_ and abs(v_) != math.inf:
                    from fractions import Fraction as _FrC
                    return _FrC(v_)
                return v_
            return None
        try:
            got = _teval(ex, {}, leaf)
            got = [bool(z) for z in np.asarray(got).reshape(-1).tolist()]
        except _NEap as e_:
            col.undecided(f"{rel}::BeamSearch.forward: the all-paths test `{u(st)[:60]}` is outside the evaluated fragment ({e_})")
            n_und += 1
            continue
        verdicts.append((st, got))
    badv = [(st, got) for st, got in verdicts if got != want_done]
    col.floor("all_paths_reductions", len(sites), 1)
    col.ob("G13", "S5", f"{rel}::BeamSearch.forward::all-paths-mode-waits-for-every-slot", not badv and (bool(verdicts) or n_und > 0),
           (f"under finish_all_paths `{u(badv[0][0])[:80]}` gives done = {badv[0][1]} for six reference beams (an active slot among finished / empty "
            f"ones; finished and empty ones; only empty ones; only finished ones; one active slot among finished ones; the same with a very low finite score); an element is done iff "
            f"EVERY slot has finished or is empty: {want_done} - otherwise the search freezes an element at the first eos anywhere in its beam and "
            f"returns unfinished prefixes, or never stops because empty slots never end in eos") if badv else "", rel,
           badv[0][0].lineno if badv else f.line)
    return
    if len(sites) != 1:
        raise AnalysisError(f"C04: expected one all-paths reduction under finish_all_paths, found {len(sites)}")
    from sa.inline import Inliner
    red = Inliner(f.node, rd).expand(sites[0].func.value)  # `no_mass = scores == -inf` may carry a name
    der = rd.derives(sites[0].func.value)
    mentions = any(isinstance(x, ast.Name) and x.id == score for x in ast.walk(red)) or score in {getattr(d, "name", None) for d in der.defs}
    neg_inf = any(is_neg_inf(x) for x in ast.walk(red)) or any(
        isinstance(c, ast.Call) and isinstance(c.func, ast.Attribute) and c.func.attr in ("isinf", "isneginf", "isfinite") for c in ast.walk(red))
    col.ob("G20", "S5", f"{rel}::BeamSearch.forward::all-paths-finished-counts-empty-slots", mentions and neg_inf,
           f"under finish_all_paths the search stops when `{u(sites[0])[:90]}`; slots whose score `{score}` is -inf (beam wider "
           f"than the number of paths, zero-probability extensions) never end in eos, so this is never true: the call does not "
           f"return (or runs to max_iters with idx > hist.size(0)) and a batch element that is done breaks the frozen-copy shapes",
           rel, sites[0].lineno, sample=u(sites[0])[:120])


def _initial_score_is_zero(ctx: Ctx):
    """S7: the search starts from the single empty prefix, whose log-probability is log 1 = 0; every reported score is that start plus
    the chained extension scores. A start that depends on the target width (-log(width)) shifts every reported score by a constant:
    ranking and paths stay right, the reported log-probability no longer is the model's own. The fill value of the score tensor's
    definition before the step loop is evaluated (math.log by its value) for width 1 and 3."""
    import math
    from sa.defuse import ReachingDefs
    from sa.inline import Inliner
    from sa.inteval import NotEvaluable, int_eval
    col, pkg = ctx.col, ctx.pkg
    f = pkg.func("_decoding::BeamSearch.forward")
    rel = f.module.relname
    rd = ReachingDefs(f.node)
    adv = [c for c in own_calls(f.node) if call_name(c) == "beam_search_advance"]
    advf = pkg.func("_decoding::beam_search_advance")
    sarg = bind_args(adv[0], advf, False).arg_for(advf.params[2].name) if len(adv) == 1 else None
    if not isinstance(sarg, ast.Name):
        raise AnalysisError("C04: BeamSearch.forward no longer calls beam_search_advance(log_probs_t, width, <scores>, ...)")
    loops = [st for st in f.node.body if isinstance(st, (ast.For, ast.While))]
    first_loop = min((l.lineno for l in loops), default=10 ** 9)
    inits = [d for d in rd.defs if d.name == sarg.id and d.kind == "assign" and d.value is not None and d.line < first_loop]
    if len(inits) != 1:
        raise AnalysisError(f"C04: expected one definition of the scores before the step loop, found {len(inits)}")
    v = Inliner(f.node, rd).expand(inits[0].value)
    fill = None
    if isinstance(v, ast.Call):
        cn = call_name(v)
        if cn in ("torch.zeros", "torch.zeros_like") or (isinstance(v.func, ast.Attribute) and v.func.attr == "new_zeros"):
            fill = ast.Constant(value=0)
        elif cn == "torch.full" and len(v.args) >= 2:
            fill = v.args[1]
        elif isinstance(v.func, ast.Attribute) and v.func.attr == "new_full" and len(v.args) >= 2:
            fill = v.args[1]
    if fill is None:
        col.undecided(f"{rel}::BeamSearch.forward: the initial scores `{u(v)[:60]}` are not a constant fill")
        return
    vals = {}
    try:
        for w in (1, 3):
            def leaf(x, w=w):
                if isinstance(x, ast.Call) and call_name(x) in ("math.log", "log", "math.log2", "math.log10") and len(x.args) == 1:
                    a = int_eval(x.args[0], {"self.width": w, "__leaf__": leaf})
                    if a is None or a <= 0:
                        raise NotEvaluable("log of a non-positive number")
                    return math.log(a) if a != 1 else 0.0
                return None
            vals[w] = int_eval(fill, {"self.width": w, "__leaf__": leaf})
    except NotEvaluable as e:
        col.undecided(f"{rel}::BeamSearch.forward: the initial score `{u(fill)[:50]}` is outside the evaluated fragment ({e})")
        return
    ok = all(abs(float(x)) == 0.0 for x in vals.values())
    col.ob("G12", "S7", f"{rel}::BeamSearch.forward::empty-prefix-starts-at-log-one", ok,
           f"the search starts its single empty prefix at `{u(fill)}` = {vals} (width 1, 3) instead of log 1 = 0: every reported "
           f"log-probability is shifted by that constant and no longer equals the model's chained score of the returned tokens", rel,
           inits[0].line, sample={str(k): float(x) for k, x in vals.items()})


def _batch_axis_dropped_iff_unset(ctx: Ctx):
    """S9: 'what is returned for one batch element is what searching that element alone returns' includes the layout: with batch_size
    set the results keep their batch axis ((S, N, width) / (N, width)) for EVERY N, a batch of one included; the axis is dropped only
    when the caller gave no batch size (the function added it itself). The conditions under which the results are squeezed after the
    step loop are evaluated (names expanded to their definitions) for batch_size None, 1, 2, 5: true exactly for None."""
    from sa.inline import Inliner
    from sa.inteval import NotEvaluable, int_eval
    col, pkg = ctx.col, ctx.pkg
    f = pkg.func("_decoding::BeamSearch.forward")
    rel = f.module.relname
    where = f"{rel}::BeamSearch.forward"
    rd = ReachingDefs(f.node)
    pm = parent_map(f.node)
    bs = next((p_.name for p_ in f.params if "batch" in p_.name), None)
    if bs is None:
        raise AnalysisError("C04: BeamSearch.forward has no batch-size formal")
    loops = [st for st in f.node.body if isinstance(st, (ast.For, ast.While))]
    if not loops:
        raise AnalysisError("C04: BeamSearch.forward has no step loop")
    after = max(l.end_lineno for l in loops)
    sites = [c for c in own_nodes(f.node) if isinstance(c, ast.Call) and isinstance(c.func, ast.Attribute) and c.func.attr == "squeeze"
             and c.lineno > after]
    col.floor("result_squeeze_sites", len(sites), 1)
    inl = Inliner(f.node, rd)
    bad = None
    try:
        for c in sites:
            gs = guards_of(pm, c)
            for v in (None, 1, 2, 5):
                holds = all(bool(int_eval(inl.expand(t), {bs: v})) == pol for t, pol in gs)
                if holds != (v is None) and bad is None:
                    bad = (c, v, holds, [(u(t)[:40], pol) for t, pol in gs])
    except NotEvaluable as e:
        col.undecided(f"{where}: the condition of the final squeeze is outside the evaluated fragment ({e})")
        return
    col.ob("G12", "S9", f"{where}::batch-axis-dropped-iff-no-batch-size", bad is None,
           (f"with {bs}={bad[1]} the results are {'squeezed' if bad[2] else 'not squeezed'} (`{u(bad[0])[:40]}` under {bad[3]}): the batch "
            f"axis must be dropped exactly when no batch size was given - a batch of one element keeps its (S, 1, width) / (1, width) layout") if bad else "",
           rel, sites[0].lineno if sites else f.line, sample=dict(sites=len(sites)))


class _BadSource(Exception):
    pass


def _beam_table(ctx: Ctx):
    """S10 by value: `BeamSearch.forward` - with `_to_width`, `update_log_probs_for_step` and `beam_search_advance` - is interpreted over
    exact values (sa/interp.py + sa/teval.py; nothing is run). The language model is a leaf with THREADED STATE: its scores for the next
    token are a function of a state that is updated from the previous token at every step and re-ordered only through
    `extract_by_src`; scores are generic rationals that make every path's total unique (a per-(step, state, token) unit fraction of a
    prime), and `log_softmax` is taken as the identity (the search only adds and compares scores). Grid: vocabularies of 2 and 3
    tokens, eos unset / first / last token, both finish_all_paths settings, widths 1, 2, 4 and beyond exhaustive, step limits 0, 1,
    3, unbatched and a batch of two different initial states. For every returned slot with a finite score: the path is distinct in its
    beam, ends at its first eos (counted in its length) or has the full length, and its score is the model's own chained score of
    exactly that token sequence, recomputed from the initial state; finite scores are in non-increasing order with -inf slots behind
    them; a beam at least as wide as the set of complete sequences, run to completion, returns exactly that set; a batch element's
    result is that of searching it alone. A configuration whose top-k has a tie among finite scores is skipped (counted)."""
    import itertools
    import math
    import numpy as np
    from fractions import Fraction as Fr
    from sa.interp import Interp
    from sa.inteval import NotEvaluable
    col, pkg = ctx.col, ctx.pkg
    fwd = pkg.func(f"{MOD}::BeamSearch.forward")
    adv = pkg.func(f"{MOD}::{ADV}")
    rel = fwd.module.relname
    where = f"{rel}::BeamSearch.forward"
    methods = {st.name: st for st in fwd.cls.node.body if isinstance(st, ast.FunctionDef)}
    PRIMES = [p_ for p_ in range(2, 2000) if all(p_ % q_ for q_ in range(2, int(p_ ** 0.5) + 1))]

    def lm_step(t, h, tok, V):
        h2 = (h * 3 + (tok + 1 if tok is not None else 0)) % 5
        return [Fr(-1) - Fr(1, PRIMES[(t * 5 + h2) * 4 + v]) - Fr(v, 3) * ((h2 + t) % 2) for v in range(V)], h2

    def search(V, width, eos, fap, max_iters, inits, explicit_batch=False):
        N = len(inits)
        holder = {}

        def lookup(c):
            f = c.func
            if isinstance(f, ast.Name) and f.id == ADV:
                return adv.node
            if isinstance(f, ast.Attribute) and isinstance(f.value, ast.Name) and f.value.id == "self" and f.attr in methods \
                    and f.attr not in ("forward", "__init__", "reset_parameters"):
                return methods[f.attr]
            return None

        def leaf(x, env):
            it = holder["it"]
            if isinstance(x, ast.Call):
                cn = call_name(x)
                if cn == "self.lm.update_input":
                    return {"h": np.array(list(inits), dtype=int)}
                if cn == "self.lm.calc_idx_log_probs" and len(x.args) == 3:
                    hist = np.asarray(it.eval(x.args[0], env))
                    prev = it.eval(x.args[1], env)
                    t = int(np.asarray(it.eval(x.args[2], env)).reshape(-1)[0])
                    M = hist.shape[1]
                    if not isinstance(prev, dict) or len(prev["h"]) != M:
                        raise NotEvaluable("language-model state does not line up with the beam")
                    out, nh = np.empty((M, V), dtype=object), np.zeros((M,), dtype=int)
                    for m in range(M):
                        sc, h2 = lm_step(t, int(prev["h"][m]), int(hist[t - 1, m]) if t > 0 else None, V)
                        nh[m] = h2
                        out[m, :] = sc
                    return (out, {"h": nh})
                if cn == "self.lm.extract_by_src" and len(x.args) == 2:
                    prev, src = it.eval(x.args[0], env), np.asarray(it.eval(x.args[1], env)).reshape(-1)
                    if not isinstance(prev, dict) or any(isinstance(s_, float) or s_ != int(s_) or not 0 <= int(s_) < len(prev["h"]) for s_ in src):
                        raise _BadSource(f"the language-model state is re-ordered by {[str(s_) for s_ in src][:6]}, which are not slots of the previous beam")
                    return {"h": np.array([prev["h"][int(s_)] for s_ in src], dtype=int)}
                if isinstance(x.func, ast.Attribute) and x.func.attr == "log_softmax":
                    return it.eval(x.func.value, env)
                if cn == "dict" and not x.args and not x.keywords:
                    return {}
                if cn == "trunc_divide" and len(x.args) == 2:
                    a_, d_ = it.eval(x.args[0], env), it.eval(x.args[1], env)
                    return np.vectorize(lambda v_: Fr(int(v_) // int(d_)) if v_ >= 0 else Fr(-((-int(v_)) // int(d_))), otypes=[object])(a_)
            if isinstance(x, ast.Attribute) and u(x) == "self.device_buffer.device":
                return "<device>"
            return None
        it = Interp(leaf=leaf, lookup=lookup, tensors=True, max_steps=400000)
        holder["it"] = it
        names = [p_.name for p_ in fwd.params[1:]]
        env = dict(zip(names, (None, None if (N == 1 and not explicit_batch) else N, max_iters)))
        env.update({"self.eos": eos, "self.width": width, "self.finish_all_paths": fap, "self.lm.vocab_size": V, "self.pad_value": -9})
        try:
            kind, got = it.run(fwd.node, env)
        except _BadSource as e_:
            return str(e_)
        if kind != "return" or not isinstance(got, tuple) or len(got) != 3:
            return f"{kind}: {str(got)[:80]}"
        y, lens, lp = (np.asarray(g_, dtype=object) for g_ in got)
        want_nd = (2, 1, 1) if (N == 1 and not explicit_batch) else (3, 2, 2)
        if (y.ndim, lens.ndim, lp.ndim) != want_nd:
            return f"the results have {y.ndim}, {lens.ndim} and {lp.ndim} axes; with batch_size {'unset' if want_nd[0] == 2 else 'given'} they have {want_nd}"
        if N == 1 and not explicit_batch:
            y, lens, lp = y[:, None], lens[None], lp[None]
        return y, lens, lp

    def chained(V, init, seq):
        h, tot, tok = init, Fr(0), None
        for t, v in enumerate(seq):
            sc, h = lm_step(t, h, tok, V)
            tot += sc[v]
            tok = v
        return tot

    def complete(V, eos, T):
        out = []
        for L in range(0, T + 1):
            for seq in itertools.product(range(V), repeat=L):
                if eos is not None and eos in seq[:-1]:
                    continue
                if L == T or (eos is not None and L and seq[-1] == eos):
                    out.append(tuple(seq))
        return out
    bad, rows, skipped = None, 0, 0
    try:
        for V in (2, 3):
            for eos in (None, 0, V - 1):
                for fap in (False, True):
                    for T in (0, 1, 3):
                        n_complete = len(complete(V, eos, T))
                        for width in (1, 2, 4, n_complete + 2):
                            for inits in ((0,), (2, 0)):
                                if len(inits) == 2 and (width == 4 or T == 1):
                                    continue
                                try:
                                    res = search(V, width, eos, fap, T, inits, explicit_batch=(len(inits) == 1 and width == 2))  # (a batch of exactly one)
                                except NotEvaluable as e:
                                    if "tied" in str(e):
                                        skipped += 1
                                        continue
                                    raise
                                rows += 1
                                cfg = dict(vocab=V, eos=eos, finish_all_paths=fap, max_iters=T, width=width, initial_states=list(inits))
                                if isinstance(res, str):
                                    bad = bad or (cfg, res)
                                    continue
                                y, lens, lp = res
                                for n, init in enumerate(inits):
                                    seen, prev_s, dead, problem = set(), None, False, None
                                    for k in range(lp.shape[1]):
                                        s_ = lp[n, k]
                                        if s_ != s_:
                                            problem = problem or f"slot {k} has a NaN score"
                                            continue
                                        if s_ == -math.inf:
                                            dead = True
                                            continue
                                        L = int(lens[n, k])
                                        seq = tuple(int(y[i, n, k]) for i in range(L))
                                        if dead:
                                            problem = problem or f"path {seq} with score {s_} sits behind an unusable (-inf) slot"
                                        if prev_s is not None and s_ > prev_s:
                                            problem = problem or f"scores are not best-first at slot {k}"
                                        prev_s = s_
                                        if seq in seen:
                                            problem = problem or f"path {seq} is returned twice"
                                        seen.add(seq)
                                        if eos is not None and eos in seq[:-1]:
                                            problem = problem or f"path {seq} continues after its first eos"
                                        if len(inits) == 1 and (eos is None or eos not in seq) and L != y.shape[0]:  # (in a batch an element is frozen when it is done)
                                            problem = problem or f"unfinished path {seq} has length {L} after {y.shape[0]} steps"
                                        want = chained(V, init, seq)
                                        if s_ != want:
                                            problem = problem or f"path {seq} is reported at {s_}; the model's chained score of these tokens is {want}"
                                    if problem is None and fap and width >= n_complete and eos is not None and seen != set(complete(V, eos, T)):
                                        problem = f"a beam of width {width} run to completion returns {sorted(seen)}; the complete sequences are {complete(V, eos, T)}"
                                    if problem is None and len(inits) == 2:
                                        alone = search(V, width, eos, fap, T, (init,))
                                        if not isinstance(alone, str):
                                            ya, la, pa = alone
                                            mine = [(tuple(int(y[i, n, k]) for i in range(int(lens[n, k]))), lp[n, k]) for k in range(lp.shape[1]) if lp[n, k] != -math.inf]
                                            solo = [(tuple(int(ya[i, 0, k]) for i in range(int(la[0, k]))), pa[0, k]) for k in range(pa.shape[1]) if pa[0, k] != -math.inf]
                                            if mine != solo:
                                                problem = f"element {n} of the batch returns {mine[:3]}..; searched alone it returns {solo[:3]}.."
                                    if problem and bad is None:
                                        bad = (cfg, f"batch element {n}: {problem}")
    except NotEvaluable:
        return False
    col.count("beam_table_rows", rows)
    col.count("beam_table_ties_skipped", skipped)
    if rows < 60:
        return False
    col.ob("G12", "S10", f"{where}::beam-table", bad is None, (f"{bad[0]}: {bad[1]}") if bad else "", rel, fwd.line, sample=dict(rows=rows, skipped=skipped))
    return True


def _pad_block_takes_extents_from_its_partner(ctx: Ctx):
    """S6: `torch.cat([A, A.new_empty(e0, e1, e2)], k)` needs e_i == A.size(i) for every i != k. Where A's extent along i is
    path-dependent - one reaching definition of A concatenates along i ("don't make y bigger unless we have to") and another
    does not - a fixed expression for e_i is wrong on one of the paths; it has to be read from A itself."""
    from sa.defuse import ReachingDefs
    col, pkg = ctx.col, ctx.pkg
    f = pkg.func("_decoding::beam_search_advance")
    rel = f.module.relname
    rd = ReachingDefs(f.node)
    n_sites = 0
    for c in own_calls(f.node):
        if call_name(c) != "torch.cat" or len(c.args) < 2 or not isinstance(c.args[0], (ast.List, ast.Tuple)) or len(c.args[0].elts) != 2:
            continue
        a, b = c.args[0].elts
        k = c.args[1]
        if not (isinstance(a, ast.Name) and isinstance(k, ast.Constant) and isinstance(b, ast.Call) and isinstance(b.func, ast.Attribute)
                and b.func.attr in ("new_empty", "new_full", "new_zeros", "new_ones") and u(b.func.value) == a.id):
            continue
        shape = list(b.args[0].elts) if b.args and isinstance(b.args[0], ast.Tuple) else [x for x in b.args if not isinstance(x, ast.Constant) or isinstance(x.value, int)]
        if b.func.attr == "new_full" and not (b.args and isinstance(b.args[0], ast.Tuple)):
            continue
        # dims along which some (transitive) definition of A grows it
        grows = set()
        seen = set()

        def walk(name_node, depth=0):
            if depth > 6:
                return
            for d in rd.defs_of(name_node):
                if id(d) in seen or d.value is None:
                    continue
                seen.add(id(d))
                v = d.value
                if isinstance(v, ast.Call) and call_name(v) == "torch.cat" and len(v.args) >= 2 and isinstance(v.args[1], ast.Constant):
                    grows.add(v.args[1].value)
                for x in ast.walk(v):
                    if isinstance(x, ast.Name) and x.id == name_node.id and isinstance(x.ctx, ast.Load):
                        walk(x, depth + 1)
        walk(a)
        ndefs = len(list(rd.defs_of(a)))
        for i, e in enumerate(shape):
            if i == k.value or i not in grows or ndefs < 2:
                continue
            n_sites += 1
            from sa.inline import Inliner as _InlPB
            ex_ = _InlPB(f.node, rd, keep={a.id}).expand(e)  # (a named extent `S = y_next.size(0)` read at the same point)
            if isinstance(ex_, ast.Name):
                ds_ = [d for d in rd.defs_of(e)] if isinstance(e, ast.Name) else []
                if len(ds_) == 1 and ds_[0].kind == "unpack" and isinstance(ds_[0].value, ast.Tuple) and ds_[0].slot and len(ds_[0].slot) == 1 \
                        and ds_[0].slot[0] < len(ds_[0].value.elts):
                    ex_ = ds_[0].value.elts[ds_[0].slot[0]]  # `S, N = y_next.size(0), y_next.size(1)`
            from_partner = any(isinstance(x, ast.Call) and isinstance(x.func, ast.Attribute) and x.func.attr == "size" and u(x.func.value) == a.id
                               for x in ast.walk(ex_)) or any(isinstance(x, ast.Attribute) and x.attr == "shape" and u(x.value) == a.id for x in ast.walk(ex_))
            col.ob("G19", "S6", f"{rel}::beam_search_advance::pad-block-extent[{i}]-read-from-{a.id}", from_partner,
                   f"`{u(c)[:100]}` pads `{a.id}` along axis {k.value} with a block whose extent along axis {i} is `{u(e)}`, but "
                   f"`{a.id}` is only sometimes grown along axis {i} (one of its definitions concatenates along it, another does "
                   f"not): on the other path the two blocks disagree and torch.cat raises", rel, c.lineno, sample=u(e))
    col.floor("pad_block_sites", n_sites, 1)


def _mutants():
    from selftest.mutate import Mutant as M
    D = "_decoding.py"
    return [
        M("finished-cleared-per-element", D, "log_probs_t = log_probs_t.masked_fill(eos_mask.unsqueeze(2), -float('inf'))", "log_probs_t = log_probs_t.masked_fill(done_mask.unsqueeze(2), -float('inf'))", "finished-path-cleared-under-its-own-mask"),
        M("filler-block-assumes-growth", "_decoding.py", "y_next = torch.cat([y_next, y_next.new_empty(y_next.size(0), N, rem)], 2)", "y_next = torch.cat([y_next, y_next.new_empty(tm1 + 1, N, rem)], 2)", "pad-block-extent"),
        M("waits-for-empty-slots", "_decoding.py", "done_mask = (eos_mask | (log_probs_prev == -float('inf'))).all(1, keepdim=True)", "done_mask = eos_mask.all(1, keepdim=True)", "all-paths-mode-waits-for-every-slot"),
        M("fused-second-state-from-first", "_lm.py", "prev_second = self.second.extract_by_src(prev_second, src)", "prev_second = self.second.extract_by_src(prev_first, src)", "own-state"),
        M("stale-state", D, "prev = self.lm.extract_by_src(in_next, next_src.flatten())",
          "prev = self.lm.extract_by_src(prev, next_src.flatten())", "extract_by_src(state of this step)"),
        M("state-not-reordered", D, "prev = self.lm.extract_by_src(in_next, next_src.flatten())", "prev = in_next",
          "G16/S2"),
        M("offset-before-gather", D,
          "if self.eos is not None:\n    y_next_lens = y_next_lens - eos_mask.gather(1, next_src).to(y_next_lens)\nnext_src = torch.arange(0, prev_width * N, prev_width, device=next_src.device).unsqueeze(1) + next_src",
          "next_src = torch.arange(0, prev_width * N, prev_width, device=next_src.device).unsqueeze(1) + next_src\nif self.eos is not None:\n    y_next_lens = y_next_lens - eos_mask.gather(1, next_src).to(y_next_lens)",
          "beam-local-index"),
        M("extract-with-local-index", D,
          "next_src = torch.arange(0, prev_width * N, prev_width, device=next_src.device).unsqueeze(1) + next_src\nprev = self.lm.extract_by_src(in_next",
          "prev = self.lm.extract_by_src(in_next", "flat-index"),
        M("stride-self-width", D, "torch.arange(0, prev_width * N, prev_width, device=next_src.device).unsqueeze(1) + next_src\nprev = self.lm.extract_by_src(in_next",
          "torch.arange(0, self.width * N, self.width, device=next_src.device).unsqueeze(1) + next_src\nprev = self.lm.extract_by_src(in_next", "stride"),
        M("eos-fill-values-swapped", D, "log_probs_t = log_probs_t.masked_fill(eos_mask_, 0.0)",
          "log_probs_t = log_probs_t.masked_fill(eos_mask_, -float('inf'))", "finished-paths-forced-to-eos"),
        M("length-not-frozen", D, "y_next_lens = y_next_lens - eos_mask.gather(1, next_src).to(y_next_lens)", "pass",
          "finished-paths-length-frozen"),
        M("pad-zero", D, "pad_y = torch.full((1, N, self.width), self.pad_value, device=device, dtype=torch.long)",
          "pad_y = torch.full((1, N, self.width), 0, device=device, dtype=torch.long)", "pad-value"),
        M("to-width-pad-zero", D, "log_probs_prev.new_full((N, rem), -float('inf'))", "log_probs_prev.new_full((N, rem), 0.0)",
          "unusable-slots=-inf"),
        M("advance-returns-indices-as-scores", D, "return (y_next, y_next_lens, log_probs_next, next_src)",
          "return (y_next, y_next_lens, next_src, log_probs_next)", "G2/S1"),
        M("topk-on-ext-only", D, "cand_log_probs = (log_probs_prev.unsqueeze(2) + log_probs_t).flatten(1)",
          "cand_log_probs = log_probs_t.flatten(1)", "candidates=prev+ext"),
        M("lens-scores-swapped-feedback", D, "y_prev_lens = y_next_lens\nlog_probs_prev = log_probs_next",
          "y_prev_lens = y_next_lens\nlog_probs_prev = log_probs_t.max(2)[0]", "log_probs_prev<-slot 2"),
        M("K-min-width-V", D, "K = min(width, Kp * V)\n    cand_log_probs", "K = min(width, V)\n    cand_log_probs", "K=min(width"),
        M("eos-guard-off-by-one", D, "& (y_prev_lens > 0)", "& (y_prev_lens > 1)", "finished-mask-validity"),
        M("twin:rename-in-next", D, "in_next", "state_next", "", -1, twin=True),
    ]


def selftest(ctx: Ctx):
    from selftest.mutate import run_selftest
    return run_selftest("C04", ctx.pkg.repo, _mutants(), floor=10)


MANIFEST = dict(
    level_text=(
        "Static dataflow analysis (no execution) of beam_search_advance and BeamSearch.forward: slot roles of the "
        "step function, def-use version rules showing that the language-model state re-ordered after a step is "
        "this step's state and is what the next step consumes, index-space kinds (beam-local for per-element "
        "gathers, flat with the right stride for extract_by_src), and the sentinel tables for finished paths and "
        "unusable slots. Necessary conditions of 'model state must follow the surviving paths' and 'unusable slots "
        "carry -inf'; distinctness/order/score equality over search trajectories are not decided. The all-paths done test is evaluated on six reference beams (one with a very low finite score; library constants folded from config), guards of the finished-path bookkeeping three-valued, and the state handed to the model's first update_input is the caller's (backward slice interpreted with and without a state). The value stored as self.eos is the index counted from the front for eos = None, 0, V - 1, -1, -V (backward slice of the constructor interpreted)."),
    level_note="Trusted: python ast; torch gather/topk semantics; user language models are opaque.",
    technique="static analysis: reaching definitions (def-use versions), index-space kind checking, literal sentinel tables, argument binding; evaluation of the initial score; BeamSearch.forward interpreted over exact values with a stateful language-model leaf on a grid of 216 searches (chained scores recomputed independently, exhaustive set, batch independence); backward slice of the initial state interpreted over plain data; three-valued guard evaluation",
    design_ref="DESIGN.md section 4 C04",
)
