"""Shared context, anchor ownership table and the package-wide plumbing rules."""
from __future__ import annotations

import re
from dataclasses import dataclass
from typing import Dict, List

from sa.model import AnalysisError, FuncInfo, Package
from sa.resolve import Resolver
from sa.report import Collector
from rules import args as R_args


@dataclass
class Ctx:
    pkg: Package
    res: Resolver
    col: Collector
    tier: str
    prop: str

    def owned(self) -> List[FuncInfo]:
        return owned_funcs(self.pkg, self.prop)


# property -> [(module, regex over qualname)]  (callers owned by the property)
OWN: Dict[str, List[tuple]] = {
    "C01": [("_string", r"^(EditDistance|PrefixEditDistances|_StringMatching)\.|^(edit_distance|prefix_edit_distances|_string_matching|_lens_from_eos)$")],
    "C02": [("_string", r"^(ErrorRate|PrefixErrorRates|MinimumErrorRateLoss|_StringMatching)\.|^(error_rate|prefix_error_rates|minimum_error_rate_loss|_string_matching|_lens_from_eos)$")],
    "C03": [("_string", r"^(OptimalCompletion|HardOptimalCompletionDistillationLoss|_StringMatching)\.|^(optimal_completion|hard_optimal_completion_distillation_loss)$")],
    "C04": [("_decoding", r"^BeamSearch\.|^(beam_search_advance)$"),
            ("_lm", r"^(ExtractableSequentialLanguageModel|ExtractableShallowFusionLanguageModel|SequentialLanguageModel)\.")],
    "C05": [("_decoding", r"^CTCPrefixSearch\.|^(ctc_prefix_search_advance)$"),
            ("_lm", r"^(MixableSequentialLanguageModel|MixableShallowFusionLanguageModel|ExtractableSequentialLanguageModel)\.")],
    "C06": [("_lm", r"^LookupLanguageModel\.|^_lookup_calc_idx_log_probs$"),
            ("_parsing", r"^parse_arpa_lm$")],
    "C07": [("_decoding", r"^(SequenceLogProbabilities|RandomWalk|SequentialLanguageModelDistribution|CTCGreedySearch|TokenSequenceConstraint)\.|^(sequence_log_probs|_sequence_log_probs_tensor|_sequence_log_probs_ps|random_walk_advance|ctc_greedy_search)$"),
            ("_string", r"^FillAfterEndOfSequence\.|^fill_after_eos$")],
    "C08": [("_img", r"^(SpecAugment|Warp1DGrid|PolyharmonicSpline|DenseImageWarp|SparseImageWarp)\.|^(spec_augment.*|warp_1d_grid|polyharmonic_spline|dense_image_warp|sparse_image_warp|_.*)$")],
    "C09": [("_pad", r".*"), ("_img", r"^RandomShift\.|^random_shift$")],
    "C10": [("_feats", r"^(SliceSpectData|ChunkTokenSequencesBySlices)\.|^(slice_spect_data|chunk_token_sequences_by_slices)$"),
            ("command_line", r"^(chunk_torch_spect_data_dir|_chunk_torch_spect_data_dir_do_work)$")],
    "C11": [("_parsing", r"^(?!parse_arpa_lm$).*"), ("_textgrid", r".*")],
    "C12": [("_datasets", r"^(SpectDataSet|LangDataSet)\.|^(_info_and_validate|validate_spect_data_set|_load_ref|_write_hyp|_utts_in_dir|_validate_.*)$"),
            ("command_line", r"^get_torch_spect_data_dir_info$")],
    "C13": [("_dataloaders", r"^(AbstractEpochSampler|EpochRandomSampler|EpochSequentialSampler)\.")],
    "C14": [("_dataloaders", r"^(?!(AbstractEpochSampler|EpochRandomSampler|EpochSequentialSampler)\.).*"),
            ("_datasets", r"^(ContextWindowDataSet|LangDataSet|SpectDataSet)\.|^extract_window$")],
    "C15": [("training", r".*")],
    "C16": [("training", r".*")],
    "C17": [("command_line", r".*")],
    "C18": [("_feats", r"^(MeanVarianceNormalization|FeatureDeltas)\.|^(mean_var_norm|feat_deltas|_feat_delta_filters)$"),
            ("_rl", r".*"),
            ("command_line", r"^compute_mvn_stats_for_torch_feat_data_dir$")],
    "C19": [("_mc", r".*"), ("_enumerate_estimator", r".*"), ("_straight_through", r".*"),
            ("_combinatorics", r".*"), ("_estimators", r".*"), ("estimators", r".*")],
    "C20": [("_attn", r".*")],
}


def owned_funcs(pkg: Package, prop: str) -> List[FuncInfo]:
    out = []
    for mod, rx in OWN[prop]:
        mi = pkg.module(mod)
        r = re.compile(rx)
        n = 0
        for f in pkg.all_functions():
            if f.module is mi and not f.is_overload:
                top = f
                while top.parent is not None:
                    top = top.parent
                if r.search(top.qualname):
                    out.append(f)
                    n += 1
        if n == 0:
            raise AnalysisError(f"{prop}: no function in {mod} matches anchor pattern {rx}")
    return out


def plumbing(ctx: Ctx, clause: str = "S1", g3: bool = True, g4: bool = True):
    """G1-G4 over the functions owned by the property."""
    funcs = ctx.owned()
    ctx.col.count("owned_functions", len(funcs))
    R_args.g1_args(ctx.pkg, ctx.res, funcs, ctx.col, clause)
    R_args.g2_slots(ctx.pkg, ctx.res, funcs, ctx.col, clause)
    if g3:
        R_args.g3_argcheck(ctx.pkg, funcs, ctx.col, clause)
    if g4:
        R_args.g4_affix(ctx.pkg, ctx.res, funcs, ctx.col, clause)
        R_args.g4_strip_matched(ctx.pkg, funcs, ctx.col, clause)
    R_args.g16_stale_loop_vars(ctx.pkg, funcs, ctx.col, clause)
    R_args.g44_init_stores_own_formal(ctx.pkg, funcs, ctx.col, clause)
    from rules import fwd as _R_fwd
    _R_fwd.g5_super_init(ctx.pkg, ctx.res, funcs, ctx.col, clause)
    hazards(ctx, funcs, clause)
    return funcs


def hazards(ctx: Ctx, funcs, clause: str = "S0"):
    """Generic, repository-tuned hazard rules over the functions a property owns (zero reports package-wide on
    the repaired tree): G19 known-rank contradictions, G20 -inf sentinel times a 0/1 mask, G21 unsigned NumPy
    scalars decremented and sign-tested, G22 constructor reads before initialisation, G23 truncating index slices
    whose bound is computed locally, G27 strided views with an absolute storage offset, G25 handler/raiser agreement, G26 boundary-vs-position index ranges."""
    import ast as _ast
    from rules.initorder import init_reads_before_set
    from rules.narrowint import NarrowInt
    from rules.rank import analyse
    from rules.sentinel import SentinelTaint
    from rules.trunc import TruncAnalysis
    from rules.strided import absolute_offset_views
    from rules.negzero import negative_length_bounds, possibly_negative_stops
    from rules.negdim import raw_negative_dim_uses
    from rules.viewparam import merging_views_of_parameters
    from rules.vacuous import vacuous_rank_tests
    from rules.alias import aliasing_cache_stores
    from rules.excmatch import ArgcheckRaises, mismatched_handlers
    from rules.boundary import length_equals_position
    from rules.deadformal import dead_formals
    from rules.flatindex import flat_index_sites
    from rules.cursor import cursor_skips
    from rules.flagpaths import partially_honoured_flags
    from rules.iterstate import leaking_accumulators
    from sa.astutil import u
    col = ctx.col
    n = 0
    from rules.controls import run_controls
    ctl = run_controls()  # raises AnalysisError (exit 2) if a zero-count rule went blind
    col.ob("G0", clause, "rule-controls::each-zero-count-rule-fires-on-its-violating-snippet-and-not-on-the-twin", True, "", "", 0,
           sample=ctl, nontrivial=False)
    for f in funcs:
        if f.parent is not None or f.is_overload:
            continue
        n += 1
        rel = f.module.relname
        where = f"{rel}::{f.qualname}"
        ra = analyse(f)
        seen, bad = set(), []
        for node, msg in ra.findings:
            if id(node) not in seen:
                seen.add(id(node))
                bad.append((node, msg))
        if ra.known_sites or bad:
            col.ob("G19", clause, f"{where}::dimension-within-known-rank", not bad,
                   (bad[0][1] + " - this branch fails for every input that reaches it") if bad else "", rel,
                   bad[0][0].lineno if bad else f.line, sample=[m for _, m in bad] or f"{ra.known_sites} dimension uses within rank",
                   nontrivial=False)
        st = SentinelTaint(f)
        ms = [s_ for s_ in st.sinks() if s_[1] == "mask"]
        if ms or any(st.is_source(x) for x in _ast.walk(f.node)):
            col.ob("G20", clause, f"{where}::neg-inf-sentinel*bool-mask", not ms,
                   ("a tensor that can hold the -inf sentinel is multiplied by a 0/1 mask (-inf * 0 = NaN): "
                    + "; ".join(f"line {s_[0].lineno}: `{u(s_[0])[:70]}`" for s_ in ms[:3])) if ms else "", rel,
                   ms[0][0].lineno if ms else f.line, sample=[u(s_[0])[:90] for s_ in ms] or "sentinel never multiplied by a mask",
                   nontrivial=False)
        ni = NarrowInt(f)
        if ni.ctor_vars:
            fs = ni.findings()
            names = {nm for _, k, nm in fs if k in ("decrement", "subtract", "negate")} & {nm for _, k, nm in fs if k == "sign-test"}
            col.ob("G21", clause, f"{where}::unsigned-scalar-decremented-and-sign-tested", not names,
                   f"`{sorted(names)[0] if names else ''}` may be an unsigned NumPy scalar that is decremented and sign-tested "
                   f"without int() widening", rel, f.line, nontrivial=False)
        ta = TruncAnalysis(f)
        params = {p.name for p in f.params}
        tb = [s_ for s_ in ta.sites if not s_["ok"] and s_["k"] not in params]
        if ta.sites:
            col.ob("G23", clause, f"{where}::index-slices-cover-their-extent", not tb,
                   (f"`{u(tb[0]['node'])}` slices an index range of extent {tb[0]['extents']} to `{tb[0]['k']}` entries "
                    f"without a cover (extent is not a max including it, no dominating guard)") if tb else "", rel,
                   tb[0]["node"].lineno if tb else f.line, sample=[u(s_["node"]) for s_ in ta.sites][:4], nontrivial=False)
        acr = getattr(ctx, "_acr", None)
        if acr is None:
            acr = ctx._acr = ArgcheckRaises(ctx.pkg)
        mh, seen_try = mismatched_handlers(ctx.pkg, f, acr)
        if seen_try:
            col.ob("G25", clause, f"{where}::handlers-catch-what-the-helper-raises", not mh,
                   (f"`{mh[0][1]}` raises {mh[0][2]} but the enclosing try only catches {mh[0][3]}: the fallback branch is "
                    f"unreachable") if mh else "", rel, mh[0][0].lineno if mh else f.line, nontrivial=False)
        lp = length_equals_position(f)
        if lp:
            blp = [x for x in lp if not x["ok"]]
            col.ob("G26", clause, f"{where}::lengths-marked-in-boundary-space", not blp,
                   (f"`{u(blp[0]['node'])}` marks a length (0..T) by equality in an index range of extent "
                    f"`{blp[0]['extent']}`: the boundary T is never marked") if blp else "", rel,
                   blp[0]["node"].lineno if blp else f.line, nontrivial=False)
        if f.cls is not None:
            cs = aliasing_cache_stores(f)
            if cs:
                bcs = [x for x in cs if not x["ok"]]
                col.ob("G29", clause, f"{where}::cache-stores-a-snapshot", not bcs,
                       (f"`{u(bcs[0]['node'])}` caches {bcs[0]['why']} by reference: after an in-place edit by the caller the "
                        f"validity test compares the object with itself and a stale result is served") if bcs else "", rel,
                       bcs[0]["node"].lineno if bcs else f.line, sample=[(x["attr"], x["why"]) for x in cs], nontrivial=False)
        for r_ in partially_honoured_flags(f):
            col.ob("G36", clause, f"{where}::option-{r_['flag']}-honoured-on-every-path-to-a-return", r_["ok"],
                   (f"the return at line {getattr(r_['ret'], 'lineno', '?')} of {f.qualname} is reached both by paths that test "
                    f"`{r_['flag']}` and by paths that do not: the option's effect sits inside one arm of an unrelated conditional, "
                    f"so on the other arm the caller's choice is ignored") if not r_["ok"] else "", rel,
                   getattr(r_["ret"], "lineno", f.line) if not r_["ok"] else f.line, sample=dict(paths=r_["n_paths"]), nontrivial=False)
        for r_ in leaking_accumulators(f):
            col.ob("G37", clause, f"{where}::accumulator-self.{r_['attr']}-re-created-per-iteration", r_["ok"],
                   (f"`{u(r_['node'])[:70]}` fills `self.{r_['attr']}` while iterating and __iter__ does not re-create it at its "
                    f"start: what one epoch leaves unfinished (e.g. incomplete batches that are dropped) is delivered in the next "
                    f"epoch, so an index appears twice and the batches depend on the history") if not r_["ok"] else "", rel,
                   r_["node"].lineno, nontrivial=False)
        cs_ = cursor_skips(f)
        if cs_:
            bcs_ = [x for x in cs_ if not x["ok"]]
            col.ob("G35", clause, f"{where}::delete-at-cursor-keeps-the-cursor", not bcs_,
                   (f"the scan at line {bcs_[0]['node'].lineno} removes the element at `{bcs_[0]['index']}` ({bcs_[0]['dels'][0]}) and "
                    f"advances `{bcs_[0]['index']}` in the same iteration ({bcs_[0]['path']}): the element that moved into the "
                    f"cursor position is never compared, so after two adjacent removals the remaining entries are paired off "
                    f"by one") if bcs_ else "", rel, bcs_[0]["node"].lineno if bcs_ else f.line,
                   sample=[(x["index"], x["dels"], x["n_paths"]) for x in cs_], nontrivial=False)
        fi = flat_index_sites(f)
        if fi:
            bfi = [x for x in fi if not x["ok"]]
            col.ob("G34", clause, f"{where}::flat-index-stride-is-the-column-count", not bfi,
                   (f"`{u(bfi[0]['node'])[:80]}` addresses a table of shape ({bfi[0]['rows']}, {bfi[0]['cols']}) through its flattened "
                    f"form with `{bfi[0]['stride']}`: the row stride must be the number of columns `{bfi[0]['cols']}`; the lookup is "
                    f"only right for square tables") if bfi else "", rel, bfi[0]["node"].lineno if bfi else f.line,
                   sample=[(x["stride"], x["cols"]) for x in fi], nontrivial=False)
        from rules.dropped import discarded_results, dropped_options, inplace_on_parameter_views, vacuous_any_of_self_comparison
        ipv = inplace_on_parameter_views(f)
        col.ob("G43", clause, f"{where}::no-in-place-operation-on-a-caller's-tensor", not ipv,
               (f"`{u(ipv[0]['node'])[:70]}` works in place on (a view of) the argument `{ipv[0]['param']}` - basic indexing, contiguous(), "
                f"view() ... hand back the caller's own storage (contiguous() whenever the layout already is, e.g. a one-row table): the "
                f"caller's tensor is rewritten, so using the same request again (features, then alignments) gives a different result") if ipv else "",
               rel, ipv[0]["node"].lineno if ipv else f.line, nontrivial=False)
        va = vacuous_any_of_self_comparison(f)
        if va:
            col.ob("G42", clause, f"{where}::all-equal-test-is-not-vacuous", False,
                   f"`{u(va[0])[:80]}` asks whether SOME entry equals the first entry, which is always true; 'all entries are equal' needs "
                   f".all(): entries that differ are accepted as uniform", rel, va[0].lineno, nontrivial=False)
        dro = dropped_options(ctx.pkg, ctx.res, f)
        col.ob("G38", clause, f"{where}::same-named-options-are-forwarded", not dro,
               (f"{f.qualname} accepts `{dro[0]['formal']}` but calls {dro[0]['callee']} without it (`{u(dro[0]['node'])[:80]}`): the callee "
                f"falls back to its default and what the caller asked for is silently ignored") if dro else "", rel,
               dro[0]["node"].lineno if dro else f.line, sample=[(d_["callee"], d_["formal"]) for d_ in dro], nontrivial=False)
        dis = discarded_results(f)
        col.ob("G39", clause, f"{where}::no-out-of-place-result-is-discarded", not dis,
               (f"`{u(dis[0])[:70]}` computes a new value and drops it (the out-of-place form does not change its receiver): the "
                f"statement has no effect and the code below works on the un-transformed value") if dis else "", rel,
               dis[0].lineno if dis else f.line, nontrivial=False)
        df = dead_formals(f)
        col.ob("G33", clause, f"{where}::every-accepted-option-is-read", not df,
               (f"`{df[0]}` is accepted by {f.qualname} but nothing in its body reads it: whatever the caller passes is silently "
                f"ignored (a call inside lost the argument)") if df else "", rel, f.line, nontrivial=False)
        vt = vacuous_rank_tests(f)
        if vt:
            col.ob("G32", clause, f"{where}::no-vacuous-rank-test", False,
                   f"`{u(vt[0]['node'])}` compares `{vt[0]['what']}`, a tensor rank / length, with {vt[0]['const']}: this is never true, "
                   f"so the case the validation meant to reject here (most likely the *dimension argument* being {vt[0]['const']}) is "
                   f"silently accepted", rel, vt[0]["node"].lineno, nontrivial=False)
        mv = merging_views_of_parameters(f)
        if mv:
            col.ob("G31", clause, f"{where}::no-merging-view-of-a-caller's-tensor", False,
                   f"`{u(mv[0]['node'])[:70]}` merges dimensions of `{mv[0]['param']}` with view(), which never copies: for a "
                   f"non-contiguous argument (a slice of a larger tensor, a transposed batch) it raises 'view size is not "
                   f"compatible with input tensor's size and stride'" + (f" ({len(mv)} such calls)" if len(mv) > 1 else ""),
                   rel, mv[0]["node"].lineno, sample=[u(x["node"])[:60] for x in mv], nontrivial=False)
        nd = raw_negative_dim_uses(f)
        if nd:
            col.ob("G30", clause, f"{where}::negative-dimension-normalised-before-arithmetic", False,
                   f"`{nd[0]['name']}` may be negative (the range check admits -rank..-1) but is used un-normalised in "
                   f"{nd[0]['kind']}" + (f" and {len(nd) - 1} more place(s)" if len(nd) > 1 else "") +
                   ": for a negative value this names a different (or non-existent) axis than the same dimension counted from the left",
                   rel, nd[0]["line"], sample=[x["kind"] for x in nd], nontrivial=False)
        nz = negative_length_bounds(f)
        if nz:
            bnz = [x for x in nz if not x["ok"]]
            col.ob("G28", clause, f"{where}::no-negative-zero-slice-bound", not bnz,
                   (f"`{u(bnz[0]['node'])}` ends at `{bnz[0]['bound']}`, the negated length of a string that may be empty: "
                    f"for length 0 this is `[..:0]`, the empty sequence, not the whole tail") if bnz else "", rel,
                   bnz[0]["node"].lineno if bnz else f.line, nontrivial=False)
        ps = possibly_negative_stops(f)
        if ps:
            bps = [x for x in ps if not x["ok"]]
            col.ob("G28", clause, f"{where}::slice-stops-cannot-go-negative", not bps,
                   (f"`{u(bps[0]['node'])[:60]}` stops at `{bps[0]['bound']}`: a data-derived size minus an amount that grows with an "
                    f"option of the call. Once the amount exceeds the size the stop is negative, which Python reads as 'all but the "
                    f"last k' - the operands then disagree in length (RuntimeError / IndexError) instead of the result being empty"
                    + (f" ({len(bps)} such slices)" if len(bps) > 1 else "")) if bps else "", rel,
                   bps[0]["node"].lineno if bps else f.line, sample=[u(x["node"])[:50] for x in ps], nontrivial=False)
        sv = absolute_offset_views(f)
        if sv:
            bsv = [x for x in sv if not x["ok"]]
            col.ob("G27", clause, f"{where}::strided-view-offset-relative-to-receiver", not bsv,
                   (f"`{u(bsv[0]['node'])[:90]}` passes the absolute storage offset `{bsv[0]['offset']}` without adding "
                    f"`{bsv[0]['recv']}.storage_offset()`: when `{bsv[0]['recv']}` is itself a slice of a larger tensor "
                    f"(contiguous() keeps the offset) the view reads other elements of the storage") if bsv else "", rel,
                   bsv[0]["node"].lineno if bsv else f.line, sample=[(x["recv"], x["offset"], x["why"]) for x in sv], nontrivial=False)
        if f.name == "__init__" and f.cls is not None:
            bads = init_reads_before_set(ctx.res, f)
            col.ob("G22", clause, f"{where}::reads-before-initialisation", not bads,
                   (f"`self.{bads[0][0]}` is read before it is assigned and before super().__init__()") if bads else "", rel,
                   bads[0][1].lineno if bads else f.line, nontrivial=False)
    col.count("hazard_functions", n)
