"""Shared context, anchor ownership table and the package-wide plumbing rules."""
from __future__ import annotations

import re
from dataclasses import dataclass
from typing import Dict, List

from sa.model import AnalysisError, FuncInfo, Package
from sa.resolve import Resolver
from sa.report import Collector
from rules import args as R_args


@dataclass
class Ctx:
    pkg: Package
    res: Resolver
    col: Collector
    tier: str
    prop: str

    def owned(self) -> List[FuncInfo]:
        return owned_funcs(self.pkg, self.prop)


# property -> [(module, regex over qualname)]  (callers owned by the property)
OWN: Dict[str, List[tuple]] = {
    "C01": [("_string", r"^(EditDistance|PrefixEditDistances|_StringMatching)\.|^(edit_distance|prefix_edit_distances|_string_matching|_lens_from_eos)$")],
    "C02": [("_string", r"^(ErrorRate|PrefixErrorRates|MinimumErrorRateLoss|_StringMatching)\.|^(error_rate|prefix_error_rates|minimum_error_rate_loss|_string_matching|_lens_from_eos)$")],
    "C03": [("_string", r"^(OptimalCompletion|HardOptimalCompletionDistillationLoss|_StringMatching)\.|^(optimal_completion|hard_optimal_completion_distillation_loss)$")],
    "C04": [("_decoding", r"^BeamSearch\.|^(beam_search_advance)$"),
            ("_lm", r"^(ExtractableSequentialLanguageModel|ExtractableShallowFusionLanguageModel|SequentialLanguageModel)\.")],
    "C05": [("_decoding", r"^CTCPrefixSearch\.|^(ctc_prefix_search_advance)$"),
            ("_lm", r"^(MixableSequentialLanguageModel|MixableShallowFusionLanguageModel|ExtractableSequentialLanguageModel)\.")],
    "C06": [("_lm", r"^LookupLanguageModel\.|^_lookup_calc_idx_log_probs$"),
            ("_parsing", r"^parse_arpa_lm$")],
    "C07": [("_decoding", r"^(SequenceLogProbabilities|RandomWalk|SequentialLanguageModelDistribution|CTCGreedySearch|TokenSequenceConstraint)\.|^(sequence_log_probs|_sequence_log_probs_tensor|_sequence_log_probs_ps|random_walk_advance|ctc_greedy_search)$"),
            ("_string", r"^FillAfterEndOfSequence\.|^fill_after_eos$")],
    "C08": [("_img", r"^(SpecAugment|Warp1DGrid|PolyharmonicSpline|DenseImageWarp|SparseImageWarp)\.|^(spec_augment.*|warp_1d_grid|polyharmonic_spline|dense_image_warp|sparse_image_warp|_.*)$")],
    "C09": [("_pad", r".*"), ("_img", r"^RandomShift\.|^random_shift$")],
    "C10": [("_feats", r"^(SliceSpectData|ChunkTokenSequencesBySlices)\.|^(slice_spect_data|chunk_token_sequences_by_slices)$"),
            ("command_line", r"^(chunk_torch_spect_data_dir|_chunk_torch_spect_data_dir_do_work)$")],
    "C11": [("_parsing", r"^(?!parse_arpa_lm$).*"), ("_textgrid", r".*")],
    "C12": [("_datasets", r"^(SpectDataSet|LangDataSet)\.|^(_info_and_validate|validate_spect_data_set|_load_ref|_write_hyp|_utts_in_dir|_validate_.*)$"),
            ("command_line", r"^get_torch_spect_data_dir_info$")],
    "C13": [("_dataloaders", r"^(AbstractEpochSampler|EpochRandomSampler|EpochSequentialSampler)\.")],
    "C14": [("_dataloaders", r"^(?!(AbstractEpochSampler|EpochRandomSampler|EpochSequentialSampler)\.).*"),
            ("_datasets", r"^(ContextWindowDataSet|LangDataSet|SpectDataSet)\.|^extract_window$")],
    "C15": [("training", r".*")],
    "C16": [("training", r".*")],
    "C17": [("command_line", r".*")],
    "C18": [("_feats", r"^(MeanVarianceNormalization|FeatureDeltas)\.|^(mean_var_norm|feat_deltas|_feat_delta_filters)$"),
            ("_rl", r".*"),
            ("command_line", r"^compute_mvn_stats_for_torch_feat_data_dir$")],
    "C19": [("_mc", r".*"), ("_enumerate_estimator", r".*"), ("_straight_through", r".*"),
            ("_combinatorics", r".*"), ("_estimators", r".*"), ("estimators", r".*")],
    "C20": [("_attn", r".*")],
}


def owned_funcs(pkg: Package, prop: str) -> List[FuncInfo]:
    out = []
    for mod, rx in OWN[prop]:
        mi = pkg.module(mod)
        r = re.compile(rx)
        n = 0
        for f in pkg.all_functions():
            if f.module is mi and not f.is_overload:
                top = f
                while top.parent is not None:
                    top = top.parent
                if r.search(top.qualname):
                    out.append(f)
                    n += 1
        if n == 0:
            raise AnalysisError(f"{prop}: no function in {mod} matches anchor pattern {rx}")
    return out


def plumbing(ctx: Ctx, clause: str = "S1", g3: bool = True, g4: bool = True):
    """G1-G4 over the functions owned by the property."""
    funcs = ctx.owned()
    ctx.col.count("owned_functions", len(funcs))
    R_args.g1_args(ctx.pkg, ctx.res, funcs, ctx.col, clause)
    R_args.g2_slots(ctx.pkg, ctx.res, funcs, ctx.col, clause)
    if g3:
        R_args.g3_argcheck(ctx.pkg, funcs, ctx.col, clause)
    if g4:
        R_args.g4_affix(ctx.pkg, ctx.res, funcs, ctx.col, clause)
        R_args.g4_strip_matched(ctx.pkg, funcs, ctx.col, clause)
    R_args.g16_stale_loop_vars(ctx.pkg, funcs, ctx.col, clause)
    return funcs
